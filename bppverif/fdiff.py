"""E7 (formula agreement) for finite-difference schemes: the formula stored into a derivative slot, read together with the points
at which the values it uses were obtained, must differentiate every polynomial of low degree exactly.

The points are found by a reaching-definition walk over the statements of updateDerivatives (no execution):
  p[k].setValue(value_k + E)            pending offset of coordinate k := E          (value_k: local initialised by getParameterValue)
  function_->setParameters(p|p.createSubList(k)|parameters)   current point of the wrapped function := pending offsets / base point
  fK_ = function_->getValue()           fK_ holds P(current point)
  L = E / L op= E on double locals      symbolic value of the local (fresh symbol when E is not arithmetic)
  derX_[i] = F / crossDer2_(i, j) = F   formula site: F with every fK_ replaced by P(point of fK_)
P is the generic polynomial of degree D in the offsets; the site is exact to degree D when F - (d/dx, d2/dx2, d2/dxdy of P at the base
point) is identically zero in the coefficients of P and in every step symbol. Required: degree >= max(order of the derivative,
number of distinct points - 1) for one variable, total degree 2 for the mixed derivative.

Three-valued: a formula that uses a value whose point this walk cannot name (helper call, by-reference argument, unknown statement
form) is UNKNOWN, never refuted.  Modelling assumptions (reported in the evidence): at the start of the treatment of a variable the
wrapped function sits at the base point (rule D2 decides the restore); a retry loop `while (...) { try { probe } catch { change step } }`
leaves through its last completed probe (the give-up exits leave the snapshot of the step at 0 and are guarded by the caller's test)."""
import sympy as sp
from .facts import kids, strip, walk, is_call, render


class Unknown(Exception):
    pass


class Stale(Exception):
    """the formula reads a value that was (re)assigned inside a try body whose handler is running: on the path through the handler
    the assignment may not have happened"""
    pass


DOUBLE = ("double", "const double", "float", "const float")
def fresh(name, key):
    """an unknown value; the name is a function of the program point so that two walks through the same statement agree"""
    return sp.Symbol("%s@%s" % (name, key), real=True)


class State:
    def __init__(self):
        self.loc = {}       # local decl id -> sympy value
        self.pp = {}        # pending offsets of p[k]  (k -> expr | None)
        self.pt = {}        # current point of the wrapped function (k -> expr | None); missing = base
        self.fv = {}        # f field qname -> tuple of (k, offset) | None

    def key(self):
        return (tuple(sorted((k, str(v)) for k, v in self.loc.items())), tuple(sorted((k, str(v)) for k, v in self.pp.items())),
                tuple(sorted((k, str(v)) for k, v in self.pt.items())), tuple(sorted((k, str(v)) for k, v in self.fv.items())))

    def copy(self):
        s = State()
        s.loc, s.pp, s.pt, s.fv = dict(self.loc), dict(self.pp), dict(self.pt), dict(self.fv)
        return s


def _join(a, b):
    if a is None:
        return b
    if b is None:
        return a
    s = State()
    for k in set(a.loc) | set(b.loc):
        va, vb = a.loc.get(k), b.loc.get(k)
        s.loc[k] = va if (va is not None and vb is not None and sp.simplify(va - vb) == 0) else fresh("j", "%s|%s" % tuple(sorted((str(va), str(vb)))))
    for name in ("pp", "pt"):
        da, db, out = getattr(a, name), getattr(b, name), getattr(s, name)
        for k in set(da) | set(db):
            va, vb = da.get(k, sp.Integer(0)), db.get(k, sp.Integer(0))
            out[k] = va if (va is not None and vb is not None and sp.simplify(va - vb) == 0) else None
    for k in set(a.fv) | set(b.fv):
        s.fv[k] = a.fv.get(k) if a.fv.get(k) == b.fv.get(k) else None
    return s


class Walker:
    def __init__(self, f, fb):
        self.f = f
        self.fb = fb
        self.sites = []       # (node, kind, formula node, state copy)
        self.coord = {}       # value-local decl id -> coordinate
        self.notes = set()
        self.ffields = set()
        self.bool_init = {}
        # value holders: every scalar member of the object that this function writes (assignment, compound assignment or
        # non-const reference argument); only '= function_->getValue()' gives such a member a known point
        for n in walk(f.body):
            if n["k"] in ("BinaryOperator", "CompoundAssignOperator") and n.get("op", "").endswith("=") and n["op"] not in ("==", "!=", "<=", ">="):
                l = strip(kids(n)[0])
                if l["k"] == "MemberExpr" and l["member"].get("this"):
                    self.ffields.add(l["member"]["qname"])
            elif is_call(n):
                pt = n["callee"].get("ptypes", [])
                for i, a in enumerate(f.args(n)):
                    ty = pt[i] if i < len(pt) else ""
                    t = strip(a)
                    if ty.endswith("&") and not ty.startswith("const ") and t["k"] == "MemberExpr" and t["member"].get("this"):
                        self.ffields.add(t["member"]["qname"])
        # own member functions called on this that store into scalar members: their stores count as stores of this function
        self.bind = None      # set on a sub-walker that reads an inlined member helper: callee parameter name -> 'param' | 'probe' | 'other'
        self.member_writes = {}     # call node id -> (target function, scalar members it assigns)
        for n in walk(f.body):
            if is_call(n) and n["callee"].get("inrepo") and ("obj" not in n or strip(f.obj(n))["k"] == "CXXThisExpr"):
                for t in fb.targets(n, static_type_only=True):
                    if t.body is None or t.key == f.key:
                        continue
                    w = set()
                    for x in walk(t.body):
                        if x["k"] in ("BinaryOperator", "CompoundAssignOperator") and x.get("op", "").endswith("=") and x["op"] not in ("==", "!=", "<=", ">="):
                            l = strip(kids(x)[0])
                            if l["k"] == "MemberExpr" and l["member"].get("this") and (l.get("ty") or "").replace("const ", "") in DOUBLE:
                                w.add(l["member"]["qname"])
                    if w:
                        self.member_writes[n["id"]] = (t, w)
                        self.ffields |= w
        self._names_of_coord(f)

    # ---- which coordinate of p a value local belongs to
    def _names_of_coord(self, f):
        self.vars_slot = {}   # name-local decl id -> k  (vars[k] = name)
        for n in walk(f.body):
            if is_call(n) and n["callee"]["name"] == "operator=" and "obj" in n:
                o = strip(f.obj(n))
                if is_call(o) and o.get("op") == "[]" and f.args(o):
                    idx = strip(f.args(o)[0])
                    a = strip(f.args(n)[0]) if f.args(n) else None
                    if idx["k"] == "IntegerLiteral" and a is not None and a["k"] == "DeclRefExpr":
                        self.vars_slot.setdefault(a["decl"]["id"], set()).add(int(idx["val"]))

    def value_coord(self, d):
        """d: declaration {id, init} of a local initialised by X->getParameterValue(NAME)"""
        init = strip(d["init"])
        a = strip(self.f.args(init)[0]) if self.f.args(init) else None
        if a is not None and a["k"] == "DeclRefExpr":
            slots = self.vars_slot.get(a["decl"]["id"], set())
            if len(slots) == 1:
                return next(iter(slots))
            if not slots:
                return 0
        raise Unknown("cannot tell which element of the probe list holds '%s'" % d["name"])

    # ---- expressions
    def sx(self, n, st):
        n = strip(n)
        k = n["k"]
        if k == "IntegerLiteral":
            return sp.Integer(int(n["val"]))
        if k == "FloatingLiteral":
            return sp.nsimplify(n["val"], rational=True)
        if k == "DeclRefExpr":
            d = n["decl"]
            if d["id"] in st.loc:
                v = st.loc[d["id"]]
                if v is None:
                    raise Unknown("local '%s' has no symbolic value here" % d["name"])
                return v
            raise Unknown("name '%s'" % d["name"])
        if k == "MemberExpr" and n["member"].get("this"):
            q = n["member"]["qname"]
            if q in self.ffields:
                pt = st.fv.get(q)
                if pt is not None and len(pt) == 2 and pt[0] == "stale":
                    raise Stale("%s is assigned inside the try block at %s; in this handler the exception may have been raised before that assignment, and the handler does not take the value again" % (n["member"]["name"], pt[1]))
                if pt is None:
                    raise Unknown("the point at which %s was evaluated is not known here" % n["member"]["name"])
                return _P(pt)
            return sp.Symbol("F_" + n["member"]["name"], real=True)
        if k == "UnaryOperator" and n["op"] in ("-", "+") and not n.get("postfix"):
            v = self.sx(kids(n)[0], st)
            return -v if n["op"] == "-" else v
        if k == "BinaryOperator" and n["op"] in ("+", "-", "*", "/"):
            a, b = self.sx(kids(n)[0], st), self.sx(kids(n)[1], st)
            return {"+": a + b, "-": a - b, "*": a * b, "/": a / b}[n["op"]]
        if is_call(n) and n["callee"]["name"] == "pow" and len(self.f.args(n)) == 2:
            e = strip(self.f.args(n)[1])
            if e["k"] in ("IntegerLiteral", "FloatingLiteral") and float(e["val"]) == int(float(e["val"])):
                return self.sx(self.f.args(n)[0], st) ** int(float(e["val"]))
        raise Unknown("expression form %s" % k)

    # ---- statements
    def assigned_in(self, n):
        """(double locals written, f fields written) anywhere inside n"""
        locs, ffs = set(), set()
        for x in walk(n):
            k = x["k"]
            if k in ("BinaryOperator", "CompoundAssignOperator") and x.get("op", "").endswith("=") and x["op"] not in ("==", "!=", "<=", ">="):
                t = strip(kids(x)[0])
                if t["k"] == "DeclRefExpr":
                    locs.add(t["decl"]["id"])
                if t["k"] == "MemberExpr" and t["member"].get("this") and t["member"]["qname"] in self.ffields:
                    ffs.add(t["member"]["qname"])
            elif k == "UnaryOperator" and x["op"] in ("++", "--"):
                t = strip(kids(x)[0])
                if t["k"] == "DeclRefExpr":
                    locs.add(t["decl"]["id"])
            elif is_call(x):
                l2, f2 = self._byref(x)
                locs |= l2
                ffs |= f2
        return locs, ffs

    def _byref(self, c):
        locs, ffs = set(), set()
        pt = c["callee"].get("ptypes", [])
        args = self.f.args(c)
        for i, a in enumerate(args):
            ty = pt[i] if i < len(pt) else ""
            if ty.endswith("&") and not ty.startswith("const "):
                t = strip(a)
                if t["k"] == "DeclRefExpr":
                    locs.add(t["decl"]["id"])
                if t["k"] == "MemberExpr" and t["member"].get("this") and t["member"]["qname"] in self.ffields:
                    ffs.add(t["member"]["qname"])
        if c["id"] in self.member_writes:
            ffs |= self.member_writes[c["id"]][1]
        # a lambda or helper that captures everything can write anything: f fields become unknown
        if c["callee"].get("via") == "operator" and c.get("op") == "()" and "obj" in c:
            o = strip(self.f.obj(c))
            if o["k"] == "DeclRefExpr" and "lambda" in o["decl"].get("ty", ""):
                ffs |= set(self.ffields)
        return locs, ffs

    def havoc(self, st, locs, ffs, coords=False, key="", stale=None):
        for i in locs:
            if i in st.loc:
                st.loc[i] = fresh("v%d" % i, key)
        for q in ffs:
            st.fv[q] = ("stale", stale) if stale else None
        if coords:
            for k in list(st.pp):
                st.pp[k] = None
            for k in list(st.pt):
                st.pt[k] = None

    CAP = 6

    def cap(self, sts):
        seen, uniq = set(), []
        for x in sts:
            k = x.key()
            if k not in seen:
                seen.add(k)
                uniq.append(x)
        sts = uniq
        if len(sts) <= self.CAP:
            return sts
        r = None
        for x in sts:
            r = _join(r, x)
        return [r]

    def feasible(self, cond, st, truth, depth=0):
        """False only when the test certainly has the other outcome in this state (a step snapshot that is the literal 0 / a
        non-zero number compared with 0); anything else is possible"""
        c = strip(cond) if cond is not None else None
        if c is None or depth > 4:
            return True
        if c["k"] == "UnaryOperator" and c["op"] == "!":
            return self.feasible(kids(c)[0], st, not truth, depth + 1)
        if c["k"] == "DeclRefExpr" and c["decl"].get("ty") in ("bool", "const bool") and c["decl"]["id"] in self.bool_init:
            init, deps = self.bool_init[c["decl"]["id"]]
            return self.feasible(init, st, truth, depth + 1)
        if c["k"] == "BinaryOperator" and c["op"] in ("==", "!="):
            l, r = strip(kids(c)[0]), strip(kids(c)[1])
            for x, y in ((l, r), (r, l)):
                if x["k"] == "DeclRefExpr" and x["decl"]["id"] in st.loc and y["k"] in ("IntegerLiteral", "FloatingLiteral") and float(y["val"]) == 0.0:
                    v = st.loc[x["decl"]["id"]]
                    if v is None:
                        return True
                    if v == 0:
                        return truth == (c["op"] == "==")
                    if v.is_number:
                        return truth == (c["op"] == "!=")
        return True

    def run(self, n, st, in_retry=False):
        """states after normal completion of n (empty: n never completes normally)"""
        if n is None:
            return [st]
        k = n["k"]
        f = self.f
        if k == "CompoundStmt":
            sts = [st]
            for c in kids(n):
                nxt = []
                for s in sts:
                    nxt.extend(self.run(c, s, in_retry))
                sts = self.cap(nxt)
                if not sts:
                    return []
            return sts
        if k in ("ReturnStmt", "BreakStmt", "ContinueStmt", "CXXThrowExpr"):
            return []
        if k in ("ExprWithCleanups",) and kids(n) and strip(n)["k"] == "CXXThrowExpr":
            return []
        if k == "DeclStmt":
            for d in n["decls"]:
                if d.get("ty") in DOUBLE:
                    init = d.get("init")
                    if init is None:
                        st.loc[d["id"]] = fresh(d["name"], "d%d" % d["id"])
                        continue
                    i2 = strip(init)
                    if is_call(i2) and i2["callee"]["name"] == "getParameterValue":
                        try:
                            c = self.value_coord(d)
                            self.coord[d["id"]] = c
                            st.loc[d["id"]] = sp.Symbol("X%d" % c, real=True)
                        except Unknown as e:
                            self.notes.add(str(e))
                            st.loc[d["id"]] = None
                        continue
                    try:
                        st.loc[d["id"]] = self.sx(init, st)
                    except Unknown:
                        st.loc[d["id"]] = fresh(d["name"], "d%d" % d["id"])
                        self.effects(init, st)
                elif d.get("init") is not None:
                    if d.get("ty") in ("bool", "const bool"):
                        self.bool_init[d["id"]] = (d["init"], None)
                    self.effects(d["init"], st)
            return [st]
        if k == "IfStmt":
            cond = f.nodes.get(n["cond"])
            self.effects(cond, st)
            out = []
            if self.feasible(cond, st, True):
                out.extend(self.run(f.nodes.get(n["then"]), st.copy(), in_retry))
            if self.feasible(cond, st, False):
                out.extend(self.run(f.nodes.get(n["else"]), st.copy(), in_retry) if n.get("else") is not None else [st.copy()])
            return self.cap(out)
        if k in ("ForStmt", "WhileStmt", "DoStmt", "CXXForRangeStmt"):
            body = f.nodes.get(n["body"]) if n.get("body") is not None else (kids(n)[-1] if kids(n) else None)
            if k == "ForStmt" and n.get("init") is not None:
                r = self.run(f.nodes.get(n["init"]), st, in_retry)
                st = r[0] if r else st
            locs, ffs = self.assigned_in(n)
            ent = st.copy()
            self.havoc(ent, locs, ffs, key="L%d" % n["id"])
            retry = k in ("WhileStmt", "DoStmt") and any(x["k"] == "CXXTryStmt" for x in walk(body))
            if k in ("ForStmt", "CXXForRangeStmt"):
                # a loop over variables: each pass starts from the base point with a fresh probe list
                ent.pt, ent.pp = {}, {}
            outs = self.run(body, ent.copy(), retry)
            if retry:
                return outs if outs else [ent]
            r = ent
            for o in outs:
                r = _join(r, o)
            return [r]
        if k == "CXXTryStmt":
            ks = kids(n)
            body, handlers = ks[0], ks[1:]
            locs, ffs = self.assigned_in(body)
            s1 = self.run(body, st.copy(), in_retry)
            outs = []
            for h in handlers:
                hs = st.copy()
                self.havoc(hs, locs, ffs, coords=True, key="H%d" % h["id"], stale=self.f.loc(n))
                outs.extend(self.run(kids(h)[-1] if kids(h) else None, hs, in_retry))
            if in_retry and s1:
                return s1
            return self.cap(s1 + outs)
        if k in ("SwitchStmt", "GotoStmt", "LabelStmt"):
            locs, ffs = self.assigned_in(n)
            self.havoc(st, locs, ffs, coords=True, key="S%d" % n["id"])
            return [st]
        # expression statement
        self.effects(n, st)
        return [st]

    def effects(self, n, st):
        """apply the assignments and calls of one full expression, innermost first is not needed: statements of this code are flat"""
        if n is None:
            return
        f = self.f
        n0 = strip(n)
        k = n0["k"]
        if k in ("BinaryOperator", "CompoundAssignOperator") and n0.get("op", "").endswith("=") and n0["op"] not in ("==", "!=", "<=", ">="):
            l, r = strip(kids(n0)[0]), strip(kids(n0)[1])
            # formula sites
            lt = render(l)
            for fld, kind in (("der1_", 1), ("der2_", 2), ("crossDer2_", 11)):
                if lt.startswith(fld + "[") or lt.startswith(fld + "("):
                    if n0["op"] == "=":
                        self.sites.append((n0, kind, r, st.copy()))
                    return
            if l["k"] == "MemberExpr" and l["member"].get("this") and l["member"]["qname"] in self.ffields:
                if n0["op"] == "=" and is_call(r) and r["callee"]["name"] == "getValue" and "function_" in render(r):
                    ks = sorted(set(st.pt) | {0})
                    st.fv[l["member"]["qname"]] = None if any(st.pt.get(c, sp.Integer(0)) is None for c in ks) else tuple((c, st.pt.get(c, sp.Integer(0))) for c in ks)
                else:
                    st.fv[l["member"]["qname"]] = None
                    self.effects(r, st)
                return
            if l["k"] == "DeclRefExpr" and l["decl"].get("ty") in DOUBLE:
                i = l["decl"]["id"]
                try:
                    v = self.sx(r, st)
                    if n0["op"] != "=":
                        cur = st.loc.get(i)
                        if cur is None:
                            raise Unknown("")
                        v = {"+=": cur + v, "-=": cur - v, "*=": cur * v, "/=": cur / v}[n0["op"]]
                    st.loc[i] = v
                except (Unknown, KeyError):
                    st.loc[i] = fresh(l["decl"]["name"], "a%d" % n0["id"])
                    self.effects(r, st)
                return
            self.effects(r, st)
            return
        if is_call(n0):
            c = n0
            name = c["callee"]["name"]
            if name == "setValue" and "obj" in c:
                o = render(f.obj(c))
                import re
                m = re.match(r"^(\w+)\[(\d+)\]$", o)
                if m:
                    kk = int(m.group(2))
                    try:
                        v = self.sx(f.args(c)[0], st)
                        off = sp.expand(v - sp.Symbol("X%d" % kk, real=True))
                        # the argument must be 'value of that element + step'; anything else is not a form this walk reads
                        st.pp[kk] = None if any(str(y).startswith("X") for y in off.free_symbols) else off
                    except Unknown as e:
                        st.pp[kk] = None
                    return
            if name == "setParameters" and "obj" in c and render(f.obj(c)) == "function_":
                a = strip(f.args(c)[0])
                at = render(a)
                ptypes = {p["name"] for p in f.params}
                import re
                m = re.match(r"^(\w+)\.createSubList\((\d+)\)$", at)
                bound = self.bind.get(a["decl"]["name"]) if (self.bind is not None and a["k"] == "DeclRefExpr" and a["decl"].get("kind") == "param") else None
                if bound == "probe":
                    for kk, v in st.pp.items():
                        st.pt[kk] = v
                elif bound == "other":
                    for kk in set(st.pt) | set(st.pp) | {0}:
                        st.pt[kk] = None
                elif a["k"] == "DeclRefExpr" and a["decl"]["kind"] == "param":
                    st.pt = {}
                elif a["k"] == "DeclRefExpr":
                    for kk, v in st.pp.items():
                        st.pt[kk] = v
                elif m and m.group(1) not in ptypes:
                    kk = int(m.group(2))
                    st.pt[kk] = st.pp.get(kk, sp.Integer(0))
                elif at.split(".")[0] in ptypes:
                    st.pt = {}      # a restore from the unmodified argument
                else:
                    for kk in set(st.pt) | set(st.pp) | {0}:
                        st.pt[kk] = None
                return
            if name == "operator=" and "obj" in c and strip(f.obj(c))["k"] == "DeclRefExpr" and "ParameterList" in strip(f.obj(c))["decl"].get("ty", ""):
                a = f.args(c)
                at = render(a[0]) if a else ""
                me = strip(f.obj(c))["decl"]["name"]
                import re
                if at.startswith(me + ".createSubList("):
                    m = re.match(r"^\w+\.createSubList\((\d+)\)$", at)
                    if m:
                        kk = int(m.group(1))
                        st.pp = {0: st.pp.get(kk, sp.Integer(0))} if kk == 0 else {0: st.pp.get(kk, sp.Integer(0))}
                        if kk != 0:
                            self.notes.add("probe list re-indexed by createSubList(%d)" % kk)
                    # a vector of positions keeps the leading elements in place
                elif any(at.startswith(p["name"] + ".") for p in f.params):
                    st.pp = {}
                else:
                    for kk in list(st.pp):
                        st.pp[kk] = None
                return
            if c["id"] in self.member_writes and self.bind is None:
                t, w = self.member_writes[c["id"]]
                flat = t.body is not None and all(x["k"] not in ("IfStmt", "ForStmt", "WhileStmt", "DoStmt", "CXXTryStmt", "SwitchStmt", "ReturnStmt", "CXXForRangeStmt", "ConditionalOperator", "LambdaExpr") for x in walk(t.body))
                if flat and len(t.params) == len(f.args(c)):
                    # a straight-line member helper ('move to the point, take the value'): read its statements in this state, with
                    # its parameters standing for what the caller passed
                    sub = Walker(t, self.fb)
                    sub.ffields = self.ffields
                    sub.bind = {}
                    for p_, a_ in zip(t.params, f.args(c)):
                        a0 = strip(a_)
                        if a0["k"] == "DeclRefExpr" and a0["decl"].get("kind") == "param":
                            sub.bind[p_["name"]] = "param"
                        elif a0["k"] == "DeclRefExpr" and "ParameterList" in (a0["decl"].get("ty") or ""):
                            sub.bind[p_["name"]] = "probe"
                        else:
                            sub.bind[p_["name"]] = "other"
                    keep = dict(st.loc)
                    for x in kids(t.body):
                        sub.effects(x, st)
                    st.loc = keep
                    return
            locs, ffs = self._byref(c)
            self.havoc(st, locs, ffs, key="c%d" % c["id"])
            for a in f.args(c):
                self.effects(a, st)
            return
        if k == "ConditionalOperator":
            for c in kids(n0):
                self.effects(c, st)
            return
        if k == "UnaryOperator" and n0["op"] in ("++", "--"):
            t = strip(kids(n0)[0])
            if t["k"] == "DeclRefExpr" and t["decl"]["id"] in st.loc:
                st.loc[t["decl"]["id"]] = fresh("c", "u%d" % n0["id"])
            return
        for c in kids(n0):
            self.effects(c, st)


_COEF = {}


def _P(pt):
    """placeholder for P(point): a sympy function application over the offsets"""
    return sp.Function("P")(*[sp.sympify(o) for _, o in sorted(pt)])


def exactness(expr, kind, maxdeg=6):
    """(largest degree D such that expr reproduces the derivative of every polynomial of degree <= D, number of distinct points,
    lowest failing monomial).  kind: 1, 2 (one variable), 11 (mixed)"""
    apps = sorted(expr.atoms(sp.Function), key=str)
    apps = [a for a in apps if a.func.__name__ == "P"]
    pts = {a.args for a in apps}
    nvar = 2 if kind == 11 else 1
    if kind != 11 and any(len(a.args) > 1 and any(sp.simplify(x) != 0 for x in a.args[1:]) for a in apps):
        raise Unknown("a value used by a one-variable formula was taken with a second variable shifted")
    best, fail = -1, None
    s, t = sp.symbols("s t", real=True)
    for D in range(0, maxdeg + 1):
        ok = True
        monos = [(i, j) for i in range(D + 1) for j in (range(D + 1 - i) if nvar == 2 else [0]) if i + j == D]
        for (i, j) in monos:
            def val(a, i=i, j=j):
                x = a.args[0]
                y = a.args[1] if len(a.args) > 1 else sp.Integer(0)
                return x ** i * (y ** j if nvar == 2 else 1)
            e = expr.subs({a: val(a) for a in apps})
            true = {1: 1 if (i, j) == (1, 0) else 0, 2: 2 if (i, j) == (2, 0) else 0, 11: 1 if (i, j) == (1, 1) else 0}[kind]
            if sp.simplify(e - true) != 0:
                ok = False
                fail = "x^%d" % i if nvar == 1 else "x^%d y^%d" % (i, j)
                break
        if not ok:
            break
        best = D
    return best, len(pts), fail


def check(chk, fb, rid, qnames, minimum):
    n_sites = 0
    for q in qnames:
        f = fb.q1(q)
        w = Walker(f, fb)
        w.run(f.body, State())
        by_site = {}
        for node, kind, rhs, s in w.sites:
            by_site.setdefault(node["id"], (node, kind, rhs, []))[3].append(s)
        for nid, (node, kind, rhs, states) in sorted(by_site.items()):
            what = {1: "first derivative", 2: "second derivative", 11: "mixed second derivative"}[kind]
            r0 = strip(rhs)
            if not any(x["k"] == "MemberExpr" and x["member"].get("this") and x["member"]["qname"] in w.ffields for x in walk(r0)):
                continue        # not a difference formula (NaN fill, copy of another slot)
            n_sites += 1
            con = "formula:%s" % render(kids(node)[0]).split("[")[0].split("(")[0]
            verdicts = []
            for s in states:
                try:
                    e = w.sx(r0, s)
                    deg, npts, fail = exactness(e, kind)
                except Stale as ex:
                    verdicts.append(("refuted", "%s '%s' uses a value this path may not have computed: %s" % (what, render(r0)[:80], ex), {"formula": render(r0), "history": "a constraint hit by the first probe of the try block"}))
                    continue
                except Unknown as ex:
                    verdicts.append(("unknown", str(ex)))
                    continue
                need = 2 if kind == 11 else max(kind, npts - 1)
                pts = sorted({str(a.args if len(a.args) > 1 else a.args[0]) for a in e.atoms(sp.Function) if a.func.__name__ == "P"})
                if deg >= need:
                    verdicts.append(("proved", "%s from %d point(s) at offsets %s: exact for every polynomial of degree <= %d (required %d)" % (what, npts, pts, deg, need)))
                else:
                    verdicts.append(("refuted", "%s '%s' with the values taken at offsets %s is not exact for the polynomial %s (exact only up to degree %d; a %d-point formula must reach degree %d)" % (
                        what, render(r0)[:90], pts, fail, deg, npts, need), {"polynomial": fail, "offsets": pts, "formula": render(r0)}))
            bad = [v for v in verdicts if v[0] == "refuted"]
            unk = [v for v in verdicts if v[0] == "unknown"]
            if bad:
                chk.refuted(rid, f.key, con, f.loc(node), bad[0][1], witness=bad[0][2])
            elif unk or not verdicts:
                chk.unknown(rid, f.key, con, f.loc(node), "%s: %s" % (what, unk[0][1] if unk else "no state reaches the formula"))
            else:
                chk.proved(rid, f.key, con, f.loc(node), verdicts[0][1])
        for note in sorted(w.notes):
            chk.assume("%s: %s" % (f.name, note))
    chk.floor(rid, "difference formulas", n_sites, minimum)
