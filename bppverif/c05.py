"""C05 LU solve, inverse and determinant meet their equations or report singularity (structural clauses).

 D0 class invariant: LU is m x n, L_ m x n, U_ n x n, piv has m entries; established by the constructor's initialisers and
    never resized elsewhere
 D1 index discipline (E2) of every member under that invariant, for square matrices of order >= 1 (the property's domain)
 D2 solve: the height test ends in a throw and precedes the read of the right-hand side and every normal return; the singularity
    test (smallest diagonal magnitude below NumConstants::SMALL() -> ZeroDivisionException) precedes every normal return
 D3 pivot bookkeeping: a block that exchanges two entries of piv exchanges the two rows of LU over all columns (0 .. n) and
    flips pivsign exactly once; pivsign starts at 1; det() starts from pivsign; piv is only ever written with its own index or
    with other entries of piv (stays a permutation)
 D4 the permuted copy is a gather: X(i, .) = A(piv[i], .)
 D5 smallest-pivot scan: starts at |LU(0,0)|, visits LU(i,i) for every i up to the order, keeps the smaller, and is what solve returns
 D6 index typing of every update: 'M(a,b) -= P(a,c) * Q(c,b)' (product rule), divisions by the diagonal entry of the eliminated
    index, multipliers computed only under a non-zero pivot test; forward substitution uses the strictly lower part (i > k) and does
    not divide, backward substitution divides by LU(k,k) before using the strictly upper part (i < k)
 D7 pivot choice compares magnitudes of column entries (abs on both sides), starting from the diagonal row
 D8 triangular extraction (getL/getU) and the wrappers MatrixTools::inv / det (square test first, identity of the right order,
    value of solve / det returned)
"""
from .facts import kids, strip, walk, is_call, render, local_inits, AnalysisBroken
from . import e1, umbrella

NEEDS_VT = True
EXPLANATION = ("Static analysis of the structural clauses of C05 on LUDecomposition<double> (members instantiated one by one; the two std::vector overloads do not compile and are skipped) and "
               "MatrixTools::inv/det: class invariant from the constructor initialisers, symbolic index bounds (E2) under that invariant, guard dominance in solve, pairing of row exchange / "
               "pivot vector exchange / sign flip, gather direction of the permuted copy, coverage of the smallest-pivot scan, product-rule index typing of every elimination / substitution update, "
               "magnitude comparison in the pivot search, triangular extraction and wrapper plumbing. NOT decided: backward error, exactness of determinants, det(AB)=det(A)det(B): these are values.")
LU = "bpp::LUDecomposition<double>"
MT = "bpp::MatrixTools"
SKIPPED = []


def instantiations(fb, headers):
    hs = ["Bpp/Numeric/Matrix/LUDecomposition.h"]
    ts = umbrella.list_templates(fb.scratch, fb.src, hs)
    txt, done, skipped = umbrella.instantiate_class_members(ts, "bpp::LUDecomposition", "LUD", {"Real": "double"},
                                                            skip=[("solve", "std::vector"), ("permuteCopy", "std::vector<Real> &")])
    SKIPPED[:] = skipped
    s = "using LUD = bpp::LUDecomposition<double>;\nnamespace bpp {\n" + txt + "}\n"
    s += "template double bpp::MatrixTools::inv<double>(const bpp::Matrix<double>&, bpp::Matrix<double>&);\n"
    s += "template double bpp::MatrixTools::det<double>(const bpp::Matrix<double>&);\n"
    return s


def _one(fb, q, pred=None, what=None):
    fs = [f for f in fb.q(q) if f.body is not None and (pred is None or pred(f))]
    if len(fs) != 1:
        raise AnalysisBroken("anchor vanished: %s (%d candidates)" % (what or q, len(fs)))
    return fs[0]


def _members(fb):
    ctor = _one(fb, LU + "::LUDecomposition", lambda f: f.rec.get("ctor") and not f.rec.get("copyctor") and len(f.params) == 1, "LUDecomposition(const Matrix&)")
    solve = _one(fb, LU + "::solve", lambda f: "Matrix" in f.key, "solve(const Matrix&, Matrix&)")
    pc = _one(fb, LU + "::permuteCopy", lambda f: len(f.params) == 5, "permuteCopy(A, piv, j0, j1, X)")
    det = _one(fb, LU + "::det")
    getl = _one(fb, LU + "::getL")
    getu = _one(fb, LU + "::getU")
    return dict(ctor=ctor, solve=solve, permuteCopy=pc, det=det, getL=getl, getU=getu)


def _range(fun, var_id, site):
    """exact [lo, hi) of a counted loop variable; None when not a counted loop or when its start was approximated"""
    rg = fun.loop_range(var_id, site)
    if rg is not None and var_id in fun.approx_loops:
        return None
    return rg


def _assigns(f, ops=("=",)):
    return [n for n in walk(f.body) if n["k"] in ("BinaryOperator", "CompoundAssignOperator") and n.get("op") in ops]


_SUBS = {}


def _subs(f):
    if f.key not in _SUBS:
        _SUBS[f.key] = local_inits(f)
    return _SUBS[f.key]


def _resolve(f, n, depth=0):
    """follow single-definition locals (const Real pivot = LU(k, k)) to their initialiser"""
    n = strip(n)
    while n is not None and n["k"] == "DeclRefExpr" and n["decl"]["kind"] == "local" and n["decl"]["id"] in _subs(f) and depth < 4:
        n = strip(_subs(f)[n["decl"]["id"]])
        depth += 1
    return n


def _elem(n):
    """(container text, [index texts]) of M(a, b) / v[a]"""
    n = strip(n)
    if is_call(n) and n["callee"]["name"] in ("operator()", "operator[]") and "obj" in n:
        return n
    return None


def _el(f, n):
    c = _elem(_resolve(f, n))
    if c is None:
        return None
    return (render(f.obj(c)), [render(a) for a in f.args(c)])


def _R(f, n):
    """rendering with single-definition locals replaced by their initialisers"""
    return render(n, _subs(f))


# ------------------------------------------------------------------------------------------------ D0 / D1

def _d0(chk, fb, M):
    ctor = M["ctor"]
    a = ctor.params[0]["name"]
    want = {"LU": ("%s" % a,), "L_": ("%s.getNumberOfRows()" % a, "%s.getNumberOfColumns()" % a), "U_": ("%s.getNumberOfColumns()" % a, "%s.getNumberOfColumns()" % a),
            "m": ("%s.getNumberOfRows()" % a,), "n": ("%s.getNumberOfColumns()" % a,), "piv": ("%s.getNumberOfRows()" % a,), "pivsign": ("1",)}
    inits = {i.get("fname"): i for i in ctor.rec.get("inits", []) if i.get("fname")}
    for fld, w in want.items():
        i = inits.get(fld)
        if i is None or not i.get("written"):
            chk.refuted("D0", ctor.key, "init:" + fld, ctor.loc(), "member %s is not initialised by the constructor" % fld)
            continue
        e = ctor.nodes.get(i["expr"]) if isinstance(i.get("expr"), int) else i.get("expr")
        args = None
        if e is not None:
            es = strip(e)
            if es["k"] in ("CXXConstructExpr", "CXXTemporaryObjectExpr"):
                args = tuple(a_ for a_ in (render(x) for x in ctor.args(es)) if a_ != "<default>")
            else:
                args = (render(es),)
        if args == w:
            chk.proved("D0", ctor.key, "init:" + fld, ctor.loc(), "%s(%s)" % (fld, ", ".join(w)))
        elif args is None:
            chk.unknown("D0", ctor.key, "init:" + fld, ctor.loc(), "initialiser not readable")
        elif not all(x in ("%s.getNumberOfRows()" % a, "%s.getNumberOfColumns()" % a, a, "1", "-1", "0") for x in args):
            chk.unknown("D0", ctor.key, "init:" + fld, ctor.loc(), "initialiser (%s) not in the recognised vocabulary" % ", ".join(args))
        else:
            chk.refuted("D0", ctor.key, "init:" + fld, ctor.loc(),
                        "member %s is initialised with (%s); the factorisation code indexes it as (%s) - dimensions / sign no longer match their use" % (fld, ", ".join(args), ", ".join(w)),
                        witness={"shape": "a 2x3 or 3x3 matrix"})
    # nobody else changes the shape
    for f in fb.concrete_fns():
        if f.cls != LU or f.body is None or f is ctor:
            continue
        for c in f.calls():
            if c["callee"]["name"] in ("resize", "clear", "push_back", "pop_back", "erase", "insert", "assign", "addRow", "addCol") and "obj" in c:
                t = render(f.obj(c))
                if t in ("LU", "L_", "U_", "piv"):
                    chk.refuted("D0", f.key, "reshape:" + t, f.loc(c), "%s changes the shape of %s after construction" % (f.name, t))
        for n in _assigns(f, ("=", "+=", "-=", "++", "--")):
            if render(kids(n)[0]) in ("m", "n"):
                chk.refuted("D0", f.key, "reshape:" + render(kids(n)[0]), f.loc(n), "%s writes the stored dimension %s" % (f.name, render(kids(n)[0])))
    chk.proved("D0", LU, "shape-frozen", "", "no member other than the constructor resizes LU, L_, U_, piv or writes m, n")


def _d1(chk, fb, M):
    from . import e2
    S = e2.sp()
    m = S.Symbol("F_m", integer=True, nonnegative=True)
    n = S.Symbol("F_n", integer=True, nonnegative=True)
    inv = {"LU": {"R": m, "C": n}, "L_": {"R": m, "C": n}, "U_": {"R": n, "C": n}, "piv": {"N": m}}
    extra = [S.Eq(m, n), S.Ge(n, 1)]
    total = 0
    for nm in ("ctor", "solve", "det", "getL", "getU", "permuteCopy"):
        f = M[nm]
        ex = list(extra)
        iv = dict(inv)
        if nm == "ctor":
            a = f.params[0]["name"]
            ex += [S.Eq(S.Symbol("R_" + a, integer=True, nonnegative=True), m), S.Eq(S.Symbol("C_" + a, integer=True, nonnegative=True), n)]
        if nm == "permuteCopy":
            # private helper: analysed with the arguments its only caller passes (solve: B, piv, 0, nx - 1, X)
            sv = M["solve"]
            calls = [c for c in sv.calls() if c["callee"]["name"] == "permuteCopy"]
            if len(calls) != 1 or len(sv.args(calls[0])) != 5:
                raise AnalysisBroken("anchor vanished: the call of permuteCopy in solve")
            sfun = e2.Fun(fb, sv, invariants=inv, extra_rels=extra)
            ca = sv.args(calls[0])
            bsym = render(ca[0])
            pa = [p_["name"] for p_ in f.params]
            e0, e1_ = sfun.size_expr(ca[2], calls[0]), sfun.size_expr(ca[3], calls[0])
            ren = {S.Symbol("R_" + bsym, integer=True, nonnegative=True): S.Symbol("R_" + pa[0], integer=True, nonnegative=True),
                   S.Symbol("C_" + bsym, integer=True, nonnegative=True): S.Symbol("C_" + pa[0], integer=True, nonnegative=True)}
            iv, ex = {}, []
            if e0 is not None and e1_ is not None and render(ca[1]) == "piv":
                ex = [S.Eq(S.Symbol("P_" + pa[2], integer=True, nonnegative=True), e0.subs(ren)), S.Eq(S.Symbol("P_" + pa[3], integer=True, nonnegative=True) + 1, (e1_ + 1).subs(ren)),
                      S.Eq(S.Symbol("N_" + pa[1], integer=True, nonnegative=True), S.Symbol("R_" + pa[0], integer=True, nonnegative=True)),
                      S.Ge(S.Symbol("C_" + pa[0], integer=True, nonnegative=True), 1)]
            else:
                chk.unknown("D1", f.key, "call-site", f.loc(), "arguments of permuteCopy in solve are not size expressions")
                continue
        seen = set()
        for c, ctext, itext, dimk, verdict, detail, wit in e2.analyse(fb, f, invariants=iv, extra_rels=ex, free_fields=True, public=True):
            total += 1
            construct = "%s(%s):%s" % (ctext, itext, dimk)
            if (construct, verdict) in seen:
                continue
            seen.add((construct, verdict))
            if verdict == "PROVED":
                chk.proved("D1", f.key, construct, f.loc(c), detail)
            elif verdict == "REFUTED":
                chk.refuted("D1", f.key, construct, f.loc(c), "%s: %s index '%s' of %s leaves the %s of the stored factorisation for a square matrix: %s" % (f.name, dimk, itext, ctext, dimk, detail),
                            witness={"shape": wit})
            else:
                chk.unknown("D1", f.key, construct, f.loc(c), detail)
    chk.floor("D1", "element accesses in LUDecomposition members", total, 40)
    chk.assume("D1 is decided for square matrices of order >= 1 (the property's domain); a 0x0 matrix and m != n are outside it")


# ------------------------------------------------------------------------------------------------ D2

def _d2(chk, fb, M):
    f = M["solve"]
    cfg = f.cfg
    throws = [n for n in walk(f.body) if n["k"] == "CXXThrowExpr"]
    retn = {render(kids(r)[0]) for r in walk(f.body) if r["k"] == "ReturnStmt" and kids(r)}
    IND = retn.pop() if len(retn) == 1 else "minD"        # the indicator: what solve returns
    bname = f.params[0]["name"]
    xname = f.params[1]["name"]
    height, sing = None, None
    for t in throws:
        iff = f.enclosing(t, ("IfStmt",))
        if iff is None:
            continue
        cond = strip(f.nodes[iff["cond"]])
        txt = render(cond)
        rtxt = txt
        nn_ = cond
        neg_ = False
        while nn_["k"] == "UnaryOperator" and nn_.get("op") == "!":
            nn_ = strip(kids(nn_)[0])
        if nn_["k"] == "DeclRefExpr":
            for dn in f.all_nodes():
                if dn["k"] == "DeclStmt":
                    for d in dn["decls"]:
                        if d["id"] == nn_["decl"]["id"] and d.get("init") is not None:
                            rtxt = _R(f, d["init"])
        else:
            rtxt = _R(f, cond)
        ty = render(t)
        txt = txt if rtxt == txt else "%s [= %s]" % (txt, rtxt)
        if bname + ".getNumberOfRows()" in rtxt:
            height = (t, cond, txt)
        elif "SMALL" in rtxt or IND in rtxt or "ZeroDivisionException" in ty:
            sing = (t, cond, txt)
    uses = [c for c in f.calls() if c["callee"]["name"] == "permuteCopy"]
    xw = [n for n in _assigns(f, ("=", "-=", "/=", "+=", "*=")) if (_el(f, kids(n)[0]) or ("", []))[0] == xname]
    if not uses or not xw:
        raise AnalysisBroken("anchor vanished: permuted copy / updates of %s in solve" % xname)
    rets = [n for n in walk(f.body) if n["k"] == "ReturnStmt"]
    # what each guard has to precede: the height test every read of B (the permuted copy) and every normal return;
    # the singularity test every normal return (the documented behaviour is the exception, not the absence of side effects)
    must_precede = {"height": uses + rets, "singular": rets}
    named = {d["id"]: d["init"] for dn in f.all_nodes() if dn["k"] == "DeclStmt" for d in dn["decls"] if d.get("init") is not None and d.get("ty") in ("const bool", "bool")}

    def norm(c, neg=False, depth=0):
        """(operator, lhs text, rhs text) of a comparison, through negations, named conditions and numeric locals"""
        c = strip(c)
        if c["k"] == "UnaryOperator" and c.get("op") == "!":
            return norm(kids(c)[0], not neg, depth)
        if c["k"] == "DeclRefExpr" and c["decl"]["id"] in named and depth < 3:
            return norm(named[c["decl"]["id"]], neg, depth + 1)
        if c["k"] == "BinaryOperator" and c["op"] in ("==", "!=", "<", "<=", ">", ">="):
            op = c["op"]
            if neg:
                op = {"==": "!=", "!=": "==", "<": ">=", "<=": ">", ">": "<=", ">=": "<"}[op]
            return (op, _R(f, kids(c)[0]), _R(f, kids(c)[1]))
        return None
    for label, g, wantop, wanttxt in (("height", height, "!=", None), ("singular", sing, "<", None)):
        if g is None:
            chk.refuted("D2", f.key, "guard:" + label, f.loc(),
                        "solve no longer %s before substituting" % ("refuses a right-hand side whose height differs from the order" if label == "height" else "raises on a smallest pivot below the threshold"),
                        witness={"input": "B with one row too many" if label == "height" else "a singular matrix, e.g. [[1,2],[2,4]]"})
            continue
        t, cond, txt = g
        tb = cfg.stmt_block(t)
        iff = f.enclosing(t, ("IfStmt",))
        hb = cfg.stmt_block(f.nodes[iff["cond"]])
        cnode = f.nodes[iff["cond"]]
        bad = [u_ for u_ in must_precede[label] if not (cfg.dominates(hb, cfg.stmt_block(u_)) and (cfg.stmt_block(u_) != hb or e1.earlier_in_block(cfg, cnode, u_)))]
        # the throw must be the only way through the 'then' branch
        thenb = f.nodes[iff["then"]]
        falls = not (cfg.is_throw_block(tb))
        if bad or falls:
            chk.refuted("D2", f.key, "guard:" + label, f.loc(t), "the %s test of solve %s" % (label, "can be bypassed on the way to a normal return%s" % (" or comes after the right-hand side is read" if label == "height" else "") if bad else "does not end in the throw"),
                        witness={"input": "B with fewer rows than A" if label == "height" else "[[1,2],[2,4]]"})
            continue
        ok = True
        why = ""
        nc = norm(cond)
        unknown_form = False
        if label == "height":
            if nc is None:
                unknown_form = True
            elif nc[0] != "!=" or {nc[1], nc[2]} != {bname + ".getNumberOfRows()", "m"}:
                if {nc[1], nc[2]} == {bname + ".getNumberOfRows()", "m"}:
                    ok, why = False, "the height test is '%s' (%s %s %s); it must refuse every B whose row count differs from m" % (txt, nc[1], nc[0], nc[2])
                else:
                    unknown_form = True
        else:
            if nc is None:
                unknown_form = True
            else:
                op, l_, r_ = nc
                if l_ != IND and r_ == IND:
                    op, l_, r_ = {"<": ">", "<=": ">=", ">": "<", ">=": "<=", "==": "==", "!=": "!="}[op], r_, l_
                if l_ == IND and "SMALL" in r_:
                    if op not in ("<", "<="):
                        ok, why = False, "the singularity test is '%s' (%s %s %s); the documented rule is: smallest pivot magnitude below NumConstants::SMALL() raises ZeroDivisionException" % (txt, l_, op, r_)
                else:
                    unknown_form = True
        if unknown_form:
            chk.unknown("D2", f.key, "guard:" + label, f.loc(t), "test '%s' not in a recognised form" % txt)
            continue
            if ok and "ZeroDivisionException" not in render(t) and "ZeroDivisionException" not in str(t.get("thrown", "")):
                ok, why = False, "the singularity branch throws %s, not ZeroDivisionException" % (t.get("thrown") or render(t))[:60]
        if ok:
            chk.proved("D2", f.key, "guard:" + label, f.loc(t), "'%s' -> throw precedes %s" % (txt, "the read of the right-hand side and every normal return" if label == "height" else "every normal return"))
        else:
            chk.refuted("D2", f.key, "guard:" + label, f.loc(t), why, witness={"input": "B with fewer rows than A" if label == "height" else "smallest pivot 1e-7"})


# ------------------------------------------------------------------------------------------------ D3

def _d3(chk, fb, M):
    from . import e2
    f = M["ctor"]
    cfg = f.cfg
    pw = [n for n in _assigns(f) if (_el(f, kids(n)[0]) or ("", []))[0] == "piv"]
    iotas = [c for c in f.calls() if c["callee"]["qname"] == "std::iota" and len(f.args(c)) == 3 and render(f.args(c)[0]) == "piv.begin()" and render(f.args(c)[1]) == "piv.end()"]
    swapcalls = [c for c in f.calls() if c["callee"]["qname"] in ("std::swap", "std::iter_swap") and len(f.args(c)) == 2 and all((_el(f, a) or ("", []))[0] == "piv" for a in f.args(c))]
    for c in iotas:
        start = render(f.args(c)[2]).replace("size_t(0)", "0").replace("(unsigned long)0", "0")
        if start in ("0", "0UL", "0U"):
            chk.proved("D3", f.key, "piv-identity", f.loc(c), "std::iota(piv.begin(), piv.end(), 0)")
        else:
            chk.refuted("D3", f.key, "piv-identity", f.loc(c), "the pivot vector is initialised by std::iota starting at %s, not at 0" % start, witness={"input": "any matrix that needs no exchange"})
    if len(pw) + len(iotas) + len(swapcalls) < 2:
        raise AnalysisBroken("anchor vanished: writes to piv in the constructor (%d)" % len(pw))
    # permutation discipline: piv[x] = x (identity fill) | piv[a] = piv[b] | piv[a] = t with t initialised from piv[..]
    subs = local_inits(f)
    swaps = []
    for w in pw:
        tgt = _el(f, kids(w)[0])
        rhs = strip(kids(w)[1])
        rt = render(rhs)
        if rt == tgt[1][0]:
            lp = f.enclosing(w, ("ForStmt",))
            fun = e2.Fun(fb, f, invariants={"piv": {"N": e2.sp().Symbol("F_m", integer=True, nonnegative=True)}})
            rg = _range(fun, strip(rhs)["decl"]["id"], w) if rhs["k"] == "DeclRefExpr" else None
            if rg is not None and str(rg[0]) == "0" and str(rg[1]) == "F_m":
                chk.proved("D3", f.key, "piv-identity", f.loc(w), "piv[i] = i for i in [0, m)")
            else:
                chk.refuted("D3", f.key, "piv-identity", f.loc(w), "the pivot vector is not initialised to the identity over all m rows (range %s)" % (rg,), witness={"input": "any matrix that needs no exchange"})
            continue
        src = _el(f, rhs)
        if src is None and rhs["k"] == "DeclRefExpr" and rhs["decl"]["id"] in subs:
            src = _el(f, subs[rhs["decl"]["id"]])
        if src is not None and src[0] == "piv":
            swaps.append((w, tgt[1][0], src[1][0]))
        else:
            chk.refuted("D3", f.key, "piv-write:" + render(w), f.loc(w), "piv receives '%s', which is neither its own index nor another entry of piv: it stops being a permutation of the rows" % rt)
    # swap blocks
    blocks = {}
    for w, a, b in swaps:
        iff = f.enclosing(w, ("IfStmt",))
        blocks.setdefault(iff["id"] if iff else None, []).append((w, a, b))
    for c in swapcalls:
        a_, b_ = [(_el(f, x))[1][0] for x in f.args(c)]
        iff = f.enclosing(c, ("IfStmt",))
        blocks.setdefault(iff["id"] if iff else None, []).extend([(c, a_, b_), (c, b_, a_)])
    flips = [n for n in _assigns(f) if render(kids(n)[0]) == "pivsign"]
    chk.floor("D3", "exchange blocks in the constructor", len(blocks), 1)
    for bid, ws in blocks.items():
        iff = f.nodes.get(bid) if bid is not None else None
        if iff is None:
            chk.unknown("D3", f.key, "exchange", f.loc(ws[0][0]), "exchange not under a test")
            continue
        pair = {(a, b) for _, a, b in ws}
        idx = sorted({a for a, _ in pair} | {b for _, b in pair})
        if len(ws) != 2 or len(idx) != 2 or pair != {(idx[0], idx[1]), (idx[1], idx[0])}:
            chk.refuted("D3", f.key, "piv-exchange", f.loc(ws[0][0]), "the pivot vector update %s is not an exchange of two entries" % sorted(pair))
            continue
        p_, k_ = idx
        # condition of the block: the two indices differ
        cond = render(f.nodes[iff["cond"]])
        # sign flip inside the same block, exactly once
        fl = [x for x in flips if f.contains(iff, x)]
        if len(fl) == 1 and render(kids(fl[0])[1]) in ("-pivsign", "(-pivsign)", "(pivsign * -1)", "(-1 * pivsign)"):
            chk.proved("D3", f.key, "sign-flip", f.loc(fl[0]), "pivsign = -pivsign once in the exchange block (%s)" % cond)
        else:
            chk.refuted("D3", f.key, "sign-flip", f.loc(ws[0][0]), "the block that exchanges piv[%s] and piv[%s] flips the permutation sign %d time(s) (%s): det() gets the wrong sign whenever rows are exchanged" % (
                p_, k_, len(fl), [render(x) for x in fl]), witness={"input": "[[0,1],[1,0]] (one exchange, det = -1)"})
        # row exchange over all columns
        rows = [n for n in _assigns(f) if f.contains(iff, n) and (_el(f, kids(n)[0]) or ("", []))[0] == "LU"]
        lps = {(f.enclosing(n, ("ForStmt",)) or {}).get("id") for n in rows}
        okrow = False
        detail = "no exchange of LU rows in the block"
        if rows and len(lps) == 1 and None not in lps:
            lp = f.nodes[list(lps)[0]]
            if f.contains(iff, lp):
                fun = e2.Fun(fb, f)
                tg = [_el(f, kids(n)[0]) for n in rows]
                col = {t[1][1] for t in tg}
                rws = {t[1][0] for t in tg}
                var = None
                for d in walk(lp):
                    if d["k"] == "DeclRefExpr" and d["decl"]["name"] in col:
                        var = d["decl"]
                rg = fun.loop_range(var["id"], rows[0]) if var else None
                if rg is not None and var["id"] in fun.approx_loops:
                    # start depends on an outer loop variable: report it as written
                    ini = f.nodes.get(lp["init"])
                    st = [d_ for d_ in ini["decls"] if d_["id"] == var["id"]] if ini and ini["k"] == "DeclStmt" else []
                    rg = ((render(st[0]["init"]) if st and st[0].get("init") is not None else "?"), rg[1])
                srcs = set()
                for n in rows:
                    r = strip(kids(n)[1])
                    e = _el(f, r)
                    if e is None and r["k"] == "DeclRefExpr":
                        # temporary declared in the loop body
                        for dn in walk(lp):
                            if dn["k"] == "DeclStmt":
                                for d in dn["decls"]:
                                    if d["id"] == r["decl"]["id"] and d.get("init") is not None:
                                        e = _el(f, d["init"])
                    if e:
                        srcs.add((e[0], tuple(e[1])))
                if len(col) == 1 and rws == {p_, k_} and rg is not None:
                    full = str(rg[0]) == "0" and str(rg[1]) == "F_n"
                    c0 = list(col)[0]
                    okswap = srcs == {("LU", (p_, c0)), ("LU", (k_, c0))}
                    if full and okswap:
                        okrow = True
                        detail = "rows %s and %s of LU exchanged over columns [0, n)" % (p_, k_)
                    elif not full:
                        detail = "rows %s and %s of LU are exchanged over columns [%s, %s) only; the multipliers already stored in the other columns stay behind, so P.A = L.U fails after an exchange" % (p_, k_, rg[0], rg[1])
                    else:
                        detail = "the statements in the exchange loop are not an exchange of LU(%s, .) and LU(%s, .): sources %s" % (p_, k_, sorted(srcs))
                else:
                    detail = "row exchange touches rows %s, columns %s" % (sorted(rws), sorted(col))
        if okrow:
            chk.proved("D3", f.key, "row-exchange", f.loc(rows[0]), detail)
        else:
            chk.refuted("D3", f.key, "row-exchange", f.loc(ws[0][0]), detail, witness={"input": "[[1,2,3],[4,5,6],[7,8,10]] (exchanges at k = 0 and k = 1)"})
    # det uses the sign
    d = M["det"]
    acc = [n for n in _assigns(d, ("*=",))]
    rets = [n for n in walk(d.body) if n["k"] == "ReturnStmt" and kids(n)]
    ok = None
    accname = None
    for a in acc:
        e = _el(d, kids(a)[1])
        if e and e[0] == "LU" and len(set(e[1])) == 1:
            accname = render(kids(a)[0])
    if accname is None:
        ok = None
        why = "no 'x *= LU(j, j)' accumulation recognised"
    else:
        defs = []
        for n in walk(d.body):
            if n["k"] == "DeclStmt":
                for dd in n["decls"]:
                    if dd["name"] == accname and dd.get("init") is not None:
                        defs.append(render(dd["init"]))
        defs += [render(kids(a)[1]) for a in _assigns(d) if render(kids(a)[0]) == accname]
        signdefs = [t for t in defs if "pivsign" in t]
        returned = any(render(kids(r)[0]) == accname for r in rets)
        # the definition that feeds the product must carry the sign (a neutral 0 / Real(0) default for the non-square case is fine)
        feeding = [t for t in defs if t.replace("double(", "").replace(")", "").replace(".0", "") not in ("0",)]
        if signdefs and returned and all("pivsign" in t and "-" not in t for t in feeding):
            ok = True
        elif returned and feeding and not signdefs:
            ok = False
            why = "the product of the diagonal starts from %s: the sign of the row permutation is not applied" % feeding
        elif any("-pivsign" in t.replace(" ", "") for t in feeding):
            ok = False
            why = "the product starts from the negated permutation sign (%s)" % feeding
        else:
            ok = None
            why = "definitions of '%s': %s" % (accname, defs)
    if ok:
        chk.proved("D3", d.key, "det-sign", d.loc(), "det() = pivsign x product of LU(j, j)")
    elif ok is False:
        chk.refuted("D3", d.key, "det-sign", d.loc(), "det() is not 'sign of the row permutation times the product of the diagonal': %s" % why, witness={"input": "[[0,1],[1,0]]"})
    else:
        chk.unknown("D3", d.key, "det-sign", d.loc(), why)
    if ok:
        from . import e2 as _e2
        fun = _e2.Fun(fb, d)
        for a in acc:
            e = _el(d, kids(a)[1])
            if e and e[0] == "LU":
                v = [x for x in walk(kids(a)[1]) if x["k"] == "DeclRefExpr" and x["decl"]["kind"] == "local"]
                rg = _range(fun, v[0]["decl"]["id"], a) if v else None
                if rg is not None and str(rg[0]) == "0" and str(rg[1]) in ("F_n", "F_m"):
                    chk.proved("D3", d.key, "det-range", d.loc(a), "all diagonal entries [0, n)")
                elif rg is None:
                    # a loop E2 does not summarise (while with '!=', iterator forms): the range is not read, nothing is claimed
                    chk.unknown("D3", d.key, "det-range", d.loc(a), "the range of the diagonal product is not in a form the bound analysis reads")
                else:
                    chk.refuted("D3", d.key, "det-range", d.loc(a), "det() multiplies the diagonal entries over %s instead of [0, n)" % (rg,), witness={"input": "diag(2, 3): det 6"})


# ------------------------------------------------------------------------------------------------ D4

def _d4(chk, fb, M):
    f = M["permuteCopy"]
    A, piv, j0, j1, X = [p_["name"] for p_ in f.params]
    ws = [n for n in _assigns(f) if (_el(f, kids(n)[0]) or ("", []))[0] == X]
    if len(ws) != 1:
        raise AnalysisBroken("anchor vanished: the copy statement of permuteCopy")
    w = ws[0]
    t = _el(f, kids(w)[0])
    s = _el(f, kids(w)[1])
    if s is None or s[0] != A:
        chk.refuted("D4", f.key, "gather", f.loc(w), "the permuted copy does not read from %s: %s" % (A, render(w)))
        return
    i = t[1][0]
    if s[1][0] == "%s[%s]" % (piv, i) and t[1][1].replace(" ", "") in ("(%s-%s)" % (s[1][1], j0), "%s-%s" % (s[1][1], j0)):
        chk.proved("D4", f.key, "gather", f.loc(w), "X(i, j - j0) = A(piv[i], j)")
    elif t[1][0].startswith(piv + "["):
        chk.refuted("D4", f.key, "gather", f.loc(w), "the permuted copy scatters (X(piv[i], .) = A(i, .)): that applies the inverse permutation, L.U.X = B(piv,:) no longer holds for a 3-cycle",
                    witness={"input": "a 3x3 matrix whose pivoting is a 3-cycle, e.g. [[0,1,0],[0,0,1],[1,0,0]]"})
    elif s[1][0] == i:
        chk.refuted("D4", f.key, "gather", f.loc(w), "the copy '%s' does not apply the row permutation at all" % render(w), witness={"input": "[[0,1],[1,0]] with B = [[1],[2]]"})
    else:
        chk.unknown("D4", f.key, "gather", f.loc(w), "copy statement '%s' not in a recognised form" % render(w))
    # shape of X: as many rows as piv, j1 - j0 + 1 columns
    rs = [c for c in f.calls() if c["callee"]["name"] == "resize" and "obj" in c and render(f.obj(c)) == X]
    if rs:
        a = [render(x, local_inits(f)) for x in f.args(rs[0])]
        shaped = a[0] in (piv + ".size()",) and a[1].replace(" ", "") in ("((%s-%s)+1)" % (j1, j0), "(%s-%s)+1" % (j1, j0), "((%s+1)-%s)" % (j1, j0))
        always, path_ = e1.must_pass(f.cfg, {f.cfg.stmt_block(c) for c in rs})
        if shaped and not always:
            # a resize made only under a test of ONE dimension leaves the other as the caller left it
            chk.refuted("D4", f.key, "gather-shape", f.loc(rs[0]),
                        "X is given its shape only on some paths (the resize is conditional): an output matrix reused from an earlier call keeps a dimension that the guard does not test, and the copy loop writes outside it or leaves stale columns",
                        witness={"history": "solve into X with a 3x3 right-hand side, then into the same X with a 3x1 right-hand side", "blocks": path_})
        elif shaped:
            chk.proved("D4", f.key, "gather-shape", f.loc(rs[0]), "X is piv.size() x (j1 - j0 + 1)")
        else:
            chk.refuted("D4", f.key, "gather-shape", f.loc(rs[0]), "X is resized to (%s): the solution must have piv.size() rows and j1 - j0 + 1 columns" % ", ".join(a))


# ------------------------------------------------------------------------------------------------ D5

def _d5(chk, fb, M):
    from . import e2
    solve = M["solve"]
    rets0 = [n for n in walk(solve.body) if n["k"] == "ReturnStmt" and kids(n)]
    names = {render(kids(r)[0]) for r in rets0}
    if len(names) != 1:
        chk.unknown("D5", solve.key, "returns-indicator", solve.loc(), "solve returns %s" % sorted(names))
        return
    V = names.pop()
    f = solve
    dn = None
    for n in walk(f.body):
        if n["k"] == "DeclStmt":
            for d in n["decls"]:
                if d["name"] == V:
                    dn = d
    if dn is None or dn.get("init") is None:
        chk.unknown("D5", solve.key, "returns-indicator", solve.loc(), "what solve returns ('%s') is not a local with an initialiser" % V)
        return
    # the scan may live in a helper of the class: analyse the helper, with the variable it returns
    i0 = strip(dn["init"])
    if is_call(i0) and i0["callee"].get("inrepo") and i0["callee"].get("cls") == LU and not f.args(i0):
        ts = [t for t in fb.targets(i0) if t.body is not None]
        if ts:
            g = ts[0]
            rn = {render(kids(r)[0]) for r in walk(g.body) if r["k"] == "ReturnStmt" and kids(r)}
            if len(rn) == 1:
                chk.proved("D5", solve.key, "returns-indicator", solve.loc(), "solve returns %s = %s(), analysed in its place" % (V, g.name))
                f, V = g, rn.pop()
                dn = None
                for n in walk(f.body):
                    if n["k"] == "DeclStmt":
                        for d in n["decls"]:
                            if d["name"] == V:
                                dn = d
                if dn is None or dn.get("init") is None:
                    chk.unknown("D5", f.key, "scan-start", f.loc(), "returned variable '%s' has no initialiser" % V)
                    return
    subs = local_inits(f)
    it = render(dn["init"])
    if it.replace("bpp::", "") in ("NumTools::abs<double>(LU(0, 0))", "NumTools::abs(LU(0, 0))", "std::abs(LU(0, 0))", "std::fabs(LU(0, 0))", "fabs(LU(0, 0))"):
        chk.proved("D5", f.key, "scan-start", f.loc(), "minD starts at |LU(0,0)|")
    elif any(x in it for x in ("VERY_BIG", "INF", "infinity", "max()", "DBL_MAX")) and "-" not in it:
        chk.proved("D5", f.key, "scan-start", f.loc(), "minD starts at a value above every magnitude (%s)" % it)
    elif it.replace(".0", "").replace(".", "") in ("0", "1") or it in ("LU(0, 0)",):
        chk.refuted("D5", f.key, "scan-start", f.loc(), "the smallest-pivot scan starts from '%s' instead of |LU(0, 0)|" % it, witness={"input": "[[-3, 0],[0, 2]]"})
    else:
        chk.unknown("D5", f.key, "scan-start", f.loc(), "start value '%s' not recognised" % it)
    ups = [n for n in _assigns(f) if render(kids(n)[0]) == V]
    if len(ups) != 1:
        chk.unknown("D5", f.key, "scan-update", f.loc(), "'%s' is updated %d times: not the recognised single running minimum" % (V, len(ups)))
        return
    u = ups[0]
    lp = f.enclosing(u, ("ForStmt",))
    iff = f.enclosing(u, ("IfStmt",))
    if lp is not None and iff is None:
        r_ = strip(kids(u)[1])
        if is_call(r_) and r_["callee"]["qname"] in ("std::min", "bpp::NumTools::min") and len(f.args(r_)) == 2 and V in [render(a) for a in f.args(r_)]:
            other = [a for a in f.args(r_) if render(a) != V][0]
            o_ = _resolve(f, other)
            e_ = _el(f, f.args(o_)[0]) if is_call(o_) and o_["callee"]["name"] in ("abs", "fabs") and f.args(o_) else None
            if e_ and e_[0] == "LU" and e_[1][0] == e_[1][1]:
                chk.proved("D5", f.key, "scan-candidate", f.loc(u), "%s = min(%s, |LU(%s, %s)|)" % (V, V, e_[1][0], e_[1][0]))
                chk.proved("D5", f.key, "scan-keeps-smaller", f.loc(u), "std::min keeps the smaller magnitude")
                from . import e2 as _e2
                fun_ = _e2.Fun(fb, f)
                v_ = [x for x in walk(lp) if x["k"] == "DeclRefExpr" and x["decl"]["name"] == e_[1][0]]
                rg_ = _range(fun_, v_[0]["decl"]["id"], u) if v_ else None
                if rg_ is not None and str(rg_[0]) in ("0", "1") and str(rg_[1]) in ("F_m", "F_n"):
                    chk.proved("D5", f.key, "scan-range", f.loc(lp), "diagonal entries [%s, %s) after the start value" % rg_)
                elif rg_ is not None:
                    chk.refuted("D5", f.key, "scan-range", f.loc(lp), "the smallest-pivot scan visits i in %s, not every diagonal entry: a zero pivot outside that range is not noticed and solve divides by it" % (rg_,), witness={"input": "diag(1, 1, 0)"})
                else:
                    chk.unknown("D5", f.key, "scan-range", f.loc(lp), "scan loop not a counted loop")
                if f is solve:
                    chk.proved("D5", f.key, "returns-indicator", f.loc(rets0[0]), "solve returns %s" % V)
                return
    if lp is None or iff is None:
        chk.unknown("D5", f.key, "scan-update", f.loc(u), "the update of '%s' is not a conditional inside a counted loop" % V)
        return
    rhs = strip(kids(u)[1])
    cand = render(rhs, subs)
    # candidate value: abs of a diagonal entry LU(i, i)
    inner = None
    src = subs.get(rhs["decl"]["id"]) if rhs["k"] == "DeclRefExpr" else rhs
    # locals declared inside the loop are not in local_inits when re-declared per iteration: look up directly
    if src is None and rhs["k"] == "DeclRefExpr":
        for n in walk(lp):
            if n["k"] == "DeclStmt":
                for d in n["decls"]:
                    if d["id"] == rhs["decl"]["id"]:
                        src = d.get("init")
    okc = False
    ivar = None
    if src is not None:
        s_ = strip(src)
        if is_call(s_) and s_["callee"]["name"] in ("abs", "fabs") and f.args(s_):
            e = _el(f, f.args(s_)[0])
            if e and e[0] == "LU" and e[1][0] == e[1][1]:
                okc = True
                ivar = e[1][0]
    if not okc:
        chk.refuted("D5", f.key, "scan-candidate", f.loc(u), "the scan compares '%s', not the magnitude of a diagonal entry |LU(i, i)|" % (render(src) if src is not None else cand), witness={"input": "diag(1, -1e-9)"})
    else:
        chk.proved("D5", f.key, "scan-candidate", f.loc(u), "candidate is |LU(%s, %s)|" % (ivar, ivar))
    cond = strip(f.nodes[iff["cond"]])
    ct = render(cond)
    cname = render(rhs)
    if cond["k"] == "BinaryOperator" and ((cond["op"] in ("<", "<=") and render(kids(cond)[0]) == cname and render(kids(cond)[1]) == V) or
                                          (cond["op"] in (">", ">=") and render(kids(cond)[1]) == cname and render(kids(cond)[0]) == V)):
        chk.proved("D5", f.key, "scan-keeps-smaller", f.loc(u), ct)
    else:
        chk.refuted("D5", f.key, "scan-keeps-smaller", f.loc(u), "minD is replaced when '%s': the scan no longer keeps the smallest magnitude, so a near-singular matrix passes the threshold" % ct,
                    witness={"input": "diag(1, 1e-9)"})
    if ivar:
        fun = e2.Fun(fb, f)
        v = [x for x in walk(lp) if x["k"] == "DeclRefExpr" and x["decl"]["name"] == ivar]
        rg = _range(fun, v[0]["decl"]["id"], u) if v else None
        if rg is not None and str(rg[0]) in ("0", "1") and str(rg[1]) in ("F_m", "F_n"):
            chk.proved("D5", f.key, "scan-range", f.loc(lp), "diagonal entries [%s, %s) after the start value" % rg)
        else:
            chk.refuted("D5", f.key, "scan-range", f.loc(lp), "the smallest-pivot scan visits i in %s, not every diagonal entry: a zero pivot outside that range is not noticed and solve divides by it" % (rg,),
                        witness={"input": "diag(1, 1, 0)"})
    if f is solve:
        chk.proved("D5", f.key, "returns-indicator", f.loc(rets0[0]), "solve returns %s" % V)


# ------------------------------------------------------------------------------------------------ D6

def _loop_rel(fb, f, site, a, c):
    """relation between loop variable a and c at site: 'gt' (a starts at c+1), 'lt' (a < c), None"""
    from . import e2
    for lp in f.ancestors(site):
        if lp["k"] != "ForStmt" or "init" not in lp or "cond" not in lp:
            continue
        init = f.nodes.get(lp["init"])
        if init is None or init["k"] != "DeclStmt":
            continue
        ds = [d for d in init["decls"] if d["name"] == a]
        if not ds:
            continue
        start = render(ds[0]["init"]) if ds[0].get("init") is not None else ""
        cond = render(f.nodes[lp["cond"]])
        if start.replace(" ", "") in ("(%s+1)" % c, "%s+1" % c, "(1+%s)" % c):
            return "gt"
        if cond.replace(" ", "") in ("(%s<%s)" % (a, c),):
            return "lt"
        if start.replace(" ", "") == c:
            return "ge"
        if cond.replace(" ", "") in ("(%s<=%s)" % (a, c),):
            return "le"
        return "other:%s..%s" % (start, cond)
    return None


def _d6(chk, fb, M):
    n_upd = 0
    for nm in ("ctor", "solve"):
        f = M[nm]
        for u in _assigns(f, ("-=",)):
            t = _el(f, kids(u)[0])
            r = strip(kids(u)[1])
            if t is None or len(t[1]) != 2:
                continue
            n_upd += 1
            construct = "update:" + render(u)
            if r["k"] != "BinaryOperator" or r["op"] != "*":
                chk.unknown("D6", f.key, construct, f.loc(u), "the update subtracts '%s', which is not written as a product of two entries" % render(r))
                continue
            p, q = _el(f, kids(r)[0]), _el(f, kids(r)[1])
            if p is None or q is None or len(p[1]) != 2 or len(q[1]) != 2:
                chk.unknown("D6", f.key, construct, f.loc(u), "a factor of '%s' is not (resolvable to) a matrix entry" % render(r))
                continue
            a, b = t[1]
            ok = None
            for left, right in ((p, q), (q, p)):
                if left[1][0] == a and right[1][1] == b and left[1][1] == right[1][0] and left[1][1] not in (a, b):
                    ok = (left, right, left[1][1])
            if ok is None:
                chk.refuted("D6", f.key, construct, f.loc(u), "index typing: %s(%s,%s) -= %s(%s) * %s(%s) is not of the form M(a,b) -= P(a,c) * Q(c,b): the update is not a matrix product term, the factorisation / substitution is wrong for any matrix with off-diagonal entries" % (
                    t[0], a, b, p[0], ",".join(p[1]), q[0], ",".join(q[1])), witness={"input": "[[2,1],[1,3]]"})
                continue
            left, right, c = ok
            # the multiplier must come from the factor storage
            if left[0] != "LU":
                chk.refuted("D6", f.key, construct, f.loc(u), "the multiplier %s(%s) is not read from the stored factors" % (left[0], ",".join(left[1])))
                continue
            rel = _loop_rel(fb, f, u, a, c)
            chk.proved("D6", f.key, construct, f.loc(u), "product rule holds with contraction index %s; row index relation: %s" % (c, rel))
            if nm == "solve":
                if rel in ("gt", "lt"):
                    chk.proved("D6", f.key, "triangle:" + render(u) + ":" + rel, f.loc(u), "rows strictly %s the pivot row %s" % ("below" if rel == "gt" else "above", c))
                elif rel in ("ge", "le"):
                    chk.refuted("D6", f.key, "triangle:" + render(u) + ":" + rel, f.loc(u), "the substitution update includes the pivot row itself (%s %s %s): X(%s, .) -= X(%s, .) * LU(%s, %s) destroys the row being solved" % (
                        a, ">=" if rel == "ge" else "<=", c, c, c, c, c), witness={"input": "[[2,1],[1,3]] with B = I"})
                else:
                    chk.unknown("D6", f.key, "triangle:" + render(u), f.loc(u), "row range relative to the pivot not recognised: %s" % rel)
            if nm == "ctor":
                # target must be the factor storage, right factor too, rows and columns strictly beyond the pivot
                relb = _loop_rel(fb, f, u, b, c)
                if t[0] == "LU" and right[0] == "LU" and rel == "gt" and relb == "gt":
                    chk.proved("D6", f.key, "schur-range", f.loc(u), "rows and columns beyond the pivot index %s" % c)
                else:
                    chk.refuted("D6", f.key, "schur-range", f.loc(u), "the elimination step must update LU(i, j) for i > %s and j > %s only (found rows: %s, columns: %s)" % (c, c, rel, relb),
                                witness={"input": "[[2,1],[1,3]]"})
        for u in _assigns(f, ("/=",)):
            t = _el(f, kids(u)[0])
            d = _el(f, kids(u)[1])
            if t is None or len(t[1]) != 2:
                continue
            n_upd += 1
            construct = "divide:" + render(u)
            if d is None or d[0] != "LU" or d[1][0] != d[1][1]:
                chk.refuted("D6", f.key, construct, f.loc(u), "division by '%s', not by a diagonal entry of the factors" % render(kids(u)[1]))
                continue
            c = d[1][0]
            if nm == "ctor":
                # multipliers: LU(i,k) /= LU(k,k), i > k, under LU(k,k) != 0
                if t[0] == "LU" and t[1][1] == c and _loop_rel(fb, f, u, t[1][0], c) == "gt":
                    g = None
                    piv_txt = "LU(%s, %s)" % (c, c)

                    def est(facts, piv_txt=piv_txt):
                        for text, truth, node in facts:
                            tt = _R(f, node).replace(" ", "")
                            pt = piv_txt.replace(" ", "")
                            if tt in ("(%s!=0)" % pt, "(%s!=0.0)" % pt, "(0!=%s)" % pt, "(0.0!=%s)" % pt) and truth is True:
                                return True
                            if tt in ("(%s==0)" % pt, "(%s==0.0)" % pt, "(0==%s)" % pt, "(0.0==%s)" % pt) and truth is False:
                                return True
                        return False
                    okg, _p = e1.guarded_by(f.cfg, f.cfg.stmt_block(u), est)
                    if okg:
                        g = "%s != 0" % piv_txt
                    for iff in f.ancestors(u):
                        if g is None and iff["k"] == "IfStmt":
                            ct = _R(f, f.nodes[iff["cond"]])
                            if piv_txt in ct and "!=" in ct:
                                g = ct
                    if g:
                        chk.proved("D6", f.key, construct, f.loc(u), "multipliers below the pivot, computed only when %s" % g)
                    else:
                        chk.refuted("D6", f.key, construct, f.loc(u), "multipliers are computed without testing that the pivot LU(%s, %s) is non-zero: a singular matrix yields NaN/Inf factors instead of reaching the singularity report" % (c, c),
                                    witness={"input": "[[0,0],[0,1]]"})
                else:
                    chk.refuted("D6", f.key, construct, f.loc(u), "the multiplier step must be LU(i, %s) /= LU(%s, %s) for i > %s" % (c, c, c, c))
            else:
                if t[1][0] == c:
                    chk.proved("D6", f.key, construct, f.loc(u), "row %s of the solution divided by the pivot LU(%s, %s)" % (c, c, c))
                else:
                    chk.refuted("D6", f.key, construct, f.loc(u), "row %s of the solution is divided by LU(%s, %s)" % (t[1][0], c, c), witness={"input": "diag(2, 4) with B = I"})
    chk.floor("D6", "elimination / substitution updates", n_upd, 5)
    # phases of solve: forward (i > k, no division) then backward (division, then i < k)
    f = M["solve"]
    cfg = f.cfg
    ups = [(u, _el(f, kids(u)[0]), ) for u in _assigns(f, ("-=",)) if _el(f, kids(u)[0]) and len(_el(f, kids(u)[0])[1]) == 2]
    rels = []
    for u, t in ups:
        r = strip(kids(u)[1])
        p, q = _el(f, kids(r)[0]), _el(f, kids(r)[1])
        lu = p if p and p[0] == "LU" else q
        if lu is None:
            continue
        rels.append((u, _loop_rel(fb, f, u, lu[1][0], lu[1][1])))
    fw = [u for u, r in rels if r == "gt"]
    bw = [u for u, r in rels if r == "lt"]
    divs = [u for u in _assigns(f, ("/=",))]
    if len(fw) == 1 and len(bw) == 1 and len(divs) == 1:
        ok = e1.before_in_function(cfg, fw[0], bw[0]) and e1.before_in_function(cfg, fw[0], divs[0])
        same = f.enclosing(divs[0], ("DoStmt", "ForStmt", "WhileStmt"))
        # the division belongs to the backward phase and precedes its eliminations in the loop body
        outer_b = None
        for a in f.ancestors(bw[0]):
            if a["k"] in ("DoStmt", "WhileStmt", "ForStmt") and f.contains(a, divs[0]):
                outer_b = a
                break
        if ok and outer_b is not None and not f.contains(outer_b, fw[0]) and e1.before_in_function(cfg, divs[0], bw[0]):
            chk.proved("D6", f.key, "phases", f.loc(fw[0]), "forward substitution with the unit lower factor (i > k, no division), then backward substitution: divide by LU(k,k), then eliminate rows i < k")
        else:
            chk.refuted("D6", f.key, "phases", f.loc(divs[0]), "order of the substitution phases is wrong: the lower-triangular solve must come first and the division by the pivot must precede the elimination of the rows above it",
                        witness={"input": "[[2,1],[1,3]] with B = I"})
    else:
        chk.unknown("D6", f.key, "phases", f.loc(), "substitution not in the recognised two-phase form: %d forward / %d backward updates, %d divisions (row relations: %s)" % (len(fw), len(bw), len(divs), [r for _, r in rels]))


# ------------------------------------------------------------------------------------------------ D7

def _d7(chk, fb, M):
    ctor = M["ctor"]
    try:
        _pivot_search(chk, fb, ctor)
    except AnalysisBroken:
        # the search may live in a helper of the class (size_t p = findPivotRow_(k))
        helpers = []
        for c in ctor.calls():
            if c["callee"].get("inrepo") and c["callee"].get("cls") == LU and (c["callee"].get("ret") or "").startswith("unsigned"):
                helpers += [t for t in fb.targets(c) if t.body is not None and t.cfg is not None]
        done = False
        for h in helpers:
            try:
                _pivot_search(chk, fb, h)
                done = True
                break
            except AnalysisBroken:
                continue
        if not done:
            raise


def _pivot_search(chk, fb, f):
    pws = [n for n in _assigns(f) if render(kids(n)[0]) == "p"]
    cands = []
    for n in walk(f.body):
        if n["k"] == "DeclStmt":
            for d in n["decls"]:
                if d["ty"] in ("unsigned long", "const unsigned long") and d.get("init") is not None:
                    ws = [w for w in _assigns(f) if strip(kids(w)[0])["k"] == "DeclRefExpr" and strip(kids(w)[0])["decl"]["id"] == d["id"]]
                    if ws and all(f.enclosing(w, ("IfStmt",)) is not None for w in ws):
                        cands.append((d, ws))
    piv = None
    for d, ws in cands:
        for w in ws:
            iff = f.enclosing(w, ("IfStmt",))
            ct = strip(f.nodes[iff["cond"]])
            if ct["k"] == "BinaryOperator" and ct["op"] in (">", "<", ">=", "<=") and "LU(" in _R(f, ct):
                piv = (d, w, iff, ct)
    if piv is None:
        raise AnalysisBroken("anchor vanished: pivot search in the constructor")
    d, w, iff, ct = piv
    pname = d["name"]
    k = render(d["init"])
    lhs, rhs = strip(kids(ct)[0]), strip(kids(ct)[1])

    def mag(x):
        if is_call(x) and x["callee"]["name"] in ("abs", "fabs") and f.args(x):
            return _el(f, f.args(x)[0])
        return None
    ml, mr = mag(lhs), mag(rhs)
    new = render(kids(w)[1])

    def status(x, depth=0):
        """'mag' (a magnitude), 'signed' (a raw entry of the factor storage), None (not recognised)"""
        x = strip(x)
        if mag(x) is not None:
            return "mag"
        e = _el(f, x)
        if e is not None and e[0] == "LU":
            return "signed"
        if x["k"] == "DeclRefExpr" and x["decl"]["kind"] == "local" and depth < 2:
            defs = []
            for nn in f.all_nodes():
                if nn["k"] == "DeclStmt":
                    for dd in nn["decls"]:
                        if dd["id"] == x["decl"]["id"] and dd.get("init") is not None:
                            defs.append(dd["init"])
            for a_ in _assigns(f):
                t_ = strip(kids(a_)[0])
                if t_["k"] == "DeclRefExpr" and t_["decl"]["id"] == x["decl"]["id"]:
                    defs.append(kids(a_)[1])
            st = [status(d_, depth + 1) for d_ in defs]
            if st and "signed" in st:
                return "signed"
            if st and all(s_ == "mag" for s_ in st):
                return "mag"
        return None
    sl, sr = status(lhs), status(rhs)
    if "signed" in (sl, sr):
        chk.refuted("D7", f.key, "pivot-magnitude", f.loc(w), "the pivot search compares '%s' with a signed entry of the factor storage on one side (not a magnitude): a zero or tiny pivot is kept although a large negative entry is available below it" % render(ct),
                    witness={"input": "[[0,2,1],[-3,1,4],[-1,5,2]] (det -10)"})
        return
    if (ml is None or mr is None) and sl == "mag" and sr == "mag":
        chk.proved("D7", f.key, "pivot-magnitude", f.loc(w), "both sides of '%s' are magnitudes (running maximum cached in a local)" % render(ct))
        ml = mr = None
    elif (ml is None or mr is None) and not (_el(f, lhs) and _el(f, rhs)):
        chk.unknown("D7", f.key, "pivot-magnitude", f.loc(w), "comparison '%s' not in a recognised form" % render(ct))
        return
    if ml is None and mr is None and sl == "mag":
        pass
    elif ml is None or mr is None:
        chk.refuted("D7", f.key, "pivot-magnitude", f.loc(w), "the pivot search compares '%s': signed values instead of magnitudes, so a zero or tiny pivot is kept although a large negative entry is available below it" % render(ct),
                    witness={"input": "[[0,1],[-1,0]] or [[1e-20,1],[-1,1]]"})
        return
    want_new, want_cur = (ml, mr) if ct["op"] in (">", ">=") else (mr, ml)
    if ml is None and mr is None:
        pass
    elif want_new[0] == "LU" and want_cur[0] == "LU" and want_new[1] == [new, k] and want_cur[1] == [pname, k]:
        chk.proved("D7", f.key, "pivot-magnitude", f.loc(w), "p = %s when |LU(%s, %s)| > |LU(%s, %s)|" % (new, new, k, pname, k))
    else:
        chk.refuted("D7", f.key, "pivot-magnitude", f.loc(w), "the pivot search takes row %s when '%s': it must compare |LU(i, %s)| with the best |LU(%s, %s)| so far and keep the larger" % (new, render(ct), k, pname, k),
                    witness={"input": "[[1,2],[3,4]]"})
    rel = _loop_rel(fb, f, w, new, k)
    from . import e2
    fun = e2.Fun(fb, f)
    v = [x for x in walk(iff) if x["k"] == "DeclRefExpr" and x["decl"]["name"] == new]
    rg = fun.loop_range(v[0]["decl"]["id"], w) if v else None
    if rel == "gt" and rg is not None and str(rg[1]) == "F_m":
        chk.proved("D7", f.key, "pivot-range", f.loc(w), "candidates are the rows below the diagonal, up to m")
    else:
        chk.refuted("D7", f.key, "pivot-range", f.loc(w), "pivot candidates run over %s (relation to the column index: %s) instead of the rows k+1 .. m-1" % (rg, rel), witness={"input": "[[0,0,1],[0,1,0],[1,0,0]]"})


# ------------------------------------------------------------------------------------------------ D8

def _d8(chk, fb, M):
    for nm in ("getL", "getU"):
        f = M[nm]
        tgtname = "L_" if nm == "getL" else "U_"

        def cond_val(c, env):
            """truth of a comparison of the two loop indices under env; None when not such a comparison"""
            c = strip(c)
            if c["k"] == "UnaryOperator" and c.get("op") == "!":
                v = cond_val(kids(c)[0], env)
                return None if v is None else (not v)
            if c["k"] == "BinaryOperator" and c["op"] in ("&&", "||"):
                a_, b_ = cond_val(kids(c)[0], env), cond_val(kids(c)[1], env)
                if a_ is None or b_ is None:
                    return None
                return (a_ and b_) if c["op"] == "&&" else (a_ or b_)
            if c["k"] == "BinaryOperator" and c["op"] in ("<", "<=", ">", ">=", "==", "!="):
                l, r = render(kids(c)[0]), render(kids(c)[1])
                if l in env and r in env:
                    x, y = env[l], env[r]
                    return {"<": x < y, "<=": x <= y, ">": x > y, ">=": x >= y, "==": x == y, "!=": x != y}[c["op"]]
            return None

        def expr_val(e, env):
            e = strip(e)
            if e["k"] == "ConditionalOperator":
                c = cond_val(kids(e)[0], env)
                if c is None:
                    return "?"
                return expr_val(kids(e)[1] if c else kids(e)[2], env)
            if e["k"] in ("CXXFunctionalCastExpr", "CXXStaticCastExpr", "CStyleCastExpr") and kids(e):
                return expr_val(kids(e)[0], env)
            t = render(e)
            return t[:-2] if t.endswith(".0") else t

        def stored(env):
            """what the element (i, j) of the target receives under env: walk the assignments whose enclosing tests all hold"""
            out = []
            for a_ in _assigns(f):
                t = _el(f, kids(a_)[0])
                if t is None or t[0] != tgtname:
                    continue
                if t[1] != ["i", "j"]:
                    return "?idx"
                ok = True
                for an in f.ancestors(a_):
                    if an["k"] == "IfStmt":
                        cv = cond_val(f.nodes[an["cond"]], env)
                        if cv is None:
                            return "?"
                        inthen = f.contains(f.nodes[an["then"]], a_)
                        if cv != inthen:
                            ok = False
                if ok:
                    out.append(expr_val(kids(a_)[1], env))
            return out[-1] if out else None
        # loop variable names: the two counted loops around the assignments
        names = []
        for a_ in _assigns(f):
            t = _el(f, kids(a_)[0])
            if t and t[0] == tgtname:
                names = t[1]
                break
        if len(names) != 2:
            chk.unknown("D8", f.key, "triangle", f.loc(), "no element assignment of %s recognised" % tgtname)
            continue
        ri, ci = names
        envs = {"lt": {ri: 0, ci: 1}, "eq": {ri: 1, ci: 1}, "gt": {ri: 1, ci: 0}}

        def stored2(env):
            # same as stored() but with the actual index names
            out = []
            for a_ in _assigns(f):
                t = _el(f, kids(a_)[0])
                if t is None or t[0] != tgtname:
                    continue
                if t[1] != [ri, ci]:
                    return "?idx"
                ok = True
                for an in f.ancestors(a_):
                    if an["k"] == "IfStmt":
                        cv = cond_val(f.nodes[an["cond"]], env)
                        if cv is None:
                            return "?"
                        if cv != f.contains(f.nodes[an["then"]], a_):
                            ok = False
                if ok:
                    out.append(expr_val(kids(a_)[1], env))
            return out[-1] if out else None
        norm = {o: stored2(envs[o]) for o in ("lt", "eq", "gt")}
        src = "LU(%s, %s)" % (ri, ci)
        exp = {"lt": "0", "eq": "1", "gt": src} if nm == "getL" else {"lt": src, "eq": src, "gt": "0"}
        if norm == exp:
            chk.proved("D8", f.key, "triangle", f.loc(), "%s: %s" % (nm, norm))
        elif any(v in ("?", "?idx", None) for v in norm.values()):
            chk.unknown("D8", f.key, "triangle", f.loc(), "selection not readable: %s" % norm)
        else:
            chk.refuted("D8", f.key, "triangle", f.loc(), "%s returns %s for (i<j, i==j, i>j); the %s factor is %s" % (nm, [norm[o] for o in ("lt", "eq", "gt")], "unit lower triangular" if nm == "getL" else "upper triangular", [exp[o] for o in ("lt", "eq", "gt")]),
                        witness={"input": "[[2,1],[1,3]]"})
    # wrappers
    inv = _one(fb, MT + "::inv", lambda f: f.rec.get("inst"), "MatrixTools::inv<double>")
    det = _one(fb, MT + "::det", lambda f: f.rec.get("inst"), "MatrixTools::det<double>")
    for f in (inv, det):
        cfg = f.cfg
        A = f.params[0]["name"]
        thr = [n for n in walk(f.body) if n["k"] == "CXXThrowExpr"]
        ctor = [n for n in f.all_nodes() if n["k"] in ("CXXConstructExpr", "CXXTemporaryObjectExpr", "CXXFunctionalCastExpr") and n.get("callee", {}).get("cls") == LU]
        if not ctor:
            raise AnalysisBroken("anchor vanished: LUDecomposition built in %s" % f.name)
        okg = False
        for t in thr:
            iff = f.enclosing(t, ("IfStmt",))
            if iff is None:
                continue
            ct = _R(f, f.nodes[iff["cond"]])
            if ("isSquare(%s)" % A in ct and (ct.startswith("!") or ct.startswith("(!"))) or ("getNumberOfRows" in ct and "getNumberOfColumns" in ct and "!=" in ct):
                if all(cfg.dominates(cfg.stmt_block(f.nodes[iff["cond"]]), cfg.stmt_block(c)) for c in ctor) and "DimensionException" in (str(t.get("thrown")) + render(t)):
                    okg = True
        if okg:
            chk.proved("D8", f.key, "square-guard", f.loc(), "non-square input raises DimensionException before factorising")
        elif thr and any("Dimension" in (str(t.get("thrown")) + render(t)) for t in thr):
            chk.unknown("D8", f.key, "square-guard", f.loc(), "a DimensionException is thrown, but its test is not in a recognised form")
        else:
            chk.refuted("D8", f.key, "square-guard", f.loc(), "MatrixTools::%s factorises without first refusing a non-square matrix with DimensionException" % f.name, witness={"input": "a 2x3 matrix"})
        if any(render(f.args(c)[0]) != A for c in ctor if f.args(c)):
            chk.refuted("D8", f.key, "factorises-input", f.loc(ctor[0]), "the factorisation is built from '%s', not from %s" % (render(f.args(ctor[0])[0]), A))
    # inv: solve(identity(order), O) returned
    f = inv
    O = f.params[1]["name"]
    sv = [c for c in f.calls() if c["callee"]["name"] == "solve"]
    ids = [c for c in f.calls() if c["callee"]["name"] == "getId"]
    rets = [n for n in walk(f.body) if n["k"] == "ReturnStmt" and kids(n)]
    if len(sv) == 1 and len(ids) == 1 and len(f.args(ids[0])) == 2 and len(f.args(sv[0])) == 2:
        order = render(f.args(ids[0])[0], local_inits(f))
        idm = render(f.args(ids[0])[1])
        a0, a1 = render(f.args(sv[0])[0]), render(f.args(sv[0])[1])
        A = f.params[0]["name"]
        ok = order in (A + ".getNumberOfRows()", A + ".getNumberOfColumns()") and a0 == idm and a1 == O and e1.before_in_function(f.cfg, ids[0], sv[0])
        ret_ok = any(f.contains(kids(r)[0], sv[0]) or strip(kids(r)[0]) is sv[0] for r in rets) or any(render(kids(r)[0], local_inits(f)) == render(sv[0], local_inits(f)) for r in rets)
        if ok and ret_ok:
            chk.proved("D8", f.key, "inverse-plumbing", f.loc(sv[0]), "inv = solve(identity(order of A), O), indicator returned")
        elif a0 == idm and a1 == O and order in (A + ".getNumberOfRows()", A + ".getNumberOfColumns()") and not ret_ok:
            chk.refuted("D8", f.key, "inverse-plumbing", f.loc(sv[0]), "inv solves A.X = I but does not return solve's indicator (the smallest pivot magnitude)", witness={"input": "[[2,0],[0,4]]"})
        elif a0 == idm and a1 != O and a1 in [p_["name"] for p_ in f.params]:
            chk.refuted("D8", f.key, "inverse-plumbing", f.loc(sv[0]), "inv writes the solution into '%s' instead of its output '%s'" % (a1, O), witness={"input": "[[2,0],[0,4]]"})
        else:
            chk.unknown("D8", f.key, "inverse-plumbing", f.loc(sv[0]), "identity order '%s', solve(%s, %s), returned: %s: not in the recognised form" % (order, a0, a1, ret_ok))
    else:
        chk.unknown("D8", f.key, "inverse-plumbing", f.loc(), "inv is not written as one getId and one solve (%d solve, %d getId calls)" % (len(sv), len(ids)))
    f = det
    dc = [c for c in f.calls() if c["callee"]["name"] == "det" and c["callee"].get("cls") == LU]
    rets = [n for n in walk(f.body) if n["k"] == "ReturnStmt" and kids(n)]
    direct = [r for r in rets if strip(kids(r)[0]) is dc[0] or (is_call(strip(kids(r)[0])) and strip(kids(r)[0])["callee"]["name"] == "det" and strip(kids(r)[0])["callee"].get("cls") == LU)] if dc else []
    if len(dc) == 1 and len(direct) == len(rets) and rets:
        chk.proved("D8", f.key, "det-plumbing", f.loc(dc[0]), "det(A) = LUDecomposition(A).det()")
    elif len(dc) == 1 and any(f.contains(kids(r)[0], dc[0]) and strip(kids(r)[0]) is not dc[0] and strip(kids(r)[0])["k"] in ("BinaryOperator", "UnaryOperator") for r in rets):
        chk.refuted("D8", f.key, "det-plumbing", f.loc(), "MatrixTools::det does not return the factorisation's determinant unchanged: %s" % [render(kids(r)[0]) for r in rets], witness={"input": "[[2,0],[0,4]]"})
    else:
        chk.unknown("D8", f.key, "det-plumbing", f.loc(), "returned expression(s) %s not in the recognised form" % [render(kids(r)[0]) for r in rets])
    # LU::det for a non-square factorisation returns 0 (documented)
    d = M["det"]
    g = False
    for r in [n for n in walk(d.body) if n["k"] == "ReturnStmt" and kids(n)]:
        iff = d.enclosing(r, ("IfStmt",))
        if iff is not None and render(d.nodes[iff["cond"]]).replace(" ", "") in ("(m!=n)", "(n!=m)") and render(kids(r)[0]).replace("double(0)", "0").replace("0.0", "0") in ("0",):
            g = True
    if g:
        chk.proved("D8", d.key, "det-nonsquare", d.loc(), "det() returns 0 when m != n (documented)")
    else:
        chk.unknown("D8", d.key, "det-nonsquare", d.loc(), "the documented 'm != n -> 0' branch was not recognised")


def run(chk, fb, tier):
    chk.rule("D0", "class invariant: constructor initialisers give LU (m x n), L_ (m x n), U_ (n x n), piv (m), pivsign = 1; no other member reshapes them")
    chk.rule("D1", "E2 symbolic index bounds of every member under the invariant, square order >= 1")
    chk.rule("D2", "solve: height test (!= m) ends in a throw before the right-hand side is read and before every normal return; singularity test (minD < SMALL -> ZeroDivisionException) precedes every normal return")
    chk.rule("D3", "exchange block: piv entries swapped, LU rows swapped over columns [0, n), pivsign flipped once; piv only holds its own indices; det = pivsign x diagonal over [0, n)")
    chk.rule("D4", "permuted copy is a gather X(i, j - j0) = A(piv[i], j) into a piv.size() x (j1 - j0 + 1) matrix")
    chk.rule("D5", "smallest-pivot scan: starts at |LU(0,0)|, candidates |LU(i,i)|, keeps the smaller, covers the whole diagonal, is returned")
    chk.rule("D6", "product-rule index typing of every '-=' update, divisions by the pivot of the eliminated index, multipliers only under a non-zero pivot, forward (i > k) before backward (divide, then i < k)")
    chk.rule("D7", "pivot search compares magnitudes of LU(i, k) against the best so far over rows k+1 .. m-1")
    chk.rule("D8", "getL / getU select the right triangle (finite case analysis over i<j, i==j, i>j); inv / det wrappers: square test first, solve against identity of the right order, values returned unchanged")
    M = _members(fb)
    _d0(chk, fb, M)
    _d1(chk, fb, M)
    _d2(chk, fb, M)
    _d3(chk, fb, M)
    _d4(chk, fb, M)
    _d5(chk, fb, M)
    _d6(chk, fb, M)
    _d7(chk, fb, M)
    _d8(chk, fb, M)
    chk.note("members that do not compile and were not instantiated: %s" % SKIPPED)
    chk.assume("the std::vector overloads of solve / permuteCopy call members that std::vector does not have (dim1, clean): they cannot be instantiated by any caller and are outside the analysis")
