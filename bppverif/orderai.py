"""E3 OrderAI: abstract interpretation of comparison-only functions over the finite domain of
order types.

Numeric values are elements of a totally ordered carrier; the interpreter walks the syntax tree
(as exported by bppx) and only ever compares and copies carrier elements. Any other use of a
carrier value (arithmetic other than the declared infinitesimal shift, a call outside the
subset) raises NotComparisonOnly, which the caller turns into exit 2 - never a silent pass.
Because behaviour of such a function depends only on the weak order of its inputs, evaluating one
representative per weak order is a complete case analysis (a truth table), not a sample.
"""
from fractions import Fraction
from .facts import kids, strip, is_call, AnalysisBroken, render

NEG_INF = (Fraction(-10**9), 0)
POS_INF = (Fraction(10**9), 0)


class NotComparisonOnly(AnalysisBroken):
    pass


class Obj:
    def __init__(self, cls, fields):
        self.cls = cls
        self.fields = dict(fields)

    def copy(self):
        return Obj(self.cls, self.fields)

    def __repr__(self):
        return "Obj(%s,%r)" % (self.cls, self.fields)


class Undef:
    def __repr__(self):
        return "undef"


UNDEF = Undef()


class Eps:
    """marks a carrier value that may only be added to / subtracted from another (infinitesimal)"""
    def __init__(self, n=1):
        self.n = n


def car(x, e=0):
    return (Fraction(x), e)


def is_car(v):
    return isinstance(v, tuple) and len(v) == 2


class Return(Exception):
    def __init__(self, v):
        self.v = v


class Interp:
    def __init__(self, fb, consts=None, eps_fields=(), max_steps=20000):
        self.fb = fb
        self.consts = consts or {}          # callee qname -> value
        self.eps_fields = set(eps_fields)   # field names holding the infinitesimal
        self.steps = 0
        self.max_steps = max_steps
        self.literal_hook = None            # maps numeric literal -> carrier (or raises)

    # ---- entry
    def call(self, fn, this, args):
        env = {}
        for p, a in zip(fn.params, args):
            env[p["id"]] = a
        frame = dict(env=env, this=this, fn=fn)
        if fn.rec.get("ctor"):
            for i in fn.rec.get("inits", []):
                if i.get("field") and i.get("expr"):
                    this.fields[i["fname"]] = self.ev(i["expr"], frame)
        try:
            self.exec(fn.body, frame)
        except Return as r:
            return r.v
        return None

    def bad(self, n, fn, why):
        raise NotComparisonOnly("%s: %s at %s (%s)" % (fn.key, why, fn.loc(n), n["k"]))

    # ---- statements
    def exec(self, n, fr):
        self.steps += 1
        if self.steps > self.max_steps:
            raise NotComparisonOnly("step budget exceeded in %s" % fr["fn"].key)
        if n is None:
            return
        k = n["k"]
        if k == "CompoundStmt":
            for c in kids(n):
                self.exec(c, fr)
        elif k == "DeclStmt":
            for d in n["decls"]:
                fr["env"][d["id"]] = self.ev(d["init"], fr) if d.get("init") else UNDEF
        elif k == "IfStmt":
            fn = fr["fn"]
            c = self.ev(fn.nodes[n["cond"]], fr)
            c = self.truth(c, n, fn)
            if c:
                self.exec(fn.nodes[n["then"]], fr)
            elif "else" in n:
                self.exec(fn.nodes[n["else"]], fr)
        elif k == "ReturnStmt":
            ks = kids(n)
            raise Return(self.ev(ks[0], fr) if ks else None)
        elif k == "CXXTryStmt":
            # handlers are for std::bad_cast of a dynamic_cast assumed to succeed
            self.exec(kids(n)[0], fr)
        elif k == "NullStmt":
            pass
        elif k in ("WhileStmt", "ForStmt", "DoStmt", "CXXForRangeStmt", "SwitchStmt"):
            self.bad(n, fr["fn"], "loop/switch in a comparison-only function")
        else:
            self.ev(n, fr)

    def truth(self, v, n, fn):
        if isinstance(v, bool):
            return v
        if v is None:
            return False
        if isinstance(v, Obj):
            return True
        self.bad(n, fn, "condition is not boolean: %r" % (v,))

    # ---- lvalues
    def lv(self, n, fr):
        n = strip(n)
        k = n["k"]
        if k == "DeclRefExpr":
            return (fr["env"], n["decl"]["id"])
        if k == "MemberExpr":
            m = n["member"]
            base = self.ev(kids(n)[0], fr)
            if not isinstance(base, Obj):
                self.bad(n, fr["fn"], "member of non-object")
            return (base.fields, m["name"])
        if k == "UnaryOperator" and n["op"] == "*":
            v = self.ev(kids(n)[0], fr)
            return ({"_": v}, "_")
        self.bad(n, fr["fn"], "unsupported lvalue")

    # ---- expressions
    def ev(self, n, fr):
        self.steps += 1
        if self.steps > self.max_steps:
            raise NotComparisonOnly("step budget exceeded in %s" % fr["fn"].key)
        fn = fr["fn"]
        k = n["k"]
        ks = kids(n)
        if k in ("ImplicitCastExpr", "ParenExpr", "MaterializeTemporaryExpr", "CXXBindTemporaryExpr", "ExprWithCleanups",
                 "ConstantExpr", "CXXStaticCastExpr", "CXXFunctionalCastExpr", "CStyleCastExpr", "CXXDynamicCastExpr", "CXXConstCastExpr"):
            v = self.ev(ks[0], fr)
            if n.get("cast") in ("IntegralToFloating", "IntegralCast", "FloatingCast", "FloatingToIntegral") and is_car(v):
                return v
            if n.get("cast") in ("IntegralToBoolean", "FloatingToBoolean"):
                self.bad(n, fn, "numeric value used as boolean")
            if n.get("cast") == "PointerToBoolean":
                return v is not None
            return v
        if k == "CXXDefaultArgExpr":
            self.bad(n, fn, "default argument")
        if k == "CXXThisExpr":
            return fr["this"]
        if k == "CXXBoolLiteralExpr":
            return bool(n["val"])
        if k in ("IntegerLiteral", "FloatingLiteral"):
            if self.literal_hook:
                return self.literal_hook(n["val"])
            self.bad(n, fn, "numeric literal %r" % n["val"])
        if k in ("CXXNullPtrLiteralExpr", "GNUNullExpr"):
            return None
        if k == "DeclRefExpr":
            d = n["decl"]
            if d["id"] in fr["env"]:
                v = fr["env"][d["id"]]
                if v is UNDEF:
                    self.bad(n, fn, "read of uninitialised local %s" % d["name"])
                return v
            self.bad(n, fn, "unknown variable %s" % d["name"])
        if k == "MemberExpr":
            m = n["member"]
            if m["kind"] != "field":
                self.bad(n, fn, "member function reference")
            base = self.ev(ks[0], fr)
            if not isinstance(base, Obj):
                self.bad(n, fn, "member of non-object %r" % (base,))
            if m["name"] not in base.fields:
                self.bad(n, fn, "field %s not modelled" % m["name"])
            return base.fields[m["name"]]
        if k == "UnaryOperator":
            op = n["op"]
            if op == "!":
                return not self.truth(self.ev(ks[0], fr), n, fn)
            if op in ("&", "*"):
                return self.ev(ks[0], fr)
            self.bad(n, fn, "unary %s" % op)
        if k == "BinaryOperator":
            op = n["op"]
            if op == "&&":
                return self.truth(self.ev(ks[0], fr), n, fn) and self.truth(self.ev(ks[1], fr), n, fn)
            if op == "||":
                return self.truth(self.ev(ks[0], fr), n, fn) or self.truth(self.ev(ks[1], fr), n, fn)
            if op == "=":
                v = self.ev(ks[1], fr)
                c, key = self.lv(ks[0], fr)
                c[key] = v.copy() if isinstance(v, Obj) and False else v
                return v
            if op == ",":
                self.ev(ks[0], fr)
                return self.ev(ks[1], fr)
            a = self.ev(ks[0], fr)
            b = self.ev(ks[1], fr)
            if op in ("<", ">", "<=", ">=", "==", "!="):
                return self.compare(op, a, b, n, fn)
            if op in ("+", "-"):
                return self.shift(op, a, b, n, fn)
            self.bad(n, fn, "arithmetic %s on carrier values" % op)
        if k == "ConditionalOperator":
            c = self.truth(self.ev(ks[0], fr), n, fn)
            return self.ev(ks[1] if c else ks[2], fr)
        if k == "CXXNewExpr":
            for c in ks:
                if c["k"] == "CXXConstructExpr":
                    return self.construct(c, fr)
            self.bad(n, fn, "new without constructor")
        if k in ("CXXConstructExpr", "CXXTemporaryObjectExpr"):
            return self.construct(n, fr)
        if is_call(n):
            return self.do_call(n, fr)
        self.bad(n, fn, "unsupported expression")

    def compare(self, op, a, b, n, fn):
        if isinstance(a, bool) and isinstance(b, bool):
            if op == "==":
                return a == b
            if op == "!=":
                return a != b
            self.bad(n, fn, "ordering of booleans")
        if (a is None or isinstance(a, Obj)) and (b is None or isinstance(b, Obj)):
            if op == "==":
                return a is b
            if op == "!=":
                return a is not b
        if not (is_car(a) and is_car(b)):
            self.bad(n, fn, "comparison of %r and %r" % (a, b))
        return {"<": a < b, ">": a > b, "<=": a <= b, ">=": a >= b, "==": a == b, "!=": a != b}[op]

    def shift(self, op, a, b, n, fn):
        # only  carrier (+|-) infinitesimal  is allowed
        if is_car(a) and isinstance(b, Eps):
            if a in (NEG_INF, POS_INF):
                return a
            return (a[0], a[1] + (b.n if op == "+" else -b.n))
        self.bad(n, fn, "arithmetic %s on carrier values" % op)

    def construct(self, c, fr):
        fn = fr["fn"]
        key = c["callee"]["key"]
        target = self.fb.fns.get(key)
        args = [self.ev(fn.nodes[i], fr) for i in c.get("args", [])]
        if target is None:
            # implicit copy constructor of a modelled class
            if len(args) == 1 and isinstance(args[0], Obj):
                return args[0].copy()
            self.bad(c, fn, "constructor %s has no body" % key)
        o = Obj(c["callee"]["cls"], {})
        self.call(target, o, args)
        return o

    def do_call(self, n, fr):
        fn = fr["fn"]
        c = n["callee"]
        if c["qname"] in self.consts:
            return self.consts[c["qname"]]
        target = self.fb.fns.get(c["key"])
        obj = None
        if "obj" in n:
            obj = self.ev(fn.nodes[n["obj"]], fr)
        args = [self.ev(fn.nodes[i], fr) for i in n.get("args", [])]
        if target is None and c["qname"] in ("std::max", "std::min") and len(args) == 2 and all(isinstance(a, Eps) for a in args):
            # two infinitesimals (precisions): the larger / smaller one
            return Eps(max(a.n for a in args) if c["qname"] == "std::max" else min(a.n for a in args))
        if target is None and c["qname"] in ("std::max", "std::min") and len(args) == 2 and not all(is_car(a) for a in args):
            self.bad(n, fn, "std::%s of non-carrier values %r" % (c["qname"][5:], args))
        if target is None and c["qname"] in ("std::max", "std::min") and len(args) == 2:
            # std::max(a, b) returns a unless a < b; std::min(a, b) returns a unless b < a  (comparison and copy only)
            a_, b_ = args
            if c["qname"] == "std::max":
                return b_ if a_ < b_ else a_
            return b_ if b_ < a_ else a_
        if target is None:
            self.bad(n, fn, "call outside the comparison-only subset: %s" % c["key"])
        if c.get("virtual") and isinstance(obj, Obj):
            # dispatch on the modelled dynamic class
            for ok in [c["key"]] + list(self.fb.overriders(c["key"])):
                t = self.fb.fns.get(ok)
                if t is not None and t.cls == obj.cls:
                    target = t
        if obj is not None and not isinstance(obj, Obj):
            self.bad(n, fn, "method call on non-object")
        return self.call(target, obj, args)


def weak_orders(symbols, extremes=True):
    """all assignments symbol -> carrier, one per weak order of the symbols among themselves and
    relative to the two extreme elements -inf / +inf (a symbol may coincide with an extreme)"""
    n = len(symbols)
    out = []

    def rec(i, cur, nfin):
        if i == n:
            used = sorted({v for v in cur if isinstance(v, int)})
            if used != list(range(len(used))):
                return
            out.append(tuple(cur))
            return
        choices = list(range(n))
        if extremes:
            choices = ["-inf"] + choices + ["+inf"]
        for v in choices:
            rec(i + 1, cur + [v], nfin)
    rec(0, [], 0)
    res = []
    for t in out:
        d = {}
        for s, v in zip(symbols, t):
            d[s] = NEG_INF if v == "-inf" else POS_INF if v == "+inf" else car(2 * v)
        res.append(d)
    return res


def probes(values):
    """a probe at every position of the order on the finite carrier elements used: below all, equal to
    each, strictly between adjacent ones, above all. With infinitesimal shifts allowed in the
    code, positions v-eps/2.. are not needed: code only produces v +/- k*eps, and probes also
    include v +/- eps."""
    fin = sorted({v[0] for v in values if v not in (NEG_INF, POS_INF)})
    if not fin:
        return [car(0)]
    ps = [car(fin[0] - 1)]
    for i, f in enumerate(fin):
        ps.append((f, -1))
        ps.append((f, 0))
        ps.append((f, 1))
        if i + 1 < len(fin):
            ps.append(car((f + fin[i + 1]) / 2))
    ps.append(car(fin[-1] + 1))
    return ps


def show(v):
    if v == NEG_INF:
        return "-inf"
    if v == POS_INF:
        return "+inf"
    if is_car(v):
        s = str(float(v[0]) if v[0].denominator != 1 else int(v[0]))
        if v[1]:
            s += ("+" if v[1] > 0 else "-") + ("%d" % abs(v[1]) if abs(v[1]) != 1 else "") + "eps"
        return s
    return repr(v)
