"""C09 A discretised distribution is always a valid partition of its continuous parent.

 D1 re-discretise on every change: fireParameterChanged of every parameterised family, setNumberOfCategories, setMedian,
    restrictToConstraint reach a rebuild after their last state write; compounds forward the update to every component first
 D2 cached parameters and everything the constructor derives from them are refreshed by fireParameterChanged
 D3 a rebuild clears distribution_ and re-sizes bounds_ before filling them
 D4 no element access whose index equals the size just established by resize
 D5 only library exceptions are thrown
 D6 strict/inclusive polarity of the boolean handed to setLowerBound/setUpperBound; a class value used as a bound is included
 D7 value->class lookups scan every interior bound
 D8 user-provided copy constructor and operator= copy the same members
"""
import re
from .facts import kids, strip, walk, is_call, render, local_inits, AnalysisBroken
from . import e1

EXPLANATION = ("Static analysis of structural clauses of C09 over every concrete class below AbstractDiscreteDistribution: D1 each notification / class-count / median / restriction "
               "entry point reaches a rebuild (discretize(), updateDistribution() or clear+fill) after its last state write, compounds forwarding to their components first; "
               "D2 every member the constructor initialises from a parameter's initial value, and every member it derives from such a cache, is re-assigned by fireParameterChanged "
               "before the rebuild; D3 rebuilds clear before filling; D4 an index equal to the size passed to the dominating resize is out of range by construction; D5 throw operands "
               "derive from bpp::Exception; D6 a 'strict' parameter receives a strict-polarity boolean ('!' flips, literals give no verdict) and a bound equal to a stored class value is "
               "inclusive; D7 lookup loops over bounds_ start at the first bound; D8 copy constructor and operator= agree. NOT decided: probabilities summing to one, values inside their "
               "interval, means, quantile/cumulative consistency (numerical), the stick-breaking weight formulas.")

ADD = "bpp::AbstractDiscreteDistribution"
REBUILD = ("discretize", "updateDistribution", "discretizeEqualProportions", "discretizeEqualIntervals")


def _rname(n):
    r = e1._root_decl(n)
    return r[2] if r and len(r) > 2 else ""


def _families(fb):
    out = []
    for cls in sorted(fb.subclasses(ADD)):
        c = fb.classes[cls]
        if c.get("abstract") or "/Prob/" not in c["file"]:
            continue
        out.append(cls)
    return out


def _ctors(fb, cls):
    return [f for f in fb.q(cls + "::" + cls.split("::")[-1]) if not f.rec.get("copyctor")]


def _registers_parameters(fb, cls):
    for c in _ctors(fb, cls):
        for n in c.calls():
            if n["callee"]["name"] in ("addParameter_", "addParameters_"):
                return True
    return False


def _param_caches(fb, cls):
    """members initialised in a constructor from a constructor argument that also gives a Parameter its initial value:
    member -> (parameter short name, ctor)"""
    caches = {}
    for c in _ctors(fb, cls):
        pnames = {p["name"] for p in c.params}
        registered = {}
        for n in c.calls():
            if n["callee"]["name"] == "addParameter_":
                news = [x for x in walk(n) if x["k"] == "CXXNewExpr"]
                for nw in news:
                    ce = [x for x in kids(nw) if x["k"] == "CXXConstructExpr"]
                    if not ce:
                        continue
                    a = c.args(ce[0])
                    if len(a) >= 2:
                        nm = strip(a[0])
                        lits = [x["val"] for x in walk(a[0]) if x["k"] == "StringLiteral"]
                        v = render(a[1])
                        if lits and v in pnames:
                            registered[v] = lits[0].split(".")[-1]
        for i in c.rec.get("inits", []):
            if i.get("fname") and i.get("written"):
                v = render(i["expr"])
                if v in registered:
                    caches[i["fname"]] = (registered[v], c)
    return caches


def _assigned_fields(f):
    out = {}
    for n in f.all_nodes():
        if n["k"] in ("BinaryOperator", "CompoundAssignOperator") and n.get("op") in ("=",):
            l = strip(kids(n)[0])
            if l["k"] == "MemberExpr" and l["member"]["this"] and l["member"]["kind"] == "field":
                out.setdefault(l["member"]["name"], []).append(n)
        if is_call(n) and n["callee"]["name"] == "operator=" and "obj" in n:
            l = strip(f.obj(n))
            if l["k"] == "MemberExpr" and l["member"]["this"] and l["member"]["kind"] == "field":
                out.setdefault(l["member"]["name"], []).append(n)
    return out


def _rebuild_calls(f):
    out = [n for n in f.calls() if n["callee"]["name"] in REBUILD and ("obj" not in n or strip(f.obj(n))["k"] == "CXXThisExpr")]
    # clear + fill of distribution_ counts as an inline rebuild
    clears = [n for n in f.calls() if n["callee"]["name"] == "clear" and "obj" in n and render(f.obj(n)) == "distribution_"]
    fills = [n for n in f.all_nodes() if n["k"] == "BinaryOperator" and n["op"] == "=" and render(kids(n)[0]).startswith("distribution_[")]
    fills += [n for n in f.calls() if n["callee"]["name"] in ("emplace", "insert", "insert_or_assign", "try_emplace") and "obj" in n and render(f.obj(n)) == "distribution_"]
    if clears and fills:
        out.append(fills[-1])
    return out


def _d1_d2(chk, fb):
    fams = _families(fb)
    chk.floor("D1", "concrete distribution families", len(fams), 10)
    n_param = 0
    for cls in fams:
        if cls.endswith("DirichletDiscreteDistribution"):
            continue    # multivariate, not in the property's family list
        fs = fb.q(cls + "::fireParameterChanged")
        if not _registers_parameters(fb, cls):
            chk.proved("D1", cls, "no-parameters", "", "constructors register no parameter: nothing to re-discretise on notification")
            continue
        n_param += 1
        if len(fs) != 1:
            chk.refuted("D1", cls, "has-notification", "", "family registers parameters but does not override fireParameterChanged: the classes never follow a parameter change")
            continue
        f = fs[0]
        cfg = f.cfg
        rb = _rebuild_calls(f)
        if not rb:
            chk.refuted("D1", f.key, "rebuild-on-change", f.loc(), "fireParameterChanged never rebuilds the classes (no discretize()/updateDistribution()/clear+fill)")
            continue
        rbb = {cfg.stmt_block(r) for r in rb}
        # paths guarded by 'no parameters' are exempt
        drop = set()
        for b in cfg.blocks:
            for s_ in cfg.succ[b]:
                for t, tr, nd in e1.edge_facts(cfg, b, s_):
                    if "getNumberOfParameters() != 0" in t and tr is False or "getNumberOfParameters() == 0" in t and tr is True:
                        drop.add((b, s_))
        from .c12 import _without_edges
        ok, path = e1.must_pass(_without_edges(cfg, drop), rbb)
        if ok:
            chk.proved("D1", f.key, "rebuild-on-change", f.loc(rb[0]), "every path reaches %s" % render(rb[0])[:40])
        else:
            chk.refuted("D1", f.key, "rebuild-on-change", f.loc(), "a path through fireParameterChanged returns without rebuilding the classes", witness={"blocks": path})
        # no cache written after the last rebuild
        assigned = _assigned_fields(f)
        caches = _param_caches(fb, cls)
        late = []
        for fld, nodes in assigned.items():
            if fld in ("distribution_", "bounds_", "numberOfCategories_"):
                continue
            for a in nodes:
                if all(e1.before_in_function(cfg, r, a) and not e1.before_in_function(cfg, a, r) for r in rb):
                    late.append((fld, a))
        if late:
            chk.refuted("D1", f.key, "rebuild-after-caches", f.loc(late[0][1]), "'%s' is refreshed after the classes were rebuilt: the rebuild used the old value" % late[0][0])
        else:
            chk.proved("D1", f.key, "rebuild-after-caches", f.loc(rb[0]), "all member refreshes precede the rebuild")
        # no cache is read before it has been reloaded (a derived member computed from the previous parameter value)
        stale = []
        for fld, nodes in assigned.items():
            refresh = [a for a in nodes if any(is_call(x) and x["callee"]["name"] in ("getParameterValue", "getParameter_", "getParameter") for x in _xwalk(f, a))]
            if not refresh:
                continue
            for r in f.all_nodes():
                if r["k"] == "MemberExpr" and r["member"]["kind"] == "field" and r["member"].get("this") and r["member"]["name"] == fld:
                    par = f.parent.get(r["id"])
                    if par is not None and par["k"] == "BinaryOperator" and par["op"] == "=" and strip(kids(par)[0]) is r:
                        continue
                    for a in refresh:
                        if e1.before_in_function(cfg, r, a) and not e1.before_in_function(cfg, a, r) and not f.contains(a, r):
                            stale.append((fld, r, a))
        if stale:
            fld, r, a = stale[0]
            chk.refuted("D2", f.key, "read-before-reload:" + fld, f.loc(r), "'%s' is read at line %s before it is reloaded from its parameter at line %s: whatever is computed there uses the previous parameter value" % (fld, r.get("l"), a.get("l")),
                        witness={"history": "construct; change the parameter behind '%s'; query the classes" % fld})
        elif any(any(is_call(x) and x["callee"]["name"] == "getParameterValue" for x in _xwalk(f, a)) for nodes in assigned.values() for a in nodes):
            chk.proved("D2", f.key, "reload-before-use", f.loc(), "no parameter cache is read before its reload")
        # ---- D2 caches
        for fld, (pname, ctor) in sorted(caches.items()):
            hits = [a for a in assigned.get(fld, []) if any(is_call(x) and x["callee"]["name"] == "getParameterValue" and any(s["k"] == "StringLiteral" and s["val"] == pname for s in walk(x)) for x in _xwalk(f, a))]
            if hits:
                chk.proved("D2", f.key, "cache-refreshed:" + fld, f.loc(hits[0]), "%s = getParameterValue(\"%s\")" % (fld, pname))
            else:
                chk.refuted("D2", f.key, "cache-refreshed:" + fld, f.loc(),
                            "member '%s' caches the value of parameter '%s' (constructor) and is read by the distribution functions, but fireParameterChanged does not reload it" % (fld, pname),
                            witness={"history": "construct; setParameterValue(\"%s\", x); query classes" % pname})
        # ---- D2b ctor-derived state: statements of the ctor body that read a cache and write another member
        for ctor in _ctors(fb, cls):
            for n in walk(ctor.body):
                tgt = None
                expr = None
                if n["k"] == "BinaryOperator" and n["op"] == "=":
                    l = strip(kids(n)[0])
                    if l["k"] == "MemberExpr" and l["member"]["this"]:
                        tgt, expr = l["member"]["name"], kids(n)[1]
                elif is_call(n) and "obj" in n and not n["callee"].get("const") and n["callee"]["name"].startswith("set"):
                    r_ = e1._root_decl(ctor.obj(n))
                    if r_ is not None and r_[0] == "f":
                        tgt, expr = r_[2] + "." + n["callee"]["name"], n
                if tgt is None:
                    continue
                reads = {r[2] for r in e1.reads_in(expr) if r[0] == "f"}
                used = sorted(reads & set(caches))
                if not used:
                    continue
                # the same derivation must appear in fireParameterChanged
                found = False
                redo = []
                for m in walk(f.body):
                    if n["k"] == "BinaryOperator" and m["k"] == "BinaryOperator" and m["op"] == "=" and render(kids(m)[0]) == tgt:
                        found = True
                        redo.append(m)
                    if is_call(n) and is_call(m) and "obj" in m and _rname(f.obj(m)) + "." + m["callee"]["name"] == tgt and ({r[2] for r in e1.reads_in(m) if r[0] == "f"} & set(used)):
                        found = True
                        redo.append(m)
                # ... and whenever the cache it is derived from has been reloaded: every path from the reload to the rebuild passes
                # a re-derivation (a guard shared by reload and re-derivation is fine, a guard on the re-derivation alone is not)
                skipped = None
                if found:
                    rblocks = {cfg.stmt_block(m) for m in redo if cfg.stmt_block(m) is not None}
                    for u in used:
                        for a in assigned.get(u, []):
                            if not any(is_call(x) and x["callee"]["name"] == "getParameterValue" for x in _xwalk(f, a)):
                                continue
                            ab = cfg.stmt_block(a)
                            if ab is None or ab in rblocks:
                                continue
                            okp, pth = e1.must_pass(cfg, rblocks | {b_ for b_ in cfg.blocks if cfg.is_throw_block(b_)}, start=ab)
                            if not okp:
                                skipped = (u, a, pth)
                if found and skipped:
                    chk.refuted("D2", f.key, "derived-refreshed:" + tgt, f.loc(redo[0]),
                                "'%s' is derived from the cached parameter '%s', which fireParameterChanged reloads at line %s, but the re-derivation at line %s sits under a condition of its own: on the path %s the cache is new and '%s' is still the old one" % (
                                    tgt, skipped[0], skipped[1].get("l"), redo[0].get("l"), skipped[2], tgt),
                                witness={"history": "change the parameter behind '%s' on an object for which that condition is false (another namespace, another parameter in the notification)" % skipped[0], "blocks": skipped[2]})
                elif found:
                    chk.proved("D2", f.key, "derived-refreshed:" + tgt, f.loc(), "'%s' (derived from %s in the constructor) is re-derived on notification" % (tgt, used))
                else:
                    chk.refuted("D2", f.key, "derived-refreshed:" + tgt, f.loc(),
                                "the constructor derives '%s' from the cached parameter %s (%s) but fireParameterChanged reloads the cache without re-deriving it" % (tgt, used, ctor.loc(n)),
                                witness={"history": "construct with parameter value a; setParameterValue to b; the derived state still corresponds to a"})
        # compounds forward to components before the rebuild
        comp_fields = [fl for fl in fb.classes[cls]["fields"] if "DiscreteDistributionInterface" in fl["ty"]]
        for fl in comp_fields:
            rfv = e1.rangefor_vars(f)

            def root_of(o):
                r = e1._root_decl(o)
                if r and r[0] == "v":
                    # the element variable of a range-for over the member
                    for x in walk(o):
                        if x["k"] == "DeclRefExpr" and x["decl"]["id"] in rfv:
                            return e1._root_decl(rfv[x["decl"]["id"]])
                return r
            fw = [n for n in f.calls() if n["callee"]["name"] in ("matchParametersValues", "setParametersValues") and "obj" in n and root_of(f.obj(n)) == ("f", fl["qname"], fl["name"])]
            if fw and all(e1.before_in_function(cfg, w, r) for w in fw for r in rb if r["k"] != "BinaryOperator"):
                # a vector of components must be covered by a loop over its whole size
                if "vector" in fl["ty"]:
                    lp = f.enclosing(fw[0], ("ForStmt", "CXXForRangeStmt"))
                    whole = lp is not None and (lp["k"] == "CXXForRangeStmt" or ("cond" in lp and ("size" in render(f.nodes[lp["cond"]], local_inits(f)))))
                    (chk.proved if whole else chk.refuted)("D1", f.key, "components-updated:" + fl["name"], f.loc(fw[0]),
                                                           "every component receives the update before the rebuild" if whole else "not every component of '%s' receives the parameter update" % fl["name"])
                else:
                    chk.proved("D1", f.key, "components-updated:" + fl["name"], f.loc(fw[0]), "component updated before the rebuild")
            else:
                chk.refuted("D1", f.key, "components-updated:" + fl["name"], f.loc(), "the nested distribution(s) '%s' do not receive the parameter update before the classes are rebuilt" % fl["name"])
    chk.floor("D1", "parameterised families", n_param, 8)
    # other state changes
    for q, state in ((ADD + "::setNumberOfCategories", "numberOfCategories_"), (ADD + "::setMedian", "median_"), (ADD + "::restrictToConstraint", "intMinMax_"),
                     ("bpp::MixtureOfDiscreteDistributions::setNumberOfCategories", None), ("bpp::MixtureOfDiscreteDistributions::setMedian", "median_"),
                     ("bpp::InvariantMixedDiscreteDistribution::setMedian", "median_"), ("bpp::InvariantMixedDiscreteDistribution::restrictToConstraint", None)):
        f = fb.q1(q)
        cfg = f.cfg
        rb = _rebuild_calls(f)
        writes = []
        for n in f.all_nodes():
            if state and n["k"] == "BinaryOperator" and n["op"] == "=" and render(kids(n)[0]) == state:
                writes.append(n)
            if state and is_call(n) and n["callee"]["name"] in ("operator&=",) and "obj" in n and state in render(f.obj(n)):
                writes.append(n)
            if state is None and is_call(n) and "obj" in n and n["callee"]["name"] in ("setNumberOfCategories", "restrictToConstraint", "setMedian") and strip(f.obj(n))["k"] != "CXXThisExpr":
                writes.append(n)
        if not writes:
            chk.refuted("D1", f.key, "state-change", f.loc(), "entry point no longer changes the state it is named after")
            continue
        rbb = {cfg.stmt_block(r) for r in rb}
        bad = [w for w in writes if not rb or not e1.must_pass(cfg, rbb, start=cfg.stmt_block(w))[0] or any(e1.before_in_function(cfg, r, w) and cfg.stmt_block(r) == cfg.stmt_block(w) and not e1.before_in_function(cfg, w, r) for r in rb)]
        if bad:
            chk.refuted("D1", f.key, "rebuild-after-state-change", f.loc(bad[0]), "'%s' is followed by a normal return without rebuilding the classes" % render(bad[0])[:60])
        else:
            chk.proved("D1", f.key, "rebuild-after-state-change", f.loc(writes[0]), "state change is followed by a rebuild on every path")


def _d3(chk, fb):
    targets = [ADD + "::discretizeEqualProportions", ADD + "::discretizeEqualIntervals", "bpp::InvariantMixedDiscreteDistribution::updateDistribution",
               "bpp::MixtureOfDiscreteDistributions::updateDistribution", "bpp::ConstantDistribution::fireParameterChanged"]
    for q in targets:
        f = fb.q1(q)
        cfg = f.cfg
        fills = [n for n in f.all_nodes() if n["k"] in ("BinaryOperator", "CompoundAssignOperator") and n.get("op") in ("=", "+=") and render(kids(n)[0]).startswith("distribution_[")]
        fills += [n for n in f.calls() if n["callee"]["name"] in ("emplace", "insert", "insert_or_assign", "try_emplace") and "obj" in n and render(f.obj(n)) == "distribution_"]
        clears = [n for n in f.calls() if n["callee"]["name"] == "clear" and "obj" in n and render(f.obj(n)) == "distribution_"]
        handed = [n for n in f.calls() if any(render(a).replace("this.", "") == "distribution_" for a in f.args(n) if a is not None)]
        if not fills and handed:
            # the class table is handed to a helper by reference: the stores are made there
            fills = handed
        if not fills:
            chk.refuted("D3", f.key, "fills-classes", f.loc(), "rebuild no longer stores any class")
            continue
        if clears and all(any(cfg.dominates(cfg.stmt_block(c), cfg.stmt_block(x)) and e1.before_in_function(cfg, c, x) for c in clears) for x in fills):
            chk.proved("D3", f.key, "clear-before-fill", f.loc(clears[0]), "distribution_.clear() dominates %d insertions" % len(fills))
        else:
            chk.refuted("D3", f.key, "clear-before-fill", f.loc(fills[0]), "classes are inserted without clearing distribution_ first: classes of the previous discretisation survive and the class count grows")
        bw = [n for n in f.all_nodes() if n["k"] == "BinaryOperator" and n["op"] == "=" and render(kids(n)[0]).startswith("bounds_[")] + \
             [n for n in f.calls() if n["callee"]["name"] == "push_back" and "obj" in n and render(f.obj(n)) == "bounds_"]
        bs = [n for n in f.calls() if n["callee"]["name"] in ("resize", "clear") and "obj" in n and render(f.obj(n)) == "bounds_"]
        if bw:
            if bs and all(any(cfg.dominates(cfg.stmt_block(c), cfg.stmt_block(x)) for c in bs) for x in bw):
                chk.proved("D3", f.key, "bounds-sized-before-fill", f.loc(bs[0]), "%s dominates %d bound writes" % (render(bs[0])[:40], len(bw)))
            else:
                chk.refuted("D3", f.key, "bounds-sized-before-fill", f.loc(bw[0]), "interior bounds are written without re-sizing/clearing bounds_ first")


def _d4(chk, fb, files):
    n = 0
    for f in fb.concrete_fns():
        if not any(f.file.endswith(x) for x in files) or f.body is None or f.cfg is None:
            continue
        cfg = f.cfg
        resizes = [c for c in f.calls() if c["callee"]["name"] == "resize" and "obj" in c and not c["callee"].get("inrepo") and len(f.args(c)) >= 1]
        for r in resizes:
            v = render(f.obj(r))
            size = render(f.args(r)[0])
            for a in f.calls():
                if a["callee"]["name"] in ("operator[]", "at") and "obj" in a and render(f.obj(a)) == v and f.args(a):
                    n += 1
                    idx = render(f.args(a)[0])
                    if idx == size and cfg.dominates(cfg.stmt_block(r), cfg.stmt_block(a)):
                        # no later resize in between
                        others = [o for o in resizes if o is not r and render(f.obj(o)) == v and e1.before_in_function(cfg, r, o) and e1.before_in_function(cfg, o, a)]
                        if not others:
                            chk.refuted("D4", f.key, "index-equals-size:%s[%s]" % (v, idx), f.loc(a),
                                        "%s[%s] is accessed after %s.resize(%s): the index equals the size, one past the last element" % (v, idx, v, size),
                                        witness={"input": "the branch containing the access (e.g. a domain on which the cumulative function is constant)"})
    chk.floor("D4", "indexed accesses to resized vectors", n, 5)


def _d5(chk, fb, files):
    n = 0
    for f in fb.concrete_fns():
        if not any(f.file.endswith(x) for x in files) or f.body is None:
            continue
        for t in f.all_nodes():
            if t["k"] == "CXXThrowExpr" and not t.get("rethrow"):
                n += 1
                ty = (t.get("thrown") or "").replace("const ", "")
                ok = ty.startswith("bpp::") and (ty in fb.classes and (fb.derives_from(ty, "bpp::Exception"))) or ty.startswith("std::") and "exception" in ty.lower()
                if ty in fb.classes and fb.derives_from(ty, "bpp::Exception"):
                    ok = True
                if ok:
                    chk.proved("D5", f.key, "throw-type", f.loc(t), ty)
                else:
                    chk.refuted("D5", f.key, "throw-type:" + ty, f.loc(t), "throws a '%s' (%s), not a library exception: callers catching bpp::Exception miss it" % (ty, render(t)[:50]))
    chk.floor("D5", "throw sites", n, 20)


def _polarity(f, node, sub):
    """'strict' / 'incl' / None for a boolean expression"""
    n = strip(node)
    if n is None:
        return None
    if n["k"] == "UnaryOperator" and n["op"] == "!":
        p = _polarity(f, kids(n)[0], sub)
        return {"strict": "incl", "incl": "strict"}.get(p)
    if is_call(n):
        nm = n["callee"]["name"]
        if nm in ("strictLowerBound", "strictUpperBound"):
            return "strict"
        return None
    if n["k"] == "MemberExpr" and n["member"]["name"].startswith("incl"):
        return "incl"
    if n["k"] == "DeclRefExpr":
        if n["decl"]["id"] in sub:
            return _polarity(f, sub[n["decl"]["id"]], sub)
        # local assigned from accessors of one polarity only
        pols = set()
        for a in f.all_nodes():
            if a["k"] == "BinaryOperator" and a["op"] == "=" and strip(kids(a)[0])["k"] == "DeclRefExpr" and strip(kids(a)[0])["decl"]["id"] == n["decl"]["id"]:
                pols.add(_polarity(f, kids(a)[1], sub))
        pols.discard(None)
        if len(pols) == 1:
            return pols.pop()
    return None


def _d6(chk, fb, files):
    n = 0
    for f in fb.concrete_fns():
        if not any(f.file.endswith(x) for x in files) or f.body is None:
            continue
        sub = local_inits(f)
        keys = {render(kids(x)[0])[len("distribution_["):-1] for x in f.all_nodes() if x["k"] in ("BinaryOperator", "CompoundAssignOperator") and render(kids(x)[0]).startswith("distribution_[")}
        for c in f.calls():
            if c["callee"]["name"] in ("setLowerBound", "setUpperBound") and c["callee"].get("cls") == "bpp::IntervalConstraint" and len(f.args(c)) == 2:
                n += 1
                pol = _polarity(f, f.args(c)[1], sub)
                b = render(f.args(c)[1])
                v = render(f.args(c)[0])
                if pol == "incl":
                    chk.refuted("D6", f.key, "polarity:%s(%s)" % (c["callee"]["name"], b), f.loc(c),
                                "%s(value, strict) receives '%s', which is TRUE when the bound is INCLUDED: an included bound of the source becomes excluded and vice versa" % (c["callee"]["name"], b),
                                witness={"input": "a nested distribution whose bound is included: the bound value is then rejected by the compound's domain"})
                elif pol == "strict":
                    chk.proved("D6", f.key, "polarity:%s(%s)" % (c["callee"]["name"], b), f.loc(c), "strict-polarity argument")
                elif b == "true" and v in keys:
                    chk.refuted("D6", f.key, "class-value-excluded:%s(%s)" % (c["callee"]["name"], v), f.loc(c),
                                "'%s' is stored as a class value (distribution_[%s]) and installed as a STRICT bound: the class value lies outside the distribution's own domain" % (v, v),
                                witness={"input": "an invariant value at or beyond the nested distribution's bound"})
                else:
                    chk.proved("D6", f.key, "polarity:%s(%s)" % (c["callee"]["name"], b), f.loc(c), "no polarity information (literal or plain flag): no verdict needed")
    chk.floor("D6", "bound installations", n, 10)


def _d7(chk, fb):
    """the value -> class lookup compares the value with every interior bound, starting with the first one. Recognised scans:
    an index loop over bounds_ (start 0 reading bounds_[i], or start 1 reading bounds_[i-1]), an iterator walk that starts
    at bounds_.begin(), or std::find_if / lower_bound / upper_bound over bounds_.begin() .. bounds_.end()"""
    n = 0
    for q in (ADD + "::getValueCategory", ADD + "::getCategoryIndex"):
        f = fb.q1(q)
        sub = local_inits(f)
        found = False
        # (a) index loops
        for lp in [x for x in walk(f.body) if x["k"] == "ForStmt" and "cond" in x and "bounds_" in render(f.nodes[x["cond"]], sub)]:
            init = f.nodes.get(lp.get("init"))
            if init is None or init["k"] != "DeclStmt" or not init["decls"] or init["decls"][0].get("init") is None:
                continue
            start = render(init["decls"][0]["init"])
            var = init["decls"][0]["name"]
            reads = [x for x in walk(f.nodes[lp["body"]]) if is_call(x) and x["callee"]["name"] == "operator[]" and "obj" in x and render(f.obj(x)) == "bounds_"]
            idx = [render(f.args(x)[0]) for x in reads]
            if not idx or start not in ("0", "1", "0U", "0UL", "1U", "1UL"):
                continue
            found = True
            n += 1
            st = start[0]
            if (st == "0" and all(i == var for i in idx)) or (st == "1" and all(i == "(%s - 1)" % var for i in idx)):
                chk.proved("D7", f.key, "scan-from-first-bound", f.loc(lp), "loop starts at %s and reads bounds_[%s]" % (start, idx[0]))
            elif st == "1" and all(i == var for i in idx):
                chk.refuted("D7", f.key, "scan-from-first-bound", f.loc(lp),
                            "the lookup loop starts at index %s and reads bounds_[%s]: the first interior bound bounds_[0] is never compared, so a value in the second class is attributed to the first" % (start, idx[0]),
                            witness={"input": "any value between the first and the second interior bound"})
            else:
                chk.unknown("D7", f.key, "scan-from-first-bound", f.loc(lp), "index loop reading bounds_[%s] from %s: not a recognised arrangement" % (idx[0], start))
        # (b) std algorithms over the whole of bounds_
        for c in f.calls():
            if c["callee"]["qname"] in ("std::find_if", "std::lower_bound", "std::upper_bound", "std::find_if_not", "std::partition_point") and len(f.args(c)) >= 2:
                a0, a1 = render(f.args(c)[0], sub).replace("this.", ""), render(f.args(c)[1], sub).replace("this.", "")
                if a1 == "bounds_.end()":
                    found = True
                    n += 1
                    if a0 == "bounds_.begin()":
                        chk.proved("D7", f.key, "scan-from-first-bound", f.loc(c), "%s over bounds_.begin() .. bounds_.end()" % c["callee"]["name"])
                    elif "bounds_.begin()" in a0:
                        chk.refuted("D7", f.key, "scan-from-first-bound", f.loc(c), "the search starts at '%s', past the first interior bound: a value in the second class is attributed to the first" % a0,
                                    witness={"input": "any value between the first and the second interior bound"})
                    else:
                        chk.unknown("D7", f.key, "scan-from-first-bound", f.loc(c), "search range starts at '%s'" % a0)
        # (c) iterator walk: an iterator initialised from bounds_.begin() and advanced in a loop that compares through it
        for dn in f.all_nodes():
            if dn["k"] == "DeclStmt":
                for d in dn["decls"]:
                    if d.get("init") is not None and "bounds_.begin()" in render(d["init"]).replace("this.", "") and "iterator" in d["ty"]:
                        it0 = render(d["init"]).replace("this.", "")
                        uses = [x for x in f.all_nodes() if x["k"] == "UnaryOperator" and x.get("op") == "*" and render(kids(x)[0]) == d["name"]] + \
                               [x for x in f.calls() if x["callee"]["name"] == "operator*" and "obj" in x and render(f.obj(x)) == d["name"]]
                        if not uses:
                            continue
                        found = True
                        n += 1
                        if it0 == "bounds_.begin()":
                            chk.proved("D7", f.key, "scan-from-first-bound", f.loc(dn), "iterator walk starting at bounds_.begin()")
                        else:
                            chk.refuted("D7", f.key, "scan-from-first-bound", f.loc(dn), "the bound iterator starts at '%s', past the first interior bound" % it0, witness={"input": "any value between the first and the second interior bound"})
        if not found:
            chk.unknown("D7", f.key, "scan-from-first-bound", f.loc(), "no scan of bounds_ recognised")
    chk.floor("D7", "scans of bounds_ in the value -> class lookups", n, 1)


def _d8(chk, fb, files):
    from .c13 import _assign_nodes
    n = 0
    for cls in sorted(fb.classes):
        c = fb.classes[cls]
        if not any(c["file"].endswith(x) for x in files) or c.get("dependent"):
            continue
        cc = [f for f in fb.q(cls + "::" + cls.split("::")[-1]) if f.rec.get("copyctor")]
        ca = fb.q(cls + "::operator=")
        if not cc or not ca:
            continue
        n += 1
        own = {fl["name"] for fl in c["fields"]}
        in_ctor = {i["fname"] for i in cc[0].rec.get("inits", []) if i.get("fname") and i.get("written") and cc[0].params[0]["name"] in render(i["expr"])}
        for fl in own:
            if _assign_nodes(cc[0], fl) or any(x["callee"]["name"] in ("push_back", "reset", "assign", "swap") and render(cc[0].obj(x)) == fl for x in cc[0].calls() if "obj" in x):
                in_ctor.add(fl)
        f = ca[0]
        in_assign = {fl for fl in own if _assign_nodes(f, fl) or any(x["callee"]["name"] in ("push_back", "reset", "assign", "swap") and render(f.obj(x)) == fl for x in f.calls() if "obj" in x)}
        only_ctor = sorted((in_ctor & own) - in_assign)
        only_assign = sorted((in_assign & own) - in_ctor)
        if only_ctor:
            chk.refuted("D8", f.key, "assign-copies:" + ",".join(only_ctor), f.loc(), "operator= does not copy member(s) %s that the copy constructor copies: the assigned object keeps its own stale value(s)" % only_ctor,
                        witness={"history": "a = b with different parameters; re-discretise a without a parameter notification (class count / median change)"})
        elif only_assign:
            chk.refuted("D8", cc[0].key, "ctor-copies:" + ",".join(only_assign), cc[0].loc(), "copy constructor does not copy member(s) %s that operator= copies" % only_assign)
        else:
            chk.proved("D8", f.key, "copy-assign-agree", f.loc(), "both copy %s" % sorted(in_ctor & own))
    chk.floor("D8", "classes with user copy constructor and operator=", n, 6)


def _xwalk(f, a, depth=0):
    """nodes of a, and of the initialisers of the single-assignment locals it names (alpha_ = newAlpha with
    const double newAlpha = getParameterValue("alpha"))"""
    inits = local_inits(f)
    for x in walk(a):
        yield x
        if x["k"] == "DeclRefExpr" and x["decl"]["id"] in inits and depth < 3:
            for y in _xwalk(f, inits[x["decl"]["id"]], depth + 1):
                yield y


def _d9(chk, fb, files):
    """running end-point pairs: a loop that carries a point x and the value v of a function G at that point from one interval to
    the next (v2 = G(x2) computed in the body, then 'v = v2' and 'x = x2' moved together) uses differences v2 - v that telescope
    only if v starts as G(x).  The definition of v that reaches the loop must be G applied to x (or to the expression x was
    initialised with); a literal there is refuted, any other expression is not judged"""
    n = 0
    for f in fb.concrete_fns():
        if f.body is None or not any(f.file.endswith(x) for x in files):
            continue
        for lp in [x for x in f.all_nodes() if x["k"] in ("ForStmt", "WhileStmt")]:
            body = f.nodes.get(lp.get("body")) if isinstance(lp.get("body"), int) else None
            stmts = [x for x in walk(lp)]
            moves, evals = {}, {}
            for x in stmts:
                if x["k"] == "DeclStmt":
                    for d in x["decls"]:
                        r_ = strip(d["init"]) if d.get("init") is not None else None
                        if r_ is not None and (d.get("ty") or "").replace("const ", "") == "double" and is_call(r_) and len(f.args(r_)) == 1 and strip(f.args(r_)[0])["k"] == "DeclRefExpr":
                            evals[d["id"]] = (r_, strip(f.args(r_)[0])["decl"]["id"])
                if x["k"] == "BinaryOperator" and x.get("op") == "=":
                    l_, r_ = strip(kids(x)[0]), strip(kids(x)[1])
                    if l_["k"] == "DeclRefExpr" and (l_.get("ty") or "").replace("const ", "") == "double":
                        if r_["k"] == "DeclRefExpr" and (r_.get("ty") or "").replace("const ", "") == "double":
                            moves[l_["decl"]["id"]] = (r_["decl"]["id"], x, l_["decl"]["name"], r_["decl"]["name"])
                        elif is_call(r_) and len(f.args(r_)) == 1 and strip(f.args(r_)[0])["k"] == "DeclRefExpr":
                            evals[l_["decl"]["id"]] = (r_, strip(f.args(r_)[0])["decl"]["id"])
            for vid, (v2id, mv, vname, v2name) in moves.items():
                if v2id not in evals:
                    continue
                G, x2id = evals[v2id]
                xs = [xid for xid, (src, _, _, _) in moves.items() if src == x2id and xid != vid]
                if len(xs) != 1:
                    continue
                xid = xs[0]
                xname = moves[xid][2]
                # the definition of v that reaches the loop: its declaration initialiser, or the last plain assignment before the loop
                cfg = f.cfg
                head = cfg.stmt_block(f.nodes[lp["cond"]]) if "cond" in lp and lp["cond"] in f.nodes else None
                defs = []
                for d in [y for y in f.all_nodes() if y["k"] == "DeclStmt"]:
                    for dd in d["decls"]:
                        if dd["id"] == vid and dd.get("init") is not None:
                            defs.append((d, dd["init"]))
                for y in f.all_nodes():
                    if y["k"] == "BinaryOperator" and y.get("op") == "=" and strip(kids(y)[0])["k"] == "DeclRefExpr" and strip(kids(y)[0])["decl"]["id"] == vid and not f.contains(lp, y):
                        if head is not None and cfg.stmt_block(y) is not None and cfg.dominates(cfg.stmt_block(y), head):
                            defs.append((y, kids(y)[1]))
                if not defs:
                    continue
                n += 1
                dnode, init = defs[-1]
                con = "running-pair:%s/%s" % (xname, vname)
                xinit = None
                for d in [y for y in f.all_nodes() if y["k"] == "DeclStmt"]:
                    for dd in d["decls"]:
                        if dd["id"] == xid and dd.get("init") is not None:
                            xinit = render(dd["init"])
                gname = G["callee"]["name"]
                si = strip(init)
                want = {render(G).replace(render(f.args(G)[0]), xname)}
                if xinit:
                    want.add(render(G).replace(render(f.args(G)[0]), xinit))
                if render(si) in want:
                    chk.proved("D9", f.key, con, f.loc(dnode), "%s starts as %s(%s), the value at the point %s starts from" % (vname, gname, xname, xname))
                elif si["k"] in ("IntegerLiteral", "FloatingLiteral") or (si["k"] == "UnaryOperator" and strip(kids(si)[0])["k"] in ("IntegerLiteral", "FloatingLiteral")):
                    chk.refuted("D9", f.key, con, f.loc(dnode),
                                "the loop carries %s together with %s = %s(%s) from interval to interval and uses differences of successive values, but %s starts as the constant %s instead of %s(%s): the first difference is not the integral over the first interval" % (
                                    xname, vname, gname, xname, vname, render(si), gname, xname),
                                witness={"input": "a parent distribution whose %s at the lower end of the domain is not %s (e.g. a gamma with an offset)" % (gname, render(si))})
                else:
                    chk.unknown("D9", f.key, con, f.loc(dnode), "%s starts as '%s': not compared with %s(%s)" % (vname, render(si)[:60], gname, xname))
    chk.floor("D9", "running end-point pairs", n, 1)


def _d10(chk, fb, files):
    """compound distributions add up contributions: a rebuild that walks several component distributions (a loop over a member
    container of distributions with an inner loop over the classes of one component) and writes distribution_[value] with a
    term weighted by the component's probability must accumulate ('+=' or 'x = x + ...'): two components may carry the same
    class value, and a plain assignment keeps only the last contribution, so the probabilities no longer sum to one"""
    n = 0
    anchors = 0
    for f in fb.concrete_fns():
        if f.body is None or not any(f.file.endswith(x) for x in files) or not f.cls:
            continue
        comp = [fl["name"] for fl in fb.classes.get(f.cls, {}).get("fields", []) if "vector" in fl["ty"] and "DiscreteDistribution" in fl["ty"]]
        if not comp:
            continue
        if f.name == "updateDistribution":
            anchors += 1
            n0 = n
        for w in f.all_nodes():
            if w["k"] not in ("BinaryOperator", "CompoundAssignOperator") or w.get("op") not in ("=", "+="):
                continue
            l_ = strip(kids(w)[0])
            if not (is_call(l_) and l_["callee"]["name"] == "operator[]" and "obj" in l_ and render(f.obj(l_)).replace("this.", "") == "distribution_"):
                continue
            inner = f.enclosing(w, ("ForStmt", "WhileStmt", "CXXForRangeStmt"))
            outer = f.enclosing(inner, ("ForStmt", "WhileStmt", "CXXForRangeStmt")) if inner is not None else None
            if outer is None or not any(c_ in render(outer) for c_ in comp):
                continue
            rhs = strip(kids(w)[1])
            if rhs["k"] in ("IntegerLiteral", "FloatingLiteral"):
                continue        # the zero-filling pass
            n += 1
            con = "contributions-accumulate"
            if w["op"] == "+=" or render(l_) in render(rhs):
                chk.proved("D10", f.key, con, f.loc(w), "component contributions are accumulated into distribution_[%s]" % render(f.args(l_)[0]))
            else:
                chk.refuted("D10", f.key, con, f.loc(w),
                            "inside the loop over the components '%s' overwrites the class probability instead of adding to it: when two components carry the same class value only the last contribution survives and the probabilities sum to less than one" % render(w)[:90],
                            witness={"input": "a mixture of two identical component distributions with weights 0.5 / 0.5: every class value is shared"})
        # the same store spelled as a map insertion: emplace / insert / try_emplace keep an entry that is already there,
        # insert_or_assign replaces it - neither adds the new contribution to the old one
        for c in f.all_nodes():
            if not (is_call(c) and c["callee"]["name"] in ("emplace", "insert", "try_emplace", "insert_or_assign", "emplace_hint") and "obj" in c
                    and render(f.obj(c)).replace("this.", "") == "distribution_"):
                continue
            inner = f.enclosing(c, ("ForStmt", "WhileStmt", "CXXForRangeStmt"))
            outer = f.enclosing(inner, ("ForStmt", "WhileStmt", "CXXForRangeStmt")) if inner is not None else None
            if outer is None or not any(c_ in render(outer) for c_ in comp):
                continue
            args = f.args(c)
            if not args or all(strip(a)["k"] in ("IntegerLiteral", "FloatingLiteral") for a in args[1:]) and len(args) > 1:
                continue        # a zero-filling pass
            if not any(x["k"] == "BinaryOperator" and x["op"] == "*" for a in args for x in walk(a)):
                continue        # not a weighted term
            n += 1
            par = f.parent.get(c["id"])
            while par is not None and par["k"] in ("ExprWithCleanups", "ImplicitCastExpr", "MaterializeTemporaryExpr", "CXXBindTemporaryExpr", "ParenExpr"):
                par = f.parent.get(par["id"])
            if par is None or par["k"] not in ("CompoundStmt", "ForStmt", "WhileStmt", "CXXForRangeStmt", "IfStmt", "DoStmt"):
                chk.unknown("D10", f.key, "contributions-accumulate", f.loc(c), "the result of the insertion is used (an add-if-present may follow): not decided")
                continue
            keeps = c["callee"]["name"] != "insert_or_assign"
            chk.refuted("D10", f.key, "contributions-accumulate", f.loc(c),
                        "inside the loop over the components '%s' %s: when two components carry the same class value %s and the probabilities sum to less than one"
                        % (render(c)[:90], "inserts the weighted term only if the class value is new" if keeps else "replaces the entry of the class value",
                           "the later contribution is dropped" if keeps else "only the last contribution survives"),
                        witness={"input": "a mixture of two identical component distributions with weights 0.5 / 0.5: every class value is shared"})
        if f.name == "updateDistribution" and n == n0:
            chk.unknown("D10", f.key, "contributions-accumulate", f.loc(), "the weighted contributions of the components are not stored in a form read here (operator[] store or map insertion inside the component loop)")
    chk.floor("D10", "compound rebuilds walking a vector of component distributions", anchors, 1)


def run(chk, fb, tier):
    chk.rule("D1", "fireParameterChanged of every parameterised family, setNumberOfCategories, setMedian and restrictToConstraint reach a rebuild after their last state write; compounds update every component first")
    chk.rule("D2", "members caching a parameter value (initialised from the same constructor argument as the Parameter) are reloaded by fireParameterChanged; members the constructor derives from a cache are re-derived there")
    chk.rule("D3", "distribution_.clear() dominates every class insertion of a rebuild; bounds_ is re-sized/cleared before being written")
    chk.rule("D4", "v[e] after v.resize(e) (same expression, no resize in between) is out of range")
    chk.rule("D5", "every throw operand in the Prob/ sources derives from bpp::Exception")
    chk.rule("D6", "setLowerBound/setUpperBound(value, strict): the boolean must not have INCL polarity; a stored class value installed as a bound must not be strict")
    chk.rule("D7", "lookup loops over bounds_ compare the first interior bound")
    chk.rule("D8", "user-provided copy constructor and operator= copy the same members")
    files = sorted({c["file"] for c in fb.classes.values() if "/Numeric/Prob/" in c["file"]} | {f.file for f in fb.concrete_fns() if "/Numeric/Prob/" in f.file})
    files = [x for x in files if "Simplex" not in x and "Dirichlet" not in x]
    _d1_d2(chk, fb)
    _d3(chk, fb)
    _d4(chk, fb, files)
    _d5(chk, fb, files)
    _d6(chk, fb, files)
    _d7(chk, fb)
    _d8(chk, fb, files)
    chk.rule("D9", "a loop that carries a point and the value of a function at that point from interval to interval starts the value as the function of the starting point")
    _d9(chk, fb, files)
    chk.rule("D10", "a compound rebuild that walks its components accumulates their weighted class probabilities into distribution_[value] (never a plain assignment)")
    _d10(chk, fb, files)
    from . import copyrule
    chk.rule("DC", "copy constructor and copy assignment copy the same members and agree on clone versus share for owning pointers; operator= empties a member container before re-populating it")
    copyrule.check(chk, fb, "DC", lambda c: any(c["file"].endswith(x) for x in files), floor=4)
    from . import argswap as _argswap
    chk.rule("DA", "argument/parameter name agreement at forwarding calls in the anchored units (same-typed parameters must not be swapped)")
    _af = ('src/Bpp/Numeric/Prob/DiscreteDistribution.h', 'src/Bpp/Numeric/Prob/AbstractDiscreteDistribution.h', 'src/Bpp/Numeric/Prob/AbstractDiscreteDistribution.cpp', 'src/Bpp/Numeric/Prob/GammaDiscreteDistribution.cpp', 'src/Bpp/Numeric/Prob/BetaDiscreteDistribution.cpp', 'src/Bpp/Numeric/Prob/GaussianDiscreteDistribution.cpp', 'src/Bpp/Numeric/Prob/ExponentialDiscreteDistribution.h', 'src/Bpp/Numeric/Prob/TruncatedExponentialDiscreteDistribution.h', 'src/Bpp/Numeric/Prob/UniformDiscreteDistribution.h', 'src/Bpp/Numeric/Prob/SimpleDiscreteDistribution.cpp', 'src/Bpp/Numeric/Prob/ConstantDistribution.cpp', 'src/Bpp/Numeric/Prob/InvariantMixedDiscreteDistribution.cpp', 'src/Bpp/Numeric/Prob/MixtureOfDiscreteDistributions.cpp')
    _argswap.check(chk, fb, "DA", [f_ for f_ in fb.concrete_fns() if f_.body is not None and any(f_.relfile.endswith(x_) for x_ in _af)], 1)
    chk.assume("DirichletDiscreteDistribution is multivariate and outside the property's family list")
