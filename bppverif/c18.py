"""C18 Random draws follow the named law, keep structural constraints, are reproducible.

 D1 parameter conventions (E8 kind typing): the argument handed to a std distribution constructor, and the argument a
    distribution's randC() hands to a RandomTools sampler, has the kind (MEAN / RATE / SCALE / VARIANCE / STDDEV / SHAPE) that
    parameter requires; the library's own kinds are read off its cumulative functions and @param documentation
 D2 refusals: over-long requests without replacement and empty sources reach the documented exception before any draw
 D3 reproducibility: every draw uses RandomTools::DEFAULT_GENERATOR; no other engine, random_device use or rand() in the library
"""
import re
from .facts import kids, strip, walk, is_call, render, local_inits, AnalysisBroken
from . import e1

EXPLANATION = ("Static analysis of structural clauses of C18: D1 a small kind system {MEAN, RATE, SCALE, VARIANCE, STDDEV, SHAPE} with the conversions 1/x, sqrt(x), x*x types every argument "
               "reaching std::exponential_distribution(RATE), std::gamma_distribution(SHAPE, SCALE), std::normal_distribution(MEAN, STDDEV) inside the RandomTools samplers, and every "
               "argument a distribution's randC() passes to those samplers; the library's kinds are inferred from its cumulative functions (pGamma multiplies x by beta => RATE, pNorm divides by "
               "sigma => STDDEV, 1-exp(-lambda x) => RATE) and from the samplers' @param documentation (mean, variance); D2 refusal guards dominate the draws; D3 every std distribution "
               "object is invoked with RandomTools::DEFAULT_GENERATOR and no other randomness source exists in the library. NOT decided: any distributional statement (goodness of fit), "
               "multinomial / weighted-pick laws, contingency-table margins, p-value range; weighted picks assume size(w) == size(v).")

RT = "bpp::RandomTools"
INV = {"MEAN": "RATE", "RATE": "MEAN", "SCALE": "RATE"}
STD_REQ = {"exponential_distribution": ["RATE"], "gamma_distribution": ["SHAPE", "SCALE"], "normal_distribution": ["MEAN", "STDDEV"]}


def _compatible(have, want):
    if have == want:
        return True
    # for an exponential / gamma law: scale == mean-of-unit-shape == 1/rate
    if {have, want} <= {"MEAN", "SCALE"}:
        return True
    return False


def _kind(f, node, env, sub):
    """kind of an expression; env maps parameter/field names (and getParameterValue("x") names) to kinds"""
    n = strip(node)
    if n is None:
        return None
    k = n["k"]
    if k == "DeclRefExpr":
        if n["decl"]["name"] in env:
            return env[n["decl"]["name"]]
        if n["decl"]["id"] in sub:
            return _kind(f, sub[n["decl"]["id"]], env, sub)
        return None
    if k == "MemberExpr":
        return env.get(n["member"]["name"])
    if is_call(n):
        nm = n["callee"]["name"]
        if nm == "getParameterValue":
            lits = [x["val"] for x in walk(n) if x["k"] == "StringLiteral"]
            return env.get("param:" + lits[0]) if lits else None
        if n["callee"]["qname"] in ("std::sqrt", "sqrt") and f.args(n):
            a = _kind(f, f.args(n)[0], env, sub)
            return "STDDEV" if a == "VARIANCE" else None
        if n["callee"]["qname"] in ("std::pow", "pow") and len(f.args(n)) == 2 and render(f.args(n)[1]) in ("2", "2.0"):
            a = _kind(f, f.args(n)[0], env, sub)
            return "VARIANCE" if a == "STDDEV" else None
        return None
    if k == "BinaryOperator":
        a, b = kids(n)
        if n["op"] == "/" and strip(a)["k"] in ("IntegerLiteral", "FloatingLiteral") and float(strip(a)["val"]) == 1.0:
            kb = _kind(f, b, env, sub)
            return INV.get(kb)
        if n["op"] == "*" and render(a) == render(b):
            ka = _kind(f, a, env, sub)
            return "VARIANCE" if ka == "STDDEV" else None
        return None
    return None


def _doc_kinds(fb, f):
    """@param name  <text>  ->  kind by keyword, read from the doc comment above the definition"""
    try:
        lines = open(f.file).read().split("\n")
    except OSError:
        return {}
    out = {}
    i = f.line - 2
    doc = []
    while i >= 0 and (lines[i].strip().startswith(("*", "/**", "*/")) or lines[i].strip() == ""):
        doc.append(lines[i])
        if lines[i].strip().startswith("/**"):
            break
        i -= 1
    for l in doc:
        m = re.search(r"@param\s+(\w+)\s+(.*)", l)
        if m:
            t = m.group(2).lower()
            if "variance" in t:
                out[m.group(1)] = "VARIANCE"
            elif "standard deviation" in t or "std dev" in t:
                out[m.group(1)] = "STDDEV"
            elif "mean" in t:
                out[m.group(1)] = "MEAN"
            elif "rate" in t:
                out[m.group(1)] = "RATE"
            elif "scale" in t:
                out[m.group(1)] = "SCALE"
    return out


def _cumulative_kinds(fb):
    """kinds of the library's own cumulative functions, from their shape"""
    kinds = {}
    # pGamma(x, alpha, beta): beta * x  => RATE ; x / beta => SCALE
    fs = [f for f in fb.q(RT + "::pGamma")]
    if not fs:
        raise AnalysisBroken("anchor vanished: RandomTools::pGamma")
    f = fs[0]
    x, a, b = [p["name"] for p in f.params]
    for n in walk(f.body):
        if n["k"] == "BinaryOperator" and n["op"] in ("*", "/"):
            l, r = render(kids(n)[0]), render(kids(n)[1])
            if n["op"] == "*" and {l, r} == {x, b}:
                kinds[("pGamma", 2)] = "RATE"
            if n["op"] == "/" and l == x and r == b:
                kinds[("pGamma", 2)] = "SCALE"
    kinds[("pGamma", 1)] = "SHAPE"
    # pNorm(x, mu, sigma): (x - mu) / sigma => MEAN, STDDEV
    fs = [f for f in fb.q(RT + "::pNorm") if len(f.params) == 3]
    if not fs:
        raise AnalysisBroken("anchor vanished: RandomTools::pNorm(x, mu, sigma)")
    f = fs[0]
    x, mu, sg = [p["name"] for p in f.params]
    for n in walk(f.body):
        if n["k"] == "BinaryOperator" and n["op"] == "/" and render(kids(n)[1]) == sg and render(kids(n)[0]) == "(%s - %s)" % (x, mu):
            kinds[("pNorm", 1)] = "MEAN"
            kinds[("pNorm", 2)] = "STDDEV"
    return kinds


def _d1(chk, fb):
    cum = _cumulative_kinds(fb)
    if ("pGamma", 2) not in cum or ("pNorm", 2) not in cum:
        raise AnalysisBroken("cannot read the parameter conventions off pGamma / pNorm")
    chk.note("library conventions inferred: pGamma beta = %s, pNorm sigma = %s" % (cum[("pGamma", 2)], cum[("pNorm", 2)]))
    # ---- samplers of RandomTools
    sampler_kinds = {}      # (name, nparams) -> [kinds]
    n_sites = 0
    for f in sorted(fb.concrete_fns(), key=lambda x: x.key):
        if f.cls != RT or not f.name.startswith("rand") or f.body is None:
            continue
        env = dict(_doc_kinds(fb, f))
        # gamma-type samplers share the convention of the gamma cumulative function
        if f.name == "randGamma":
            names = [p["name"] for p in f.params]
            if len(names) >= 1:
                env.setdefault(names[0], "SHAPE")
            if len(names) >= 2:
                env.setdefault(names[1], cum[("pGamma", 2)])
        sampler_kinds[(f.name, len(f.params))] = [env.get(p["name"]) for p in f.params]
        sub = local_inits(f)
        for n in walk(f.body):
            if n["k"] == "DeclStmt":
                for d in n["decls"]:
                    m = re.match(r"std::(\w+_distribution)<", d["ty"])
                    init = strip(d.get("init")) if d.get("init") is not None else None
                    if not m or m.group(1) not in STD_REQ or init is None or not is_call(init):
                        continue
                    req = STD_REQ[m.group(1)]
                    for i, a in enumerate(f.args(init)[:len(req)]):
                        n_sites += 1
                        sa = strip(a)
                        if sa["k"] in ("IntegerLiteral", "FloatingLiteral"):
                            chk.proved("D1", f.key, "std-arg:%s#%d" % (m.group(1), i), f.loc(n), "literal %s" % render(a))
                            continue
                        have = _kind(f, a, env, sub)
                        if have is None:
                            chk.unknown("D1", f.key, "std-arg:%s#%d" % (m.group(1), i), f.loc(n), "kind of '%s' not determined" % render(a))
                        elif _compatible(have, req[i]):
                            chk.proved("D1", f.key, "std-arg:%s#%d" % (m.group(1), i), f.loc(n), "'%s' is a %s, std::%s expects %s" % (render(a), have, m.group(1), req[i]))
                        else:
                            chk.refuted("D1", f.key, "std-arg:%s#%d" % (m.group(1), i), f.loc(n),
                                        "std::%s expects a %s as argument %d but receives '%s', which is a %s by the library's own convention (%s)" % (
                                            m.group(1), req[i], i + 1, render(a), have, "documented @param" if render(a) in _doc_kinds(fb, f) else "cumulative function"),
                                        witness={"input": "any value different from 1: e.g. %s = 4 gives a sample mean of 1/4 (resp. 4x) the documented one" % render(a)})
    chk.floor("D1", "std distribution constructions in RandomTools samplers", n_sites, 5)
    # ---- randC of the distribution families
    n_rc = 0
    for f in sorted(fb.concrete_fns(), key=lambda x: x.key):
        if f.name != "randC" or f.body is None or "/Prob/" not in f.file:
            continue
        cls = f.cls
        env = {}
        # kinds of the class' members / parameters from its pProb
        for pp in fb.q(cls + "::pProb"):
            x = pp.params[0]["name"] if pp.params else "x"
            for n in walk(pp.body):
                if is_call(n) and n["callee"]["qname"] in (RT + "::pGamma", RT + "::pNorm") and len(pp.args(n)) == 3:
                    base = n["callee"]["name"]
                    for i in (1, 2):
                        a = strip(pp.args(n)[i])
                        if a["k"] == "MemberExpr" and (base, i) in cum:
                            env[a["member"]["name"]] = cum[(base, i)]
                            env["param:" + a["member"]["name"].rstrip("_")] = cum[(base, i)]
                if n["k"] == "BinaryOperator" and n["op"] == "*":
                    l, r = strip(kids(n)[0]), strip(kids(n)[1])
                    for u, v in ((l, r), (r, l)):
                        uu = strip(kids(u)[0]) if u["k"] == "UnaryOperator" and u["op"] == "-" else u
                        if uu["k"] == "MemberExpr" and render(v) == x:
                            # exp(-lambda_ * x): lambda multiplies x => RATE
                            env[uu["member"]["name"]] = "RATE"
                            env["param:" + uu["member"]["name"].rstrip("_")] = "RATE"
        sub = local_inits(f)
        for c in f.calls():
            if c["callee"].get("cls") == RT and c["callee"]["name"].startswith("rand"):
                want = sampler_kinds.get((c["callee"]["name"], len(f.args(c))))
                if not want:
                    continue
                for i, a in enumerate(f.args(c)):
                    if want[i] is None:
                        continue
                    n_rc += 1
                    have = _kind(f, a, env, sub)
                    if have is None:
                        chk.unknown("D1", f.key, "sampler-arg:%s#%d" % (c["callee"]["name"], i), f.loc(c), "kind of '%s' not determined" % render(a))
                    elif _compatible(have, want[i]):
                        chk.proved("D1", f.key, "sampler-arg:%s#%d" % (c["callee"]["name"], i), f.loc(c), "'%s' is a %s as RandomTools::%s expects" % (render(a), have, c["callee"]["name"]))
                    else:
                        chk.refuted("D1", f.key, "sampler-arg:%s#%d" % (c["callee"]["name"], i), f.loc(c),
                                    "RandomTools::%s expects a %s as argument %d but randC passes '%s', a %s according to this class' own cumulative function" % (c["callee"]["name"], want[i], i + 1, render(a), have),
                                    witness={"input": "any parameter value different from 1"})
    chk.floor("D1", "typed sampler arguments in randC", n_rc, 4)


def _cond_head(f, cfg, cond):
    """first block in which a condition starts being evaluated"""
    bl = {cfg.block_of[x["id"]] for x in walk(cond) if x["id"] in cfg.block_of}
    for b in bl:
        if all(cfg.dominates(b, o) for o in bl):
            return b
    return None


def _d2(chk, fb):
    n = 0
    for f in sorted(fb.concrete_fns(), key=lambda x: x.key):
        if f.cls != RT or f.body is None or f.cfg is None:
            continue
        cfg = f.cfg
        if f.name == "pickOne":
            src = f.params[0]["name"]
            acc = [c for c in f.calls() if c["callee"]["name"] in ("operator[]", "back", "at") and "obj" in c and render(f.obj(c)) == src]
            for a in acc:
                n += 1
                ok, path = e1.guarded_by(cfg, cfg.stmt_block(a), lambda facts: any(t == "%s.empty()" % src and tr is False for t, tr, _ in facts) or any(t in ("(%s.size() == 0)" % src,) and tr is False for t, tr, _ in facts))
                thr = [t for t in walk(f.body) if t["k"] == "CXXThrowExpr" and "EmptyVectorException" in (t.get("thrown") or "")]
                if ok and thr:
                    chk.proved("D2", f.key, "empty-refused", f.loc(a), "access to the source guarded by !%s.empty(), EmptyVectorException otherwise" % src)
                else:
                    chk.refuted("D2", f.key, "empty-refused", f.loc(a), "the source vector is indexed without a dominating emptiness test raising EmptyVectorException")
        if f.name == "getSample":
            vin = f.params[0]["name"]
            vout = [p["name"] for p in f.params if p["ty"].endswith("&") and not p["ty"].startswith("const ")]
            rep = [p["name"] for p in f.params if p["ty"] in ("bool", "const bool")]
            if not vout or not rep:
                continue
            n += 1
            thr = [t for t in walk(f.body) if t["k"] == "CXXThrowExpr"]
            conds = []
            for t in thr:
                ifn = f.enclosing(t, ("IfStmt",))
                if ifn is not None:
                    conds.append(render(f.nodes[ifn["cond"]]))
            want = "((%s.size() > %s.size()) && !%s)" % (vout[0], vin, rep[0])
            draws = [c for c in f.calls() if c["callee"]["name"] in ("pickOne", "giveIntRandomNumberBetweenZeroAndEntry")]
            sub_ = local_inits(f)
            # the refusal, in whatever arrangement: a throw that is reached exactly under 'no replacement' and 'request longer than source'
            def refusal(t):
                fs = set()
                tb = cfg.stmt_block(t)
                for a_ in cfg.blocks:
                    for b_ in cfg.succ[a_]:
                        if b_ == tb or cfg.dominates(b_, tb):
                            if not any(o != b_ and (o == tb or e1.path_exists(cfg, o, tb, avoid_blocks={a_})) for o in cfg.succ[a_]):
                                for tx, tr, nd in e1.edge_facts(cfg, a_, b_):
                                    fs.add((render(nd, sub_).replace("this.", ""), tr))
                longer = ("(%s.size() > %s.size())" % (vout[0], vin), True) in fs or ("(%s.size() < %s.size())" % (vin, vout[0]), True) in fs or ("(%s.size() <= %s.size())" % (vout[0], vin), False) in fs
                norep = (rep[0], False) in fs or ("!%s" % rep[0], True) in fs
                return longer, norep
            found = None
            for t in thr:
                lg, nr = refusal(t)
                if lg and nr:
                    found = t
            norepl_draws = []      # draws that happen without replacement: the index shuffle, or an explicit pick under !replace
            shuffles = [c for c in f.calls() if c["callee"]["name"] in ("shuffle", "random_shuffle")]
            if found is not None:
                tb = cfg.stmt_block(found)
                late = [d for d in shuffles if e1.path_exists(cfg, cfg.stmt_block(d), tb)]
                if late:
                    chk.refuted("D2", f.key, "overlong-refused", f.loc(found), "the request is refused only after the source has been shuffled / drawn from", witness={"input": "vout longer than vin, replace = false"})
                else:
                    chk.proved("D2", f.key, "overlong-refused", f.loc(found), "throws when the request is longer than the source and replacement is off, before any draw")
            elif want in conds:
                chk.proved("D2", f.key, "overlong-refused", f.loc(), "throws under %s before any draw" % want)
            elif not thr:
                chk.refuted("D2", f.key, "overlong-refused", f.loc(), "sampling without replacement never refuses a request longer than the source: vin[hat[i]] is read out of range", witness={"input": "vout longer than vin, replace = false"})
            else:
                chk.unknown("D2", f.key, "overlong-refused", f.loc(), "refusal not in a recognised form (guards found: %s)" % conds)
    chk.floor("D2", "refusal sites", n, 5)


def _d3(chk, fb):
    n = 0
    gen = RT + "::DEFAULT_GENERATOR"
    for f in sorted(fb.concrete_fns(), key=lambda x: x.key):
        if f.body is None:
            continue
        for c in f.calls():
            q = c["callee"]["qname"]
            if re.match(r"std::\w+_distribution<.*>::operator\(\)", q):
                n += 1
                a = render(f.args(c)[0]) if f.args(c) else "?"
                if a == gen or a == "DEFAULT_GENERATOR":
                    chk.proved("D3", f.key, "draw-uses-default-generator", f.loc(c), render(c)[:60])
                else:
                    chk.refuted("D3", f.key, "draw-uses-default-generator", f.loc(c), "a random draw uses '%s' instead of RandomTools::DEFAULT_GENERATOR: setSeed() no longer makes the stream reproducible" % a)
            elif q in ("rand", "std::rand", "random", "drand48", "lrand48", "srand", "std::srand", "rand_r"):
                n += 1
                chk.refuted("D3", f.key, "no-libc-rand", f.loc(c), "call of %s(): a second, unseeded randomness source" % q)
            elif q in ("std::shuffle", "std::random_shuffle", "std::sample"):
                n += 1
                args = [render(x) for x in f.args(c)]
                if any(gen in a or a == "DEFAULT_GENERATOR" for a in args):
                    chk.proved("D3", f.key, "draw-uses-default-generator", f.loc(c), render(c)[:60])
                else:
                    chk.refuted("D3", f.key, "draw-uses-default-generator", f.loc(c), "%s is not driven by RandomTools::DEFAULT_GENERATOR" % q)
            elif c["callee"]["via"] == "ctor" and re.match(r"std::(mersenne_twister_engine|linear_congruential_engine|subtract_with_carry_engine|random_device|discard_block_engine|shuffle_order_engine)", q):
                n += 1
                chk.refuted("D3", f.key, "no-other-engine", f.loc(c), "constructs another random engine/device (%s) inside the library" % q.split("<")[0])
            elif re.match(r"std::random_device::operator\(\)", q):
                n += 1
                chk.refuted("D3", f.key, "no-other-engine", f.loc(c), "draws from std::random_device directly")
    chk.floor("D3", "random draw sites", n, 7)
    f = fb.q1(RT + "::setSeed")
    seeds = [c for c in f.calls() if c["callee"]["name"] == "seed" and "obj" in c and render(f.obj(c)) in (gen, "DEFAULT_GENERATOR") and render(f.args(c)[0]) == f.params[0]["name"]]
    if seeds:
        chk.proved("D3", f.key, "setSeed-seeds-default-generator", f.loc(), render(seeds[0]))
    else:
        chk.refuted("D3", f.key, "setSeed-seeds-default-generator", f.loc(), "setSeed does not seed DEFAULT_GENERATOR with its argument")


def _d4(chk, fb):
    """(a) std distribution objects are per-call automatics: a function-local static one keeps generated-but-unused values
    (normal_distribution caches the second deviate) across setSeed, so the stream after re-seeding is not reproducible;
    (b) weighted pick without replacement removes the element and its weight by the same scheme (the two vectors stay parallel)"""
    n = 0
    for f in sorted(fb.concrete_fns(), key=lambda x: x.key):
        if f.body is None:
            continue
        for dn in f.all_nodes():
            if dn["k"] != "DeclStmt":
                continue
            for d in dn["decls"]:
                if re.match(r"(const )?std::\w+_distribution<", d.get("ty") or ""):
                    n += 1
                    if d.get("static"):
                        chk.refuted("D4", f.key, "distribution-object-per-call:" + d["name"], f.loc(dn), "'%s' is a function-local static %s: its internal state (cached deviates) survives RandomTools::setSeed, so the draws after re-seeding depend on how many were made before" % (
                            d["name"], d["ty"].split("<")[0]), witness={"history": "setSeed(s); one draw; setSeed(s); compare the next draws"})
                    else:
                        chk.proved("D4", f.key, "distribution-object-per-call:" + d["name"], f.loc(dn), "automatic %s" % d["ty"].split("<")[0])
    chk.floor("D4", "std distribution objects", n, 5)
    fs = [f for f in fb.concrete_fns() if f.qname == RT + "::pickOne" and f.body is not None and len(f.params) == 3 and not f.params[0]["ty"].startswith("const ")]
    if not fs:
        raise AnalysisBroken("anchor vanished: RandomTools::pickOne(v, w, replace) instantiation")
    f = sorted(fs, key=lambda x: x.key)[0]
    v, w = f.params[0]["name"], f.params[1]["name"]

    def removal(name):
        out = []
        for x in f.all_nodes():
            t = None
            if x["k"] == "BinaryOperator" and x["op"] == "=":
                l = strip(kids(x)[0])
                if is_call(l) and l["callee"]["name"] == "operator[]" and "obj" in l and render(f.obj(l)) == name:
                    t = "X[%s] = %s" % (render(f.args(l)[0]), render(kids(x)[1]).replace(name + ".", "X."))
            elif is_call(x) and "obj" in x and render(f.obj(x)) == name and x["callee"]["name"] in ("pop_back", "erase", "resize", "clear", "push_back", "insert"):
                t = "X.%s(%s)" % (x["callee"]["name"], ", ".join(render(a).replace(name + ".", "X.") for a in f.args(x)))
            elif is_call(x) and x["callee"]["name"] == "operator=" and "obj" in x:
                l = strip(f.obj(x))
                if is_call(l) and l["callee"]["name"] == "operator[]" and "obj" in l and render(f.obj(l)) == name:
                    t = "X[%s] = %s" % (render(f.args(l)[0]), render(f.args(x)[0]).replace(name + ".", "X."))
            if t:
                out.append(t)
        return sorted(out)
    rv, rw = removal(v), removal(w)
    if rv and rv == rw:
        chk.proved("D4", f.key, "parallel-removal", f.loc(), "element and weight removed by the same scheme: %s" % rv)
    elif not rv and not rw:
        chk.unknown("D4", f.key, "parallel-removal", f.loc(), "no removal recognised")
    else:
        chk.refuted("D4", f.key, "parallel-removal", f.loc(), "without replacement the element is removed from '%s' by %s but its weight from '%s' by %s: after the first pick the weights no longer belong to their elements" % (v, rv, w, rw),
                    witness={"history": "two successive weighted picks without replacement from {A,B,C,D} with weights {0,1,1,1}"})


def _d5(chk, fb):
    """sampling with replacement never removes: inside getSample, a pick made on the branch taken when 'replace' is true resolves
    (overload resolution on the argument's constness, read from the typed syntax tree) to a pickOne that cannot modify the
    vector it draws from - its first parameter is a const reference - or passes replace = true explicitly.  The removing overload
    pickOne(std::vector<T>&, bool replace = false) is selected silently for a non-const lvalue argument; the sample then has no
    repeats and a request longer than the source throws"""
    n = 0
    for f in fb.concrete_fns():
        if f.body is None or f.name != "getSample" or "RandomTools" not in (f.cls or ""):
            continue
        cfg = f.cfg
        rp = [p_["name"] for p_ in f.params if p_.get("ty") in ("bool", "const bool")]
        if not rp:
            continue
        rname = rp[0]
        for c in f.calls():
            if c["callee"]["name"] != "pickOne":
                continue
            b = cfg.stmt_block(c)
            if b is None:
                continue
            under_true, _ = e1.guarded_by(cfg, b, lambda facts: any(t_ == rname and tr_ is True for t_, tr_, _ in facts))
            if not under_true:
                continue
            n += 1
            pt = c["callee"].get("ptypes") or []
            args = f.args(c)
            explicit = None
            for k_, ty in enumerate(pt):
                if ty in ("bool", "const bool") and k_ < len(args):
                    a_ = strip(args[k_])
                    if a_["k"] == "CXXBoolLiteralExpr":
                        explicit = bool(a_["val"])
                    elif a_["k"] == "DeclRefExpr" and a_["decl"]["name"] == rname:
                        explicit = True
            con = "replace-branch-pick:" + render(c)[:40]
            if pt and pt[0].startswith("const "):
                chk.proved("D5", f.key, con, f.loc(c), "resolves to %s(%s): cannot remove what it picks" % (c["callee"]["name"], pt[0]))
            elif explicit is True:
                chk.proved("D5", f.key, con, f.loc(c), "the removing overload is called with replace = true")
            elif pt:
                chk.refuted("D5", f.key, con, f.loc(c),
                            "on the 'with replacement' branch '%s' resolves to the overload taking '%s' with replace defaulting to false: every pick removes the element, so the sample has no repeats and a sample longer than the source throws EmptyVectorException" % (render(c)[:60], pt[0]),
                            witness={"input": "getSample of 8 out of 3 elements with replace = true"})
            else:
                chk.unknown("D5", f.key, con, f.loc(c), "callee not resolved")
    chk.floor("D5", "picks on the with-replacement branch of getSample", n, 2)


def instantiations(fb, headers):
    return ("template int bpp::RandomTools::pickOne<int>(std::vector<int>&, bool);\n"
            "template int bpp::RandomTools::pickOne<int>(const std::vector<int>&);\n"
            "template void bpp::RandomTools::getSample<int>(const std::vector<int>&, std::vector<int>&, bool);\n"
            "template int bpp::RandomTools::pickOne<int>(std::vector<int>&, std::vector<double>&, bool);\n"
            "template int bpp::RandomTools::pickOne<int>(const std::vector<int>&, const std::vector<double>&);\n"
            "template void bpp::RandomTools::getSample<int>(const std::vector<int>&, const std::vector<double>&, std::vector<int>&, bool);\n"
            "template unsigned long bpp::RandomTools::giveIntRandomNumberBetweenZeroAndEntry<unsigned long>(unsigned long);\n")


def run(chk, fb, tier):
    chk.rule("D1", "arguments of std::exponential_distribution / gamma_distribution / normal_distribution constructors inside RandomTools samplers, and arguments randC() passes to those samplers, have the required kind")
    chk.rule("D2", "pickOne tests emptiness (EmptyVectorException) before indexing; getSample refuses 'vout.size() > vin.size() && !replace' before drawing")
    chk.rule("D4", "std distribution objects are automatic (no function-local static state surviving setSeed); weighted pickOne removes element and weight by the same scheme")
    chk.rule("D3", "every std distribution object is invoked with RandomTools::DEFAULT_GENERATOR; no rand()/random_device/other engine in the library; setSeed seeds DEFAULT_GENERATOR")
    _d1(chk, fb)
    _d2(chk, fb)
    _d3(chk, fb)
    _d4(chk, fb)
    chk.rule("D5", "picks on the with-replacement branch of getSample resolve to a pickOne overload that cannot remove elements (const reference parameter) or pass replace = true")
    _d5(chk, fb)
    from . import argswap as _argswap
    chk.rule("DA", "argument/parameter name agreement at forwarding calls in the anchored units (same-typed parameters must not be swapped)")
    _af = ('src/Bpp/Numeric/Random/RandomTools.h', 'src/Bpp/Numeric/Random/RandomTools.cpp', 'src/Bpp/Numeric/Random/ContingencyTableGenerator.cpp', 'src/Bpp/Numeric/Stat/ContingencyTableTest.cpp', 'src/Bpp/Numeric/Prob/AbstractDiscreteDistribution.cpp', 'src/Bpp/Numeric/Prob/GammaDiscreteDistribution.h', 'src/Bpp/Numeric/Prob/GaussianDiscreteDistribution.h', 'src/Bpp/Numeric/Prob/ExponentialDiscreteDistribution.h', 'src/Bpp/Numeric/Prob/BetaDiscreteDistribution.h', 'src/Bpp/Numeric/Hmm/AbstractHmmTransitionMatrix.cpp')
    _argswap.check(chk, fb, "DA", [f_ for f_ in fb.concrete_fns() if f_.body is not None and any(f_.relfile.endswith(x_) for x_ in _af)], 1)
    chk.assume("ISO C++ parameterisation: exponential_distribution(lambda = rate), gamma_distribution(alpha = shape, beta = scale), normal_distribution(mean, stddev)")
    chk.assume("weighted picks are called with size(w) == size(v)")
