"""C02 Bulk parameter updates are atomic; names stay unique; copies are independent.

 D1 validate-then-apply in the three bulk setters (and the testParametersValues sibling)
 D2 changed flag / changed positions written together under the value-differs test; position counter in lock-step
 D3 every insertion into ParameterList::parameters_ keeps names unique (guarded or trusted whole-list/sub-list source)
 D4 copy functions store clones, share functions store the source's own shared_ptr
 D5 deletion by index set: sorted copy, descending traversal, range guard
 D6 owners call the list operation first and notify only after it returned normally
"""
import re
from .facts import kids, strip, walk, is_call, render, local_inits, AnalysisBroken
from . import e1

EXPLANATION = ("Static analysis of structural clauses of C02 (ParameterList.cpp, AbstractParametrizable.h): D1 each bulk setter has a validation loop that "
               "dominates the apply loop, over the same range and filter, testing the TARGET's constraint against the very value later stored; D2 the changed flag, the "
               "store and the changed position are written together under 'value differs' and the position counter advances exactly once per iteration; D3 every "
               "insertion into parameters_ in the whole program is guarded by !hasParameter(name) or is a whole-list / sub-list copy of a unique list; D4 copy functions "
               "store clone() results, share functions the source's own pointer; D5 index-set deletion sorts a copy, walks it descending and range-checks each index; "
               "D6 owners notify only after the list operation returned. NOT decided: 'exactly the named entries' as a value statement, precision>0 corner cases, "
               "atomicity when an alias listener throws in the middle of the apply pass, setParameter(index, param) replacing without a name check (outside the property's operation list).")

PL = "bpp::ParameterList"
FIELD = PL + "::parameters_"


def _loops(f):
    """loop statements of the function body (for / range-for / while), outermost only, in source order"""
    out = []

    def rec(n):
        for c in kids(n):
            if c["k"] in ("ForStmt", "CXXForRangeStmt", "WhileStmt"):
                out.append(c)
            else:
                rec(c)
    rec(f.body)
    return out


def _loop_head(f, loop):
    cfg = f.cfg
    for b, blk in cfg.blocks.items():
        if blk.get("term") == loop["id"] and len(cfg.succ[b]) >= 2:
            return b
    if "cond" in loop:
        return cfg.stmt_block(f.nodes[loop["cond"]])
    return None


def _loop_range(f, loop, sub):
    """canonical description of what the loop runs over: ('whole', container text, element token) for the three spellings of
    'every element of X' (range-for, begin()..end() iterators, 0..size() index), otherwise ('other', text, None)"""
    if loop["k"] == "CXXForRangeStmt":
        ri = f.nodes.get(loop["rangeinit"]) if isinstance(loop.get("rangeinit"), int) else loop.get("rangeinit")
        lv = loop.get("loopvar")
        lv = f.nodes.get(lv) if isinstance(lv, int) else lv
        name = (lv.get("decls") or [lv])[0].get("name") if lv else None
        return ("whole", render(ri, sub).replace("this.", "") if ri is not None else "?", ("\\b%s\\b" % name) if name else None)
    init = f.nodes.get(loop.get("init")) if "init" in loop else None
    cond = f.nodes.get(loop.get("cond")) if "cond" in loop else None
    if init is not None and init["k"] == "DeclStmt" and init["decls"] and cond is not None:
        d = init["decls"][0]
        it, var = render(d.get("init"), sub), d["name"]
        ct = render(cond, sub)
        m = re.match(r"^(.*)\.begin\(\)$", it)
        if m and ct in ("(%s < %s.end())" % (var, m.group(1)), "(%s != %s.end())" % (var, m.group(1))):
            return ("whole", m.group(1).replace("this.", ""), "\\b%s\\b" % var)
        m = re.match(r"^\((\w+) < (.*)\.size\(\)\)$", ct)
        if m and m.group(1) == var and it in ("0", "0UL", "0U"):
            return ("whole", m.group(2).replace("this.", ""), "%s[%s]" % (m.group(2), var))
    return ("other", "%s; %s" % (render(init) if init else "", render(cond) if cond else ""), None)


def _canon(text, rng):
    """rendered expression with the loop's element spelled '@e' (so that the three loop spellings compare equal)"""
    if rng[0] != "whole" or not rng[2]:
        return text
    tok = rng[2]
    if tok.startswith("\\b"):
        out = re.sub(r"\(\*%s\)|\*%s|%s" % (tok, tok, tok), "@e", text)
    else:
        out = text.replace("(*" + tok + ")", "@e").replace("*" + tok, "@e").replace(tok, "@e")
    return out.replace("(@e)", "@e")


def _filters(f, node, loop, sub):
    """branch facts that hold on every path from the loop head to `node` within one iteration
    (nested ifs and 'if (c) continue;' give the same facts); locals are resolved to their initialisers"""
    cfg = f.cfg
    head = _loop_head(f, loop)
    if head is None:
        return None
    body = e1.natural_loops(cfg).get(head, set())
    facts = e1.loop_facts(cfg, head, body)
    b = cfg.stmt_block(node)
    out = set()
    for (text, truth) in facts.get(b, set()):
        out.add((text, truth))
    # re-render with local substitution for comparison across loops
    res = set()
    rng = _loop_range(f, loop, sub)
    for p in body:
        for s_ in cfg.succ[p]:
            for t, tr, nd in e1.edge_facts(cfg, p, s_):
                if (t, tr) in out and "__begin" not in t and "__end" not in t:
                    res.add((_canon(render(nd, sub), rng), tr))
    return res


def _d1(chk, fb):
    names = ["setAllParametersValues", "setParametersValues", "matchParametersValues", "testParametersValues"]
    n_ok = 0
    for name in names:
        f = fb.q1(PL + "::" + name)
        sub = local_inits(f)
        # locals declared inside loop bodies (Parameter* p = &parameter(..)) are resolved as well
        for n in f.all_nodes():
            if n["k"] == "DeclStmt":
                for d in n["decls"]:
                    if d.get("init") is not None and d["id"] not in sub:
                        ws = [w for w in f.all_nodes() if w["k"] in ("BinaryOperator", "CompoundAssignOperator") and w.get("op", "").endswith("=") and w["op"] not in ("==", "!=", "<=", ">=")
                              and strip(kids(w)[0])["k"] == "DeclRefExpr" and strip(kids(w)[0])["decl"]["id"] == d["id"]]
                        if not ws and ("*" in d["ty"] or "&" in d["ty"]) and "bpp::Parameter" in d["ty"] and "iterator" not in d["ty"]:
                            sub[d["id"]] = d["init"]
        loops = _loops(f)
        rng = {lp["id"]: _loop_range(f, lp, sub) for lp in loops}

        def R(node, lp):
            t = _canon(render(node, sub), rng[lp["id"]])
            return t.replace("(*@e)", "@e").replace("&", "").replace("(*", "(").replace("*", "")
        # validation sites: throw of ConstraintException guarded by hasConstraint && !isCorrect
        checks = []
        for lp in loops:
            for n in walk(lp):
                if n["k"] == "IfStmt":
                    then = strip(f.nodes[n["then"]])
                    if then["k"] == "CompoundStmt" and len(kids(then)) == 1:
                        then = strip(kids(then)[0])
                    thr = [then] if then["k"] == "CXXThrowExpr" else []
                    if not thr or "ConstraintException" not in (thr[0].get("thrown") or ""):
                        continue
                    cond = strip(f.nodes[n["cond"]])
                    T = V = None
                    if cond["k"] == "BinaryOperator" and cond["op"] == "&&":
                        a_, b_ = [strip(x) for x in kids(cond)]
                        if is_call(a_) and a_["callee"]["name"] == "hasConstraint" and b_["k"] == "UnaryOperator" and b_["op"] == "!":
                            c = strip(kids(b_)[0])
                            if is_call(c) and c["callee"]["name"] == "isCorrect":
                                gc = strip(f.obj(c))
                                while gc is not None and is_call(gc) and gc["callee"]["name"] in ("operator->", "operator*", "get"):
                                    gc = strip(f.obj(gc))
                                if is_call(gc) and gc["callee"]["name"] in ("getConstraint", "constraint"):
                                    T1 = R(f.obj(a_), lp)
                                    T2 = R(f.obj(gc), lp)
                                    if T1 == T2:
                                        T = T1
                                        V = R(f.args(c)[0], lp)
                    checks.append((lp, n, T, V))
        applies = []
        for lp in loops:
            for n in walk(lp):
                if is_call(n) and n["callee"]["name"] == "setValue" and n["callee"].get("cls", "").startswith("bpp::Parameter"):
                    applies.append((lp, n, R(f.obj(n), lp), R(f.args(n)[0], lp)))
        anywhere = [n for n in f.calls() if n["callee"]["name"] == "setValue" and n["callee"].get("cls", "").startswith("bpp::Parameter")]
        delegates = [n for n in f.calls() if n["callee"].get("inrepo") and n["callee"].get("cls") == PL and n["callee"]["name"] not in ("hasParameter", "parameter", "getParameter", "size", "whichParameterHasName")]
        if name == "testParametersValues":
            # sibling: has the validation loop, applies nothing
            if checks and all(c[2] for c in checks) and not anywhere:
                chk.proved("D1", f.key, "validation-sibling", f.loc(), "validates %s against %s's constraint" % (checks[0][3], checks[0][2]))
                n_ok += 1
            elif anywhere:
                chk.refuted("D1", f.key, "validation-sibling", f.loc(anywhere[0]), "testParametersValues stores a value (%s): the test-only sibling must not modify the list" % render(anywhere[0])[:60])
            else:
                chk.unknown("D1", f.key, "validation-sibling", f.loc(), "validation not in the recognised form")
            continue
        if not applies:
            if anywhere or delegates:
                chk.unknown("D1", f.key, "validate-then-apply", f.loc(), "stores are not inside a recognised loop (or are delegated): %s" % [render(x)[:40] for x in (anywhere + delegates)[:2]])
            else:
                chk.refuted("D1", f.key, "no-apply", f.loc(), "bulk setter never calls Parameter::setValue, directly or through another list operation")
            continue
        if not checks:
            helpers = [n for n in f.calls() if n["callee"]["name"] in ("testParametersValues",) or (n["callee"].get("inrepo") and "isCorrect" in " ".join(c2["callee"]["name"] for t in fb.targets(n) if t.body is not None for c2 in t.calls()))]
            if helpers:
                chk.unknown("D1", f.key, "validate-then-apply", f.loc(), "validation delegated to %s" % render(helpers[0])[:50])
            else:
                chk.refuted("D1", f.key, "validate-then-apply", f.loc(), "bulk setter applies values without a validation pass (no constraint test that throws before the stores, here or in a callee)")
            continue
        for lp2, call, T2, V2 in applies:
            ok = None
            why = []          # definite defects
            unsure = []       # forms that could not be compared
            for lp1, ifn, T1, V1 in checks:
                if T1 is None:
                    unsure.append("validation condition at %s is not in the form 'T->hasConstraint() && !T->getConstraint()->isCorrect(V)'" % f.loc(ifn))
                    continue
                if lp1 is lp2:
                    why.append("validation and store share one loop (%s): earlier entries are already stored when a later one is rejected" % f.loc(lp1))
                    continue
                if loops.index(lp1) > loops.index(lp2):
                    why.append("validation loop follows the apply loop")
                    continue
                r1, r2 = rng[lp1["id"]], rng[lp2["id"]]
                if r1[0] != "whole" or r2[0] != "whole":
                    unsure.append("loop range not in a recognised form (%s / %s)" % (r1[1][:40], r2[1][:40]))
                    continue
                if r1[1] != r2[1]:
                    why.append("validation loop runs over %s, the apply loop over %s" % (r1[1], r2[1]))
                    continue
                if T1 != T2:
                    why.append("validation tests the constraint of '%s' but the value is stored into '%s'" % (T1, T2))
                    continue
                if V1 != V2:
                    why.append("validation tests the value '%s' but '%s' is stored" % (V1, V2))
                    continue
                f1 = _filters(f, ifn, lp1, sub)
                f2 = _filters(f, call, lp2, sub)
                if f1 is None or f2 is None:
                    unsure.append("loop filters not readable")
                    continue
                if not set(f1) <= set(f2):
                    why.append("validation is restricted by %s which the apply pass is not" % sorted(set(f1) - set(f2)))
                    continue
                # the validation pass must look at every entry: no way out of its loop other than the rejecting throw
                early = [x for x in walk(lp1) if (x["k"] == "BreakStmt" and f.enclosing(x, ("ForStmt", "WhileStmt", "DoStmt", "CXXForRangeStmt", "SwitchStmt")) is lp1)
                         or (x["k"] == "ReturnStmt" and f.enclosing(x, ("LambdaExpr",)) is None)]
                if early:
                    why.append("the validation loop can be left at %s before every entry was tested, the apply loop still stores all of them" % f.loc(early[0]))
                    continue
                # the validation loop must dominate the apply loop (completed before the first store)
                cfg = f.cfg
                b1, b2 = _loop_head(f, lp1), cfg.stmt_block(call)
                if b1 is None or b2 is None or not cfg.dominates(b1, b2):
                    why.append("validation loop does not dominate the store")
                    continue
                ok = (T1, V1)
                break
            if ok:
                chk.proved("D1", f.key, "validate-then-apply", f.loc(call), "store %s.setValue(%s) preceded by a complete validation pass on the same target and value" % (T2, V2))
                n_ok += 1
            elif why and not unsure:
                chk.refuted("D1", f.key, "validate-then-apply", f.loc(call), "; ".join(why), witness={"store": "%s.setValue(%s)" % (T2, V2)})
            else:
                chk.unknown("D1", f.key, "validate-then-apply", f.loc(call), "; ".join(unsure + why) or "no matching validation pass recognised")
        # the apply pass may not discover a refusal of its own: a look-up that throws for an absent name (X.parameter(K)), made for
        # every entry of the apply loop, is made by the validation pass for every entry too - under no condition the apply pass
        # does not have.  Otherwise an absent name is found only after earlier entries were stored
        if name != "testParametersValues" and applies and checks:
            def lookups(lp):
                out = []
                for x in walk(lp):
                    if is_call(x) and x["callee"]["name"] in ("parameter", "getParameter") and x["callee"].get("cls") == PL and f.args(x) and "basic_string" in (x["callee"].get("ptypes") or [""])[0]:
                        out.append(x)
                return out
            lp2 = applies[0][0]
            for c2 in lookups(lp2):
                t2 = R(c2, lp2)
                f2 = _filters(f, c2, lp2, sub)
                cands = [(lp1, c1) for lp1 in loops if lp1 is not lp2 and loops.index(lp1) < loops.index(lp2) for c1 in lookups(lp1) if R(c1, lp1) == t2]
                if not cands or f2 is None:
                    continue
                best = None
                for lp1, c1 in cands:
                    f1 = _filters(f, c1, lp1, sub)
                    if f1 is None:
                        best = "?"
                        break
                    import re as _re
                    # (the loop's own continuation test is not a filter of the entry)
                    nz = lambda F: {(t_.replace("(*@e)", "@e").replace("&", "").replace("(*", "(").replace("*", ""), tr_) for t_, tr_ in F
                                    if not _re.match(r"^\(?@[ei] (<|!=|<=) ", t_) and not _re.match(r"^\(?\w+ (<|!=) [\w\.]+\.(size|end)\(\)\)?$", t_)}
                    extra = sorted(nz(f1) - nz(f2))
                    if not extra:
                        best = "ok"
                        break
                    best = (c1, extra)
                if best == "ok":
                    chk.proved("D1", f.key, "lookup-validated:" + t2[:50], f.loc(c2), "the look-up %s of the apply pass is made for every entry by the validation pass" % t2)
                elif best == "?" or best is None:
                    chk.unknown("D1", f.key, "lookup-validated:" + t2[:50], f.loc(c2), "filters of the validation pass not readable")
                else:
                    chk.refuted("D1", f.key, "lookup-validated:" + t2[:50], f.loc(best[0]),
                                "the apply pass looks up %s for every entry (it throws for an absent name), the validation pass only when %s: a name missing from the source is discovered after earlier entries were already stored" % (
                                    t2, ", ".join("%s is %s" % (a_, "true" if b_ else "false") for a_, b_ in best[1])),
                                witness={"history": "target list (a, b) both unconstrained, source list holding only a: the call throws ParameterNotFoundException after a was overwritten"})
    chk.floor("D1", "bulk setters with a matching validation pass", n_ok + sum(1 for s in chk.sites if s["rule"] == "D1" and s["verdict"] != "PROVED"), 4)


def _d2(chk, fb):
    f = fb.q1(PL + "::matchParametersValues")
    sub = local_inits(f)
    cfg = f.cfg
    stores = [n for n in f.calls() if n["callee"]["name"] == "setValue"]
    pushes = [n for n in f.calls() if n["callee"]["name"] == "push_back" and "obj" in n]
    flags = [n for n in walk(f.body) if n["k"] in ("CompoundAssignOperator", "BinaryOperator") and n["op"] in ("|=", "=") and strip(kids(n)[0])["k"] == "DeclRefExpr"
             and strip(kids(n)[0])["decl"]["ty"] in ("bool", "const bool")]
    chk.floor("D2", "store/flag/position sites", min(len(stores), len(pushes), len(flags)), 1)
    if not (stores and pushes and flags):
        return
    st = stores[0]
    for n_ in f.all_nodes():
        if n_["k"] == "DeclStmt":
            for d_ in n_["decls"]:
                if d_.get("init") is not None and d_["id"] not in sub and ("*" in d_["ty"] or "&" in d_["ty"]) and "bpp::Parameter" in d_["ty"] and "iterator" not in d_["ty"]:
                    sub[d_["id"]] = d_["init"]
    LOOPK = ("ForStmt", "CXXForRangeStmt", "WhileStmt")

    def guarded(n):
        """True / False / None (not comparable)"""
        lp = f.enclosing(n, LOOPK)
        if not lp:
            return None
        rg = _loop_range(f, lp, sub)
        obj, val = _canon(render(f.obj(st), sub), rg), _canon(render(f.args(st)[0], sub), rg)
        differs = {"(%s.getValue() != %s)" % (obj, val), "(%s != %s.getValue())" % (val, obj)}
        fl = _filters(f, n, lp, sub)
        if fl is None:
            return None
        if any(c in differs and s_ for c, s_ in fl):
            return True
        # some other value comparison of the two guards it?  then the form is simply not recognised
        if any(".getValue()" in c and ("!=" in c or "==" in c) for c, s_ in fl):
            return None
        return False
    obj0, val0 = render(f.obj(st), sub), render(f.args(st)[0], sub)
    for what, n in [("store", st), ("flag", flags[-1]), ("position", pushes[0])]:
        g = guarded(n)
        if g:
            chk.proved("D2", f.key, "under-value-differs:" + what, f.loc(n), "%s written under '%s.getValue() != %s'" % (what, obj0, val0))
        elif g is None:
            chk.unknown("D2", f.key, "under-value-differs:" + what, f.loc(n), "guard of the %s not in a comparable form" % what)
        else:
            chk.refuted("D2", f.key, "under-value-differs:" + what, f.loc(n), "%s is not written under the test that target and source values differ (%s.getValue() != %s)" % (what, obj0, val0))
    # flag and position must be written exactly where the store happens
    b = {cfg.stmt_block(st)}
    same = cfg.stmt_block(flags[-1]) in b
    if same:
        chk.proved("D2", f.key, "flag-with-store", f.loc(flags[-1]), "flag and store in the same block")
    else:
        chk.refuted("D2", f.key, "flag-with-store", f.loc(flags[-1]), "changed flag is not set in the block that stores the value")
    # reported position = position of the source entry: counter pushed, incremented once per iteration after the push
    pushed = strip(f.args(pushes[0])[0])
    if pushed["k"] != "DeclRefExpr":
        chk.unknown("D2", f.key, "position-lockstep", f.loc(pushes[0]), "pushed position is not a plain counter")
        return
    cid = pushed["decl"]["id"]
    incs = [n for n in walk(f.body) if n["k"] in ("UnaryOperator", "CompoundAssignOperator") and n.get("op") in ("++", "+=") and strip(kids(n)[0])["k"] == "DeclRefExpr" and strip(kids(n)[0])["decl"]["id"] == cid]
    lp = f.enclosing(pushes[0], LOOPK)
    head = _loop_head(f, lp) if lp else None
    if head is None:
        chk.unknown("D2", f.key, "position-lockstep", f.loc(pushes[0]), "loop around the position record not recognised")
        return
    loops = e1.natural_loops(cfg)
    body = loops.get(head, set())
    incb = {cfg.stmt_block(n) for n in incs}
    if len(incs) != 1 or not incb <= body:
        chk.refuted("D2", f.key, "position-lockstep", f.loc(pushes[0]), "position counter '%s' is not incremented exactly once inside the loop" % pushed["decl"]["name"])
        return
    # every cyclic path head -> head passes the increment
    first = [s for s in cfg.succ[head] if s in body and s != head]
    skip = any(e1.path_exists(cfg, s, head, avoid_blocks=incb | (set(cfg.blocks) - body)) for s in first if s not in incb)
    # increment must not precede the push within an iteration
    early = any(e1.path_exists(cfg, ib, cfg.stmt_block(pushes[0]), avoid_blocks={head}) for ib in incb if ib != cfg.stmt_block(pushes[0]))
    if skip:
        chk.refuted("D2", f.key, "position-lockstep", f.loc(incs[0]), "an iteration can return to the loop head without advancing the position counter '%s': later reported positions shift" % pushed["decl"]["name"])
    elif early:
        chk.refuted("D2", f.key, "position-lockstep", f.loc(incs[0]), "position counter is advanced before the position is recorded")
    else:
        chk.proved("D2", f.key, "position-lockstep", f.loc(incs[0]), "counter '%s' advances once on every path round the loop, after the push" % pushed["decl"]["name"])


def _inserted_name(f, call):
    """name expression of the parameter inserted by a push_back / store"""
    return None


COPY_FUNCS = {"ParameterList", "operator=", "createSubList", "getCommonParametersWith", "addParameter", "includeParameters", "setParameter"}
SHARE_FUNCS = {"shareSubList", "shareParameter", "shareParameters"}


def _stored_values(fb, f):
    """(node, value node) for every pointer stored into a parameters_ vector in f"""
    out = []
    for n in f.calls():
        c = n["callee"]
        if c["name"] in ("push_back", "emplace_back") and "obj" in n:
            o = strip(f.obj(n))
            if o["k"] == "MemberExpr" and o["member"]["qname"] == FIELD:
                out.append((n, f.args(n)[0], "push"))
        if c["name"] == "operator=" and "obj" in n:
            o = strip(f.obj(n))
            if is_call(o) and o["callee"]["name"] == "operator[]":
                oo = strip(f.obj(o))
                if oo is not None and oo["k"] == "MemberExpr" and oo["member"]["qname"] == FIELD:
                    out.append((n, f.args(n)[0], "slot"))
    return out


def _is_clone_wrapped(v, f=None, depth=0):
    v = strip(v)
    if v is None:
        return False
    # std::move(x) / a named local holding the freshly built pointer: look at what the local was built from
    if is_call(v) and v["callee"]["qname"] in ("std::move", "std::forward") and kids(v):
        args = [x for x in kids(v) if x["k"] not in ("DeclRefExpr",) or x.get("decl", {}).get("kind") != "function"]
        inner = strip(args[-1]) if args else None
        return _is_clone_wrapped(inner, f, depth + 1) if inner is not None and depth < 3 else False
    if v["k"] == "DeclRefExpr" and v["decl"]["kind"] == "local" and f is not None and depth < 3:
        sub = local_inits(f)
        if v["decl"]["id"] in sub:
            return _is_clone_wrapped(sub[v["decl"]["id"]], f, depth + 1)
        return False
    # shared_ptr<Parameter>(X->clone())
    while v is not None and v["k"] in ("CXXConstructExpr", "CXXTemporaryObjectExpr", "CXXFunctionalCastExpr") and kids(v):
        v = strip(kids(v)[0])
    return is_call(v) and v["callee"]["name"] == "clone"


def _d3_d4(chk, fb):
    n_ins = 0
    for f in sorted(fb.concrete_fns(), key=lambda x: x.key):
        stored = _stored_values(fb, f)
        if not stored:
            continue
        cfg = f.cfg
        for n, v, kind in stored:
            n_ins += 1
            into_this = strip(f.obj(n) if kind == "push" else f.obj(strip(f.obj(n))))["member"]["this"]
            vtxt = render(v)
            clone = _is_clone_wrapped(v, f)
            # ---- D4
            if f.cls == PL and f.name in SHARE_FUNCS:
                if clone:
                    chk.refuted("D4", f.key, "share-stores-source-pointer", f.loc(n), "share function stores a clone: the shared list would not observe the same objects")
                else:
                    chk.proved("D4", f.key, "share-stores-source-pointer", f.loc(n), "stores %s" % vtxt)
            elif f.cls == PL and (f.name in COPY_FUNCS):
                if f.name == "addParameter" and f.params and f.params[0]["ty"].endswith("*"):
                    chk.proved("D4", f.key, "takes-ownership", f.loc(n), "addParameter(Parameter*) adopts the caller's object (documented)")
                elif clone:
                    chk.proved("D4", f.key, "copy-stores-clone", f.loc(n), "stores %s" % vtxt)
                elif any(x["k"] == "MemberExpr" and x["member"]["name"] == "parameters_" and bool(x["member"].get("this")) != bool(into_this) for x in walk(v)) or \
                        any(x["k"] == "MemberExpr" and x["member"]["name"] == "parameters_" and not x["member"].get("this") and not into_this and
                            render(x) != render(f.obj(n) if kind == "push" else f.obj(strip(f.obj(n)))) for x in walk(v)) or \
                        any(is_call(x) and x["callee"]["name"] in ("getParameter", "getSharedParameter") for x in walk(v)):
                    chk.refuted("D4", f.key, "copy-stores-clone", f.loc(n), "copy function stores '%s' (the source's own pointer) instead of a clone(): the result is not independent of its source" % vtxt)
                else:
                    chk.unknown("D4", f.key, "copy-stores-clone", f.loc(n), "stored value '%s' is neither a recognisable clone nor the source's pointer" % vtxt)
            else:
                chk.refuted("D3", f.key, "unclassified-insertion", f.loc(n), "parameters_ written outside the enumerated ParameterList members")
                continue
            # ---- D3
            if f.rec.get("copyctor") or f.rec.get("copyassign"):
                chk.proved("D3", f.key, "whole-list-copy", f.loc(n), "element-wise copy of a whole list")
            elif not into_this and f.name in ("createSubList", "getCommonParametersWith"):
                chk.proved("D3", f.key, "sublist-of-unique-list", f.loc(n), "names come from a list that is itself unique (repeated-free index sets)")
            elif f.name == "setParameter":
                chk.unknown("D3", f.key, "replace-without-name-check", f.loc(n), "setParameter(index, param) replaces an entry without a name check (outside the property's operation list)")
            else:
                # guarded by !hasParameter(<name of inserted>)
                def est(facts):
                    for text, truth, node in facts:
                        if is_call(node) and node["callee"]["name"] == "hasParameter" and truth is False:
                            return True
                    return False
                ok, path = e1.guarded_by(cfg, cfg.stmt_block(n), est)
                # the name tested must be the inserted parameter's name
                sub_ = local_inits(f)
                tested = [render(f.args(x)[0], sub_) for x in f.calls() if x["callee"]["name"] == "hasParameter"]
                base = vtxt
                src = strip(v)
                for _ in range(6):
                    if src is None:
                        break
                    if src["k"] in ("CXXConstructExpr", "CXXTemporaryObjectExpr", "CXXFunctionalCastExpr") and kids(src):
                        src = strip(kids(src)[0])
                    elif is_call(src) and src["callee"]["qname"] in ("std::move", "std::forward") and f.args(src):
                        src = strip(f.args(src)[0])
                    elif src["k"] == "DeclRefExpr" and src["decl"]["kind"] == "local" and src["decl"]["id"] in sub_:
                        src = strip(sub_[src["decl"]["id"]])
                    else:
                        break
                if is_call(src) and src["callee"]["name"] == "clone":
                    base = render(f.obj(src), sub_)
                else:
                    base = render(src, sub_)
                name_ok = any(t == base + ".getName()" for t in tested)
                recognisable = bool(re.match(r"^[\w\.\[\]\(\)\*>-]+$", base)) and "move" not in base
                if ok and name_ok:
                    chk.proved("D3", f.key, "guarded-insertion", f.loc(n), "insertion of %s dominated by !hasParameter(%s.getName())" % (base, base))
                elif not ok:
                    chk.refuted("D3", f.key, "guarded-insertion", f.loc(n), "parameter '%s' can be inserted without testing that its name is absent" % base, witness={"blocks": path})
                elif not recognisable or not tested:
                    chk.unknown("D3", f.key, "guarded-insertion", f.loc(n), "inserted value '%s' / tested names %s not in a comparable form" % (base, tested))
                else:
                    chk.refuted("D3", f.key, "guarded-insertion", f.loc(n), "the name tested with hasParameter (%s) is not the name of the inserted parameter '%s'" % (tested, base))
    chk.floor("D3", "insertions into parameters_", n_ins, 9)
    # copy functions that insert through another member: must use the cloning addParameter(const Parameter&)
    for q, want in [("createSubList", "copy"), ("addParameters", "copy"), ("shareSubList", "share"), ("shareParameters", "share"), ("includeParameters", "copy")]:
        for f in fb.q(PL + "::" + q):
            for n in f.calls():
                c = n["callee"]
                if c.get("cls") != PL:
                    continue
                if c["name"] == "addParameter":
                    byptr = c["ptypes"][0].endswith("*")
                    if want == "copy" and byptr:
                        chk.refuted("D4", f.key, "copy-via-cloning-add", f.loc(n), "copy function hands a raw pointer to addParameter(Parameter*)")
                    elif want == "share":
                        chk.refuted("D4", f.key, "share-via-share", f.loc(n), "share function copies through addParameter")
                    else:
                        chk.proved("D4", f.key, "copy-via-cloning-add", f.loc(n), "addParameter(const Parameter&) clones")
                elif c["name"] == "shareParameter":
                    if want == "copy":
                        chk.refuted("D4", f.key, "copy-via-cloning-add", f.loc(n), "copy function shares the source's parameter object (shareParameter)")
                    else:
                        chk.proved("D4", f.key, "share-via-share", f.loc(n), "shareParameter(%s)" % render(f.args(n)[0]))


def _d5(chk, fb):
    fs = [f for f in fb.q(PL + "::deleteParameters") if "unsigned long" in f.key]
    if len(fs) != 1:
        raise AnalysisBroken("anchor vanished: ParameterList::deleteParameters(vector<size_t>)")
    f = fs[0]
    cfg = f.cfg
    src = f.params[0]["name"]
    copy = None
    for n in walk(f.body):
        if n["k"] == "DeclStmt":
            for d in n["decls"]:
                if d.get("init") is not None and render(d["init"]) in (src, "vector(%s)" % src) or (d.get("init") is not None and src == render(strip(d["init"]))):
                    copy = d
    # an erase made by the single-position overload counts as an erase at its call site
    erases = [n for n in f.calls() if n["callee"]["name"] == "erase" or (n["callee"]["name"] == "deleteParameter" and n["callee"].get("cls") == PL)]
    chk.floor("D5", "erase sites", len(erases), 1)
    sorts = [n for n in f.calls() if n["callee"]["qname"] in ("std::sort", "std::stable_sort")]
    if copy is None:
        others = [d for n in walk(f.body) if n["k"] == "DeclStmt" for d in n["decls"] if "std::vector" in d["ty"] or "std::set" in d["ty"]]
        if others or not erases:
            chk.unknown("D5", f.key, "sorted-copy", f.loc(), "the index set is not copied in the recognised way")
        else:
            chk.refuted("D5", f.key, "sorted-copy", f.loc(), "indices are not copied into a local before sorting (the caller's vector may be unsorted)")
        return
    cname = copy["name"]
    sort_dir = None
    for s_ in sorts:
        a_ = [render(x) for x in f.args(s_)]
        if a_[:2] == ["%s.begin()" % cname, "%s.end()" % cname]:
            sort_dir = "asc" if len(a_) == 2 else ("desc" if "greater" in a_[2] else ("asc" if "less" in a_[2] else None))
        elif a_[:2] == ["%s.rbegin()" % cname, "%s.rend()" % cname] and len(a_) == 2:
            sort_dir = "desc"
    if sort_dir:
        chk.proved("D5", f.key, "sorted-copy", f.loc(sorts[0]), "std::sort over the whole local copy '%s' (%s)" % (cname, "ascending" if sort_dir == "asc" else "descending"))
    elif sorts:
        chk.unknown("D5", f.key, "sorted-copy", f.loc(sorts[0]), "sort call not in a recognised form")
    else:
        chk.refuted("D5", f.key, "sorted-copy", f.loc(), "the local index copy is never sorted: indices are erased in the caller's order, each erase shifting the positions of the later ones")
    for e in erases:
        lp = f.enclosing(e, ("ForStmt", "WhileStmt", "CXXForRangeStmt"))
        trav = None
        if lp is not None and lp["k"] == "ForStmt":
            init = f.nodes.get(lp.get("init"))
            cond = f.nodes.get(lp.get("cond"))
            if init is not None and init["k"] == "DeclStmt" and init["decls"]:
                it = render(init["decls"][0].get("init"))
                ct = render(cond) if cond is not None else ""
                if it == "%s.rbegin()" % cname and "%s.rend()" % cname in ct:
                    trav = "rev"
                elif it == "%s.begin()" % cname and "%s.end()" % cname in ct:
                    trav = "fwd"
                elif it in ("0", "0UL") and "%s.size()" % cname in ct:
                    trav = "fwd"
        elif lp is not None and lp["k"] == "CXXForRangeStmt":
            ri = f.nodes.get(lp["rangeinit"]) if isinstance(lp.get("rangeinit"), int) else lp.get("rangeinit")
            if ri is not None and render(ri) == cname:
                trav = "fwd"
        descending = None if (sort_dir is None or trav is None) else ((sort_dir, trav) in (("asc", "rev"), ("desc", "fwd")))
        if descending:
            # sort must precede the loop
            if all(e1.before_in_function(cfg, s, e) for s in sorts):
                chk.proved("D5", f.key, "descending-traversal", f.loc(e), "erase walks the indices from the largest to the smallest (%s sort, %s traversal)" % (sort_dir, trav))
            else:
                chk.refuted("D5", f.key, "descending-traversal", f.loc(e), "sort does not precede the erase loop")
        elif descending is None:
            chk.unknown("D5", f.key, "descending-traversal", f.loc(e), "sort order / traversal direction not recognised")
        else:
            chk.refuted("D5", f.key, "descending-traversal", f.loc(e), "indices are erased from the smallest to the largest (%s sort, %s traversal): an erase shifts the positions of later indices" % (sort_dir, trav))
        idx = None
        for x in walk(e):
            if x["k"] in ("CXXStaticCastExpr", "CStyleCastExpr", "CXXFunctionalCastExpr"):
                idx = render(kids(x)[0])
        sub = local_inits(f)

        # (the size may be held in a const local: 'const size_t count = size(); if (index >= count) throw')
        sub_other = {k_: v_ for k_, v_ in sub.items() if not any(dn_["k"] == "DeclStmt" and any(d_["id"] == k_ and d_["name"] == idx for d_ in dn_["decls"]) for dn_ in f.all_nodes())}

        def est(facts, idx=idx):
            for text, truth, node in facts:
                texts = {text}
                if node is not None:
                    texts.add(render(node, sub_other))
                for tx in texts:
                    tx = tx.replace("this.", "")
                    if idx and tx in ("(%s >= size())" % idx, "(size() <= %s)" % idx) and truth is False:
                        return True
                    if idx and tx in ("(%s < size())" % idx, "(size() > %s)" % idx) and truth is True:
                        return True
            return False
        if e["callee"]["name"] == "deleteParameter":
            # the range test is made by the single-position overload
            ts = [t for t in fb.targets(e, static_type_only=True) if t.body is not None]
            inner_ok = False
            for t in ts:
                pn_ = t.params[0]["name"] if t.params else None
                for x in t.calls():
                    if x["callee"]["name"] == "erase" and pn_:
                        g_, _ = e1.guarded_by(t.cfg, t.cfg.stmt_block(x), lambda facts, pn_=pn_: any((tt in ("(%s >= this.size())" % pn_, "(%s >= size())" % pn_) and tr is False) or (tt in ("(%s < this.size())" % pn_, "(%s < size())" % pn_) and tr is True) for tt, tr, _ in facts))
                        inner_ok = inner_ok or g_
            if inner_ok:
                chk.proved("D5", f.key, "index-guard", f.loc(e), "the position is range-tested by deleteParameter(size_t) before it erases")
            else:
                chk.unknown("D5", f.key, "index-guard", f.loc(e), "erase delegated to %s: its range test was not recognised" % render(e)[:40])
            continue
        ok, path = e1.guarded_by(cfg, cfg.stmt_block(e), est)
        if ok:
            chk.proved("D5", f.key, "index-guard", f.loc(e), "erase of index '%s' dominated by '%s < size()'" % (idx, idx))
        elif idx is None:
            chk.unknown("D5", f.key, "index-guard", f.loc(e), "the erased position is not in a form this rule reads")
        else:
            chk.refuted("D5", f.key, "index-guard", f.loc(e), "erase at begin()+%s without a dominating range test" % idx, witness={"blocks": path})


def _d6(chk, fb):
    AP = "bpp::AbstractParametrizable"
    table = {"setAllParametersValues": "setAllParametersValues", "setParametersValues": "setParametersValues",
             "setParameterValue": "setParameterValue", "matchParametersValues": "matchParametersValues"}
    n = 0
    for name, listop in table.items():
        f = fb.q1(AP + "::" + name)
        cfg = f.cfg
        ops = [c for c in f.calls() if c["callee"].get("cls") == PL and c["callee"]["name"] == listop and render(f.obj(c)) == "parameters_"]
        fires = [c for c in f.calls() if c["callee"]["name"] == "fireParameterChanged"]
        if not ops:
            chk.refuted("D6", f.key, "forwards-to-list", f.loc(), "owner no longer forwards to ParameterList::%s on its own list" % listop)
            continue
        n += 1
        op = ops[0]
        if not fires:
            chk.refuted("D6", f.key, "notifies", f.loc(), "owner updates its list without calling fireParameterChanged")
            continue
        bad = [x for x in fires if not (e1.before_in_function(cfg, op, x) and not e1.before_in_function(cfg, x, op))]
        if bad:
            chk.refuted("D6", f.key, "notify-after-update", f.loc(bad[0]), "fireParameterChanged can run before the list operation has returned normally (a rejected update would still notify)")
        else:
            chk.proved("D6", f.key, "notify-after-update", f.loc(fires[0]), "list operation precedes every notification")
        if name in ("setAllParametersValues", "setParametersValues"):
            a = render(f.args(op)[0])
            b = render(f.args(fires[0])[0])
            if a == b == f.params[0]["name"]:
                chk.proved("D6", f.key, "same-parameters", f.loc(fires[0]), "notifies with the list that was applied")
            else:
                chk.refuted("D6", f.key, "same-parameters", f.loc(fires[0]), "applies '%s' but notifies with '%s'" % (a, b))
        if name == "matchParametersValues":
            sub = local_inits(f)
            # notification guarded by the returned flag and built from the positions the list reported
            est = lambda facts: any(truth is True and render(node, sub) == render(op, sub) for _, truth, node in facts)
            ok, _ = e1.guarded_by(cfg, cfg.stmt_block(fires[0]), est)
            arg = render(f.args(fires[0])[0], sub)
            posarg = render(f.args(op)[1], sub) if len(f.args(op)) > 1 else "?"
            uses_positions = "shareSubList" in arg and f.params[0]["name"] + ".shareSubList" in arg
            if ok and uses_positions:
                chk.proved("D6", f.key, "notify-iff-changed", f.loc(fires[0]), "notification under the returned flag with %s" % arg)
            else:
                chk.refuted("D6", f.key, "notify-iff-changed", f.loc(fires[0]), "notification is not restricted to 'something changed' with the reported positions of the source list (%s)" % arg)
    chk.floor("D6", "owner entry points", n, 4)


def _d9(chk, fb):
    """'including or sharing [an existing name] turns into a value update': in every include* / share* member of ParameterList that
    branches on hasParameter(name) with an insertion on the absent side, the present side stores through Parameter::setValue
    (directly or through setParameterValue), the one store that tests the target's constraint.  A whole-object assignment
    (Parameter::operator=) or a replaced pointer there carries value, constraint and listeners over without any test: refuted.
    Members that only delegate each element to such a member are proved by delegation"""
    PL = "bpp::ParameterList"
    fs = [f for f in fb.concrete_fns() if f.cls == PL and f.body is not None and (f.name.startswith("include") or f.name.startswith("share")) and "SubList" not in f.name]
    n = 0

    def reaches_setvalue(g, node, depth=0):
        for c in walk(node):
            if not is_call(c):
                continue
            if c["callee"]["name"] == "setValue" and (c["callee"].get("cls") or "").startswith("bpp::Parameter"):
                return True
            if depth < 2 and c["callee"].get("cls") == PL and c["callee"].get("inrepo") and c["callee"]["name"].startswith("set"):
                for t in fb.targets(c, static_type_only=True):
                    if t.body is not None and t.key != g.key and reaches_setvalue(t, t.body, depth + 1):
                        return True
        return False
    for f in sorted(fs, key=lambda x: x.key):
        sites = []
        for iff in [x for x in walk(f.body) if x["k"] == "IfStmt" and "else" in x]:
            ct = render(f.nodes[iff["cond"]], local_inits(f))
            if "hasParameter(" not in ct:
                continue
            neg = ct.startswith("(!") or ct.startswith("!")
            present, absent = (f.nodes[iff["else"]], f.nodes[iff["then"]]) if neg else (f.nodes[iff["then"]], f.nodes[iff["else"]])
            if not any(is_call(c) and c["callee"]["name"] in ("push_back", "emplace_back", "insert") for c in walk(absent)):
                continue
            sites.append((iff, present))
        if not sites:
            deleg = [c for c in f.calls() if c["callee"].get("cls") == PL and (c["callee"]["name"].startswith("include") or c["callee"]["name"].startswith("share")) and "SubList" not in c["callee"]["name"]]
            if deleg:
                n += 1
                chk.proved("D9", f.key, "collision-is-value-update", f.loc(deleg[0]), "delegates each element to %s" % deleg[0]["callee"]["name"])
            continue
        for iff, present in sites:
            n += 1
            whole = [c for c in walk(present) if is_call(c) and c["callee"]["name"] == "operator=" and (c["callee"].get("cls") or "") in ("bpp::Parameter", "bpp::AutoParameter")]
            repl = [c for c in walk(present) if (is_call(c) and c["callee"]["name"] in ("operator=", "reset") and "obj" in c and "parameters_" in render(f.obj(c)))
                    or (c["k"] == "BinaryOperator" and c.get("op") == "=" and "parameters_" in render(kids(c)[0]))]
            if reaches_setvalue(f, present) and not whole and not repl:
                chk.proved("D9", f.key, "collision-is-value-update", f.loc(iff), "an existing name is updated through Parameter::setValue (constraint tested)")
            elif whole or repl:
                b = (whole + repl)[0]
                chk.refuted("D9", f.key, "collision-is-value-update", f.loc(b),
                            "on a name collision %s stores with '%s' instead of a value update through setValue: value, precision, constraint and listeners of the existing entry are replaced and the value is never tested against the entry's constraint" % (f.name, render(b)[:70]),
                            witness={"history": "list {a in [0,1] = 0.5}; %s(list {a = 7})" % f.name})
            else:
                chk.unknown("D9", f.key, "collision-is-value-update", f.loc(iff), "how the existing entry is updated is not in a recognised form")
    chk.floor("D9", "include/share members", n, 3)


def _d7(chk, fb):
    """'adding a parameter whose name is already present is refused': every ParameterList::addParameter* overload either
    throws ParameterException under hasParameter(<name of the added parameter>) before inserting, or delegates each
    element to an overload that does; it never routes through the update-on-collision functions (share*/include*)"""
    PL = "bpp::ParameterList"
    fs = [f for f in fb.concrete_fns() if f.cls == PL and f.body is not None and f.name in ("addParameter", "addParameters")]
    chk.floor("D7", "ParameterList::addParameter* overloads", len(fs), 3)
    for f in sorted(fs, key=lambda x: x.key):
        cfg = f.cfg
        soft = [c for c in f.calls() if c["callee"]["name"] in ("shareParameter", "shareParameters", "includeParameters", "setParameterValue", "setParameter")]
        deleg = [c for c in f.calls() if c["callee"]["name"] in ("addParameter", "addParameters") and c["callee"].get("cls") == PL]
        throws = []
        for t in walk(f.body):
            if t["k"] == "CXXThrowExpr" and "ParameterException" in (str(t.get("thrown")) + render(t)):
                iff = f.enclosing(t, ("IfStmt",))
                if iff is not None and "hasParameter(" in render(f.nodes[iff["cond"]]) and not render(f.nodes[iff["cond"]]).startswith("(!"):
                    throws.append((t, iff))
        ins = [c for c in f.calls() if c["callee"]["name"] in ("push_back", "emplace_back", "insert") and "obj" in c and "parameters_" in render(f.obj(c))]
        if soft:
            chk.refuted("D7", f.key, "add-refuses-duplicates", f.loc(soft[0]), "%s goes through %s, which turns a name collision into a value update: a duplicate name is silently accepted and the existing value overwritten instead of being refused" % (
                f.name, soft[0]["callee"]["name"]), witness={"history": "list {a=1}; addParameter(new Parameter(\"a\", 5))"})
        elif ins and throws and all(cfg.dominates(cfg.stmt_block(f.nodes[iff["cond"]]), cfg.stmt_block(i_)) for i_ in ins for _, iff in throws[:1]):
            chk.proved("D7", f.key, "add-refuses-duplicates", f.loc(throws[0][0]), "throws ParameterException under hasParameter(name) before the insertion")
        elif deleg and not ins:
            chk.proved("D7", f.key, "add-refuses-duplicates", f.loc(deleg[0]), "delegates to %s" % deleg[0]["callee"]["name"])
        elif ins:
            chk.refuted("D7", f.key, "add-refuses-duplicates", f.loc(ins[0]), "%s inserts into parameters_ without a preceding 'hasParameter(name) -> throw ParameterException': a second parameter of the same name is accepted" % f.name,
                        witness={"history": "addParameter twice with the same name"})
        else:
            chk.unknown("D7", f.key, "add-refuses-duplicates", f.loc(), "neither an insertion nor a delegation recognised")


def _d8(chk, fb):
    """positional bulk erase: erasing position p shifts every later position, so a loop that erases the positions of a caller-
    supplied index set must visit them in descending order: a sorted copy walked backwards (or sorted descending walked
    forwards).  Visiting the caller's order is refuted; the largest index is then also the first one range-checked, so a refused
    call has erased nothing"""
    n = 0
    for f in fb.q(PL + "::deleteParameters"):
        pos = [p_ for p_ in f.params if re.search(r"vector<(unsigned long|size_t|unsigned int)", p_.get("ty", ""))]
        if not pos or f.body is None:
            continue
        cfg = f.cfg
        erases = [c for c in f.calls() if (c["callee"]["name"] == "erase" and "obj" in c and render(f.obj(c)) == "parameters_") or c["callee"]["name"] == "deleteParameter"]
        for er in erases:
            lp = f.enclosing(er, ("ForStmt", "CXXForRangeStmt", "WhileStmt"))
            if lp is None:
                continue
            n += 1
            # what does the loop walk over?
            txt = ""
            reverse = False
            if lp["k"] == "CXXForRangeStmt":
                txt = render(f.nodes[lp["rangeinit"]]) if isinstance(lp.get("rangeinit"), int) else ""
            elif lp.get("init") is not None:
                init = f.nodes[lp["init"]]
                it = render(init["decls"][0]["init"]) if init["k"] == "DeclStmt" and init["decls"] and init["decls"][0].get("init") is not None else ""
                m = re.match(r"^(\w+)\.(c?r?begin)\(\)$", it)
                if m:
                    txt, reverse = m.group(1), "r" in m.group(2)
                else:
                    m = re.search(r"(\w+)\.size\(\)", render(f.nodes[lp["cond"]]) if lp.get("cond") is not None else "")
                    txt = m.group(1) if m else ""
                    if it and re.search(r"\.size\(\)", it):
                        m2 = re.match(r"^\(?(\w+)\.size\(\)", it)
                        txt, reverse = (m2.group(1) if m2 else txt), True
            con = "positional-erase-order"
            if not txt:
                chk.unknown("D8", f.key, con, f.loc(lp), "the container of positions walked by the erasing loop is not recognised")
                continue
            sorts = [c for c in f.calls() if c["callee"]["name"] == "sort" and f.args(c) and render(f.args(c)[0]) == txt + ".begin()"]
            head = cfg.stmt_block(f.nodes[lp["cond"]]) if lp.get("cond") is not None else cfg.stmt_block(er)
            sorted_before = [c for c in sorts if cfg.dominates(cfg.stmt_block(c), head)]
            desc = any(len(f.args(c)) >= 3 and "greater" in render(f.args(c)[2]) for c in sorted_before)
            if sorted_before and (reverse != desc):
                chk.proved("D8", f.key, con, f.loc(er), "positions are erased from a sorted copy '%s' in descending order" % txt)
            elif not sorted_before and txt == pos[0]["name"]:
                chk.refuted("D8", f.key, con, f.loc(er),
                            "the positions are erased in the order the caller listed them ('%s' is walked %s, no sort): after erasing a position every larger one has shifted, so an index set that is not in %s order removes other entries or is refused half-way" % (
                                txt, "backwards" if reverse else "forwards", "ascending" if reverse else "descending"),
                            witness={"input": "deleteParameters({3, 1}) on a list of six"})
            elif sorted_before and reverse == desc:
                chk.refuted("D8", f.key, con, f.loc(er), "the sorted positions are erased in ascending order: each erasure shifts the positions still to be erased", witness={"input": "deleteParameters({1, 3})"})
            else:
                chk.unknown("D8", f.key, con, f.loc(er), "order of the erased positions not established (container '%s')" % txt)
    chk.floor("D8", "positional bulk erase loops", n, 1)


def run(chk, fb, tier):
    chk.rule("D1", "bulk setters: a validation loop (target's constraint, value later stored, same range and filter) dominates the apply loop and is disjoint from it")
    chk.rule("D2", "matchParametersValues: flag, store and position recorded together under 'values differ'; the position counter advances exactly once per iteration, after the push")
    chk.rule("D3", "every insertion into ParameterList::parameters_ (whole program) is guarded by !hasParameter(name of the inserted) or copies a whole/sub list of a unique list")
    chk.rule("D4", "copy functions store shared_ptr(X->clone()); share functions store the source's shared_ptr")
    chk.rule("D5", "deleteParameters(indices): sorted local copy, reverse traversal, each erase guarded by index < size()")
    chk.rule("D6", "AbstractParametrizable::set*/match*: list operation first, fireParameterChanged only after it returned, with the applied / reported parameters")
    fb.need_field(PL, "parameters_")
    _d1(chk, fb)
    _d2(chk, fb)
    _d3_d4(chk, fb)
    _d5(chk, fb)
    _d6(chk, fb)
    chk.rule("D7", "ParameterList::addParameter* refuse an existing name (throw under hasParameter before inserting, or delegate to an overload that does) and never go through the update-on-collision functions")
    _d7(chk, fb)
    chk.rule("D8", "a loop erasing the positions of a caller-supplied index set visits them in descending order (sorted copy walked backwards)")
    _d8(chk, fb)
    chk.rule("D9", "include*/share* members: on an existing name the entry is updated through Parameter::setValue (directly or via setParameterValue), never by whole-object assignment or pointer replacement")
    _d9(chk, fb)
    from . import copyrule
    chk.rule("DC", "copy constructor and copy assignment copy the same members; operator= empties a member container before re-populating it; copy functions never assign through a stored shared pointer")
    copyrule.check(chk, fb, "DC", lambda c: c["file"].endswith(("Bpp/Numeric/ParameterList.h",)), floor=1)
    chk.assume("index sets passed to createSubList/deleteParameters are repeated-free (property quantifier)")
    chk.assume("Parameter::setValue is the only way a bulk setter changes a value (C01-D1 who-writes)")
