"""C15 Tree/DAG queries follow graph-theoretic definitions; re-rooting keeps topology.

 D1 validity-cache invalidation per public entry point (E6): every write of a dependency of isTree()/isDA() made by a
    public member of the tree/DAG containers or of the observers that forward to them is followed by a reachable
    call of the virtual topologyHasChanged_(); the derived topologyHasChanged_ really overrides the base virtual and
    clears the validity flag; the flag is only set true from the predicate itself
 D2 re-rooting preserves edge identities: nothing reachable from rootAt on the graph itself erases from the edge
    table, notifies deleted edges or allocates an edge id
"""
from .facts import kids, strip, walk, is_call, render, local_inits, AnalysisBroken
from . import e1, umbrella
from .e6 import CacheInv

EXPLANATION = ("Static analysis of structural clauses of C15 on TreeGraphImpl<GlobalGraph>, DAGraphImpl<GlobalGraph> and the observers instantiated on them: "
               "D1 for every public entry point, each write to a dependency of the cached validity predicate (tree: root_, nodeStructure_; DAG: nodeStructure_, edgeStructure_), "
               "made directly or in a callee, must be followed by a reachable call of the virtual topologyHasChanged_() before the entry point returns (interprocedural summaries over "
               "the CFG; a write invalidated on some paths only is UNKNOWN, never an alarm); the derived invalidator overrides the base virtual and clears isValid_; isValid_ is set "
               "true only from isTree()/isDA(). D2 from rootAt nothing reaches an erase of the edge table, a deleted-edge notification or the edge-id allocator on the graph itself. "
               "NOT decided: the definitions of father/sons/paths/MRCA on all shapes, correctness of isTree()/isDA() themselves, DAG rootedness cache (isRooted_, outside the statement), "
               "edge objects surviving setFather/addSon histories.")

G = "bpp::GlobalGraph"
TREE = "bpp::TreeGraphImpl<bpp::GlobalGraph>"
DAG = "bpp::DAGraphImpl<bpp::GlobalGraph>"
OBS_T = "bpp::AssociationGraphImplObserver<NN, EE, bpp::TreeGraphImpl<bpp::GlobalGraph>>"
OBS_D = "bpp::AssociationGraphImplObserver<NN, EE, bpp::DAGraphImpl<bpp::GlobalGraph>>"
ATO = "bpp::AssociationTreeGraphImplObserver<NN, EE, bpp::TreeGraphImpl<bpp::GlobalGraph>>"
ADO = "bpp::AssociationDAGraphImplObserver<NN, EE, bpp::DAGraphImpl<bpp::GlobalGraph>>"
SKIPPED = []


def instantiations(fb, headers):
    hs = ["Bpp/Graph/AssociationTreeGraphImplObserver.h"]
    ts = umbrella.list_templates(fb.scratch, fb.src, hs)
    table = {"N": "NN", "E": "EE", "TreeGraphImpl": "bpp::TreeGlobalGraph", "NodeIndex": "ATO::NodeIndex", "EdgeIndex": "ATO::EdgeIndex"}
    txt, done, skipped = umbrella.instantiate_class_members(
        ts, "bpp::AssociationTreeGraphImplObserver", "ATO", table,
        skip=[("getNodePathBetweenTwoNodes", "NodeIndex"), ("getEdgePathBetweenTwoNodes", "NodeIndex"), ("getSubtreeNodes", "NodeIndex")])
    SKIPPED[:] = skipped
    s = "struct NN { int x; }; struct EE { int y; };\n"
    s += "using ATO = bpp::AssociationTreeGraphImplObserver<NN, EE, bpp::TreeGlobalGraph>;\n"
    s += "template class bpp::TreeGraphImpl<bpp::GlobalGraph>;\ntemplate class bpp::DAGraphImpl<bpp::GlobalGraph>;\n"
    s += "template class bpp::AssociationGraphImplObserver<NN, EE, bpp::TreeGlobalGraph>;\n"
    s += "template class bpp::AssociationGraphImplObserver<NN, EE, bpp::DAGlobalGraph>;\n"
    s += "template class bpp::AssociationDAGraphImplObserver<NN, EE, bpp::DAGlobalGraph>;\n"
    s += "namespace bpp {\n" + txt + "}\n"
    return s


def _is_inv(fn, n):
    c = n["callee"]
    return c["name"] == "topologyHasChanged_"


def _entry_points(fb, classes):
    out = []
    for cls in classes:
        c = fb.need_class(cls)
        for m in c["methods"]:
            if m["access"] != 0 or not m["defined"]:
                continue
            f = fb.fns.get(m["key"])
            if f is None or f.body is None or f.rec.get("ctor") or f.rec.get("dtor") or f.rec.get("copyassign"):
                continue
            out.append(f)
    return out


def _d1(chk, fb):
    in_family = lambda t: (t.cls or "").startswith(("bpp::GlobalGraph", "bpp::TreeGraphImpl", "bpp::DAGraphImpl", "bpp::Association"))
    fam = [("tree", {G + "::root_", G + "::nodeStructure_"}, [G, TREE, OBS_T, ATO], TREE),
           ("dag", {G + "::nodeStructure_", G + "::edgeStructure_"}, [G, DAG, OBS_D, ADO], DAG)]
    for name, deps, classes, impl in fam:
        for d in deps:
            fb.need_field(G, d.split("::")[-1])
        ci = CacheInv(fb, deps, _is_inv, in_family)
        eps = _entry_points(fb, classes)
        chk.floor("D1", "public entry points of the %s family" % name, len(eps), 60)
        n_writers = 0
        for f in eps:
            # entry points of GlobalGraph itself are judged in the family context: on a tree/DAG object the virtual
            # call dispatches to the derived invalidator
            s = ci.summary(f)
            touched = bool(s["pending"] or s["maybe"]) or _writes_any(ci, f)
            if not touched:
                continue
            n_writers += 1
            if s["pending"]:
                w = s["pending"][0]
                chk.refuted("D1", f.key, "%s:write-never-invalidated:%s" % (name, w["field"].split("::")[-1]), f.loc(),
                            "public entry point writes %s (%s at %s%s) and no call of topologyHasChanged_() is reachable afterwards: the cached validity of the %s container is not reset" % (
                                w["field"].split("::")[-1], w["text"], w["loc"], (" via " + " <- ".join(w.get("via", []))) if w.get("via") else "", name),
                            witness={"write": w, "history": "query isValid() (caches true), call this entry point so that the predicate changes, query isValid() again"})
            elif s["maybe"]:
                w = s["maybe"][0]
                chk.unknown("D1", f.key, "%s:invalidated-on-some-paths:%s" % (name, w["field"].split("::")[-1]), f.loc(),
                            "write %s at %s is followed by an invalidation on some paths only (the others may be no-ops)" % (w["text"], w["loc"]))
            else:
                chk.proved("D1", f.key, "%s:writes-invalidated" % name, f.loc(), "every dependency write is followed by topologyHasChanged_()")
        chk.floor("D1", "writing entry points of the %s family" % name, n_writers, 12)
        # the invalidator is a real override and clears the flag
        inv = fb.q1(impl + "::topologyHasChanged_")
        ov = inv.rec.get("overrides", [])
        if not any(o.startswith(G + "::topologyHasChanged_") for o in ov):
            chk.refuted("D1", inv.key, name + ":invalidator-overrides-base", inv.loc(),
                        "%s::topologyHasChanged_ does not override GlobalGraph::topologyHasChanged_() const: base-level mutators no longer reach it" % impl)
        else:
            chk.proved("D1", inv.key, name + ":invalidator-overrides-base", inv.loc(), "overrides %s" % ov)
        clears = [n for n in walk(inv.body) if n["k"] == "BinaryOperator" and n["op"] == "=" and render(kids(n)[0]) == "isValid_" and render(kids(n)[1]) == "false"]
        cfgi = inv.cfg
        if clears and all(cfgi.stmt_block(c) in cfgi.pdom.get(cfgi.entry, set()) for c in clears):
            chk.proved("D1", inv.key, name + ":invalidator-clears-flag", inv.loc(), "isValid_ = false unconditionally")
        else:
            chk.refuted("D1", inv.key, name + ":invalidator-clears-flag", inv.loc(), "the invalidator does not unconditionally clear isValid_")
        # isValid_ only becomes true from the predicate
        pred = "isTree" if name == "tree" else "isDA"
        for f, n, kind in fb.field_writes(impl + "::isValid_"):
            if kind in ("init", "default-init"):
                v = render(n)
                ok = v == "false"
                (chk.proved if ok else chk.refuted)("D1", f.key, name + ":flag-source", f.loc(), "isValid_ initialised %s" % v)
                continue
            if n["k"] == "BinaryOperator":
                rhs = strip(kids(n)[1])
                if render(rhs) == "false":
                    continue
                if is_call(rhs) and rhs["callee"]["name"] == pred:
                    chk.proved("D1", f.key, name + ":flag-source", f.loc(n), "isValid_ = %s()" % pred)
                else:
                    chk.refuted("D1", f.key, name + ":flag-source", f.loc(n), "isValid_ is set from '%s', not from the predicate %s()" % (render(rhs), pred))
        # isValid() = cached flag or recomputation
        iv = fb.q1(impl + "::isValid")
        txt = render([n for n in walk(iv.body) if n["k"] == "ReturnStmt"][0]["kids"][0]) if any(n["k"] == "ReturnStmt" for n in walk(iv.body)) else ""
        if "isValid_" in txt and "validate_" in txt and "||" in txt:
            chk.proved("D1", iv.key, name + ":isValid-shape", iv.loc(), "returns %s" % txt)
        else:
            chk.unknown("D1", iv.key, name + ":isValid-shape", iv.loc(), "isValid() is '%s'" % txt)
        # user-provided copy functions of the container must copy the flag with the structure
        c = fb.need_class(impl)
        user_copy = [m for m in c["methods"] if m["name"] in ("operator=",) or (m["name"] == impl.split("::")[-1].split("<")[0] and "const " + impl + " &" in m["key"])]
        if user_copy:
            chk.unknown("D1", impl, name + ":user-copy", "", "user-provided copy functions present: %s" % [m["key"] for m in user_copy])


def _writes_any(ci, f):
    return ci.summary(f).get("has_write", False)


def _d2(chk, fb):
    for impl in (TREE, DAG):
        f = fb.q1(impl + "::rootAt")
        seen = {}
        st = [(f, [])]
        bad = []
        while st:
            g, chain = st.pop()
            if g.key in seen:
                continue
            seen[g.key] = chain
            for n in g.all_nodes():
                if n["k"] in ("UnaryOperator", "CompoundAssignOperator", "BinaryOperator") and n.get("op") in ("++", "+=", "="):
                    l = strip(kids(n)[0])
                    if l is not None and l["k"] == "MemberExpr" and l["member"]["this"] and l["member"]["name"] == "highestEdgeID_":
                        bad.append((g, n, "allocates a new edge id"))
                if not is_call(n):
                    continue
                c = n["callee"]
                # only calls on the graph object itself (implicit this / qualified base call); local copies are other objects
                on_self = "obj" not in n or strip(g.obj(n))["k"] == "CXXThisExpr"
                if "obj" in n and not on_self:
                    o = strip(g.obj(n))
                    r = e1._root_decl(o)
                    if c["name"] == "erase" and r and r[0] == "f" and r[1] == G + "::edgeStructure_":
                        bad.append((g, n, "erases from the edge table"))
                    continue
                if c["name"] == "notifyDeletedEdges":
                    bad.append((g, n, "notifies observers of deleted edges"))
                if c.get("inrepo"):
                    for t in fb.targets(n):
                        if (t.cls or "").startswith(("bpp::GlobalGraph", "bpp::TreeGraphImpl", "bpp::DAGraphImpl")):
                            st.append((t, chain + [g.name]))
        chk.floor("D2", "functions reachable from %s::rootAt" % impl, len(seen), 4)
        if bad:
            g, n, what = bad[0]
            chk.refuted("D2", f.key, "rerooting-keeps-edge-ids", g.loc(n), "re-rooting reaches %s, which %s (%s): edge identities / attached objects are not preserved" % (g.key, what, " -> ".join(seen[g.key] + [g.name])))
        else:
            chk.proved("D2", f.key, "rerooting-keeps-edge-ids", f.loc(), "%d functions reachable on the graph itself; none erases edges, notifies deletions or allocates edge ids" % len(seen))
        # switchNodes rewrites the edge table entry of the SAME edge id it found
    sw = fb.q1(G + "::switchNodes")
    ws = [n for n in sw.calls() if n["callee"]["name"] == "operator=" and "obj" in n and "edgeStructure_[" in render(sw.obj(n))]
    sub = {}
    ok = False
    for n in ws:
        key = render(sw.obj(n))
        if key == "edgeStructure_[foundEdge]" or key.startswith("edgeStructure_["):
            idx = key[len("edgeStructure_["):-1]
            # idx must be a local initialised from the found relation (->second)
            for d in walk(sw.body):
                if d["k"] == "DeclStmt":
                    for dd in d["decls"]:
                        if dd["name"] == idx and dd.get("init") is not None and render(dd["init"]).endswith("second"):
                            ok = True
    direct = any(render(sw.obj(n)).endswith(("->second]", ".second]")) for n in ws)
    if ok or direct:
        chk.proved("D2", sw.key, "switch-same-edge-id", sw.loc(), "edge table entry rewritten under the id read from the existing relation")
    elif ws:
        chk.unknown("D2", sw.key, "switch-same-edge-id", sw.loc(ws[0]), "the index '%s' of the rewritten edge-table entry is not traced to the existing relation" % render(sw.obj(ws[0]))[:60])
    else:
        chk.refuted("D2", sw.key, "switch-same-edge-id", sw.loc(), "switchNodes no longer rewrites the edge table under the id of the existing edge")


def _table_writes(f):
    """writes of f to the node table and the edge table, with the row resolved to the node it belongs to:
    ('fwd'|'bwd', row node text|None, key text, edge text, node)  and  ('edge', edge text, first, second, node)"""
    import re
    base, derived, nodevars = {}, {}, {}
    cfg = f.cfg
    for n in f.all_nodes():
        if n["k"] == "DeclStmt":
            for d in n["decls"]:
                if d.get("init") is not None:
                    m = re.match(r"^nodeStructure_\.find\((\w+)\)$", render(d["init"]))
                    if m:
                        base[d["name"]] = m.group(1)
        if is_call(n) and n["callee"]["name"] == "operator=" and "obj" in n and strip(f.obj(n))["k"] == "DeclRefExpr" and f.args(n):
            o, a = strip(f.obj(n)), strip(f.args(n)[0])
            m = re.match(r"^nodeStructure_\.find\((\w+)\)$", render(a))
            if m:
                derived.setdefault(o["decl"]["name"], []).append((cfg.stmt_block(n), ("node", m.group(1))))
            elif a["k"] == "DeclRefExpr":
                derived.setdefault(o["decl"]["name"], []).append((cfg.stmt_block(n), ("row", a["decl"]["name"])))
        if n["k"] == "BinaryOperator" and n.get("op") == "=":
            l, r = strip(kids(n)[0]), strip(kids(n)[1])
            if l["k"] == "DeclRefExpr" and l["decl"]["kind"] == "local" and r["k"] == "DeclRefExpr":
                nodevars.setdefault(l["decl"]["name"], []).append((cfg.stmt_block(n), r["decl"]["name"]))

    def node_of(row):
        if row in base and row not in derived:
            return base[row]
        if row in derived:
            asg = []
            for blk, (kind, x) in derived[row]:
                nd = x if kind == "node" else (base.get(x) if x not in derived else None)
                if nd is None:
                    return None
                asg.append((blk, nd))
            if len({nd for _, nd in asg}) == 1 and row not in base:
                return asg[0][1]
            # a node variable assigned the matching node in exactly the same blocks names the row
            cands = [v for v, a in nodevars.items() if sorted(a) == sorted(asg)]
            return cands[0] if len(cands) == 1 else None
        return None
    out = []
    pat = re.compile(r"^(?:->)?(?:(\w+)|nodeStructure_\.find\((\w+)\))->second\.(first|second)$")
    pat2 = re.compile(r"^nodeStructure_\[(\w+)\]\.(first|second)$")

    def table(t):
        m = pat.match(t)
        if m:
            return ("fwd" if m.group(3) == "first" else "bwd"), (m.group(2) if m.group(2) else node_of(m.group(1)))
        m = pat2.match(t)
        if m:
            return ("fwd" if m.group(2) == "first" else "bwd"), m.group(1)
        return None
    for n in f.all_nodes():
        if n["k"] == "BinaryOperator" and n.get("op") == "=":
            l = strip(kids(n)[0])
            if is_call(l) and l.get("op") == "[]" and "obj" in l:
                tb = table(render(f.obj(l)))
                if tb:
                    out.append((tb[0], tb[1], render(f.args(l)[0]), render(kids(n)[1]), n))
        if is_call(n) and n["callee"]["name"] in ("insert", "emplace") and "obj" in n:
            tb = table(render(f.obj(n)))
            if tb and f.args(n):
                a = strip(f.args(n)[0])
                parts = [render(x) for x in (f.args(a) if is_call(a) else f.args(n))]
                if len(parts) == 2:
                    out.append((tb[0], tb[1], parts[0], parts[1], n))
        if is_call(n) and n["callee"]["name"] == "operator=" and "obj" in n:
            o = strip(f.obj(n))
            if is_call(o) and o.get("op") == "[]" and render(f.obj(o)) == "edgeStructure_" and f.args(n):
                a = strip(f.args(n)[0])
                parts = [render(x) for x in f.args(a)] if is_call(a) else []
                out.append(("edge", render(f.args(o)[0]), parts[0] if len(parts) == 2 else None, parts[1] if len(parts) == 2 else None, n))
    return out


def _d3(chk, fb):
    """orientation agreement between the two tables of GlobalGraph"""
    ln, le = fb.q1(G + "::linkInNodeStructure_"), fb.q1(G + "::linkInEdgeStructure_")
    wn, we = _table_writes(ln), [w for w in _table_writes(le) if w[0] == "edge"]
    pn = [p["name"] for p in ln.params]
    pe = [p["name"] for p in le.params]
    conv = (len(pn) == 3 and len(pe) == 3 and ("fwd", pn[0], pn[1], pn[2]) in {w[:4] for w in wn} and ("bwd", pn[1], pn[0], pn[2]) in {w[:4] for w in wn}
            and any(w[1] == pe[2] and w[2] == pe[0] and w[3] == pe[1] for w in we))
    n = 0
    for f in fb.concrete_fns():
        if (f.cls or "") != G or f.body is None or f.key in (ln.key, le.key):
            continue
        ws = _table_writes(f)
        for w in [x for x in ws if x[0] == "edge"]:
            n += 1
            _, e, x, y, node = w
            fw = {(a, b) for t, a, b, ee, _ in [z for z in ws if z[0] != "edge"] if t == "fwd" and ee == e}
            bw = {(a, b) for t, a, b, ee, _ in [z for z in ws if z[0] != "edge"] if t == "bwd" and ee == e}
            con = "orientation:edgeStructure_[%s]" % e
            if not conv:
                chk.unknown("D3", f.key, con, f.loc(node), "the link helpers no longer show the convention edge (a,b) <-> forward[a][b], backward[b][a]")
            elif x is None or not (fw or bw):
                chk.unknown("D3", f.key, con, f.loc(node), "the node-table writes of this edge are not in a form this rule reads")
            elif (x, y) in fw and (y, x) in bw:
                chk.proved("D3", f.key, con, f.loc(node), "edge table gets (%s, %s); node table gets forward[%s][%s] and backward[%s][%s] for the same edge" % (x, y, x, y, y, x))
            elif (y, x) in fw or (x, y) in bw:
                chk.refuted("D3", f.key, con, f.loc(node),
                            "the edge table records edge %s as (%s, %s) while the node table written by the same function holds it as forward[%s][%s] / backward[%s][%s]: top and bottom of the edge disagree between "
                            "edgeStructure_ and nodeStructure_ (getTop/getBottom answer against getOutgoingNeighbors)" % (e, x, y, y, x, x, y),
                            witness={"history": "link(a,b); switchNodes(a,b); compare getTop(edge) with the outgoing neighbours of its nodes"})
            else:
                chk.unknown("D3", f.key, con, f.loc(node), "rows of the node-table writes could not be tied to (%s, %s)" % (x, y))
    chk.floor("D3", "direct edge-table writers beside the link helper", n, 1)
    # D4: the id allocators are not counts
    m = 0
    for f in fb.concrete_fns():
        if not (f.cls or "").startswith(("bpp::GlobalGraph", "bpp::TreeGraphImpl", "bpp::DAGraphImpl", "bpp::AssociationGraphImplObserver")) or f.body is None:
            continue
        for x in f.all_nodes():
            if x["k"] == "MemberExpr" and x["member"].get("this") and x["member"]["name"] in ("highestNodeID_", "highestEdgeID_"):
                m += 1
                par = f.parent.get(x["id"])
                while par is not None and par["k"] in ("ImplicitCastExpr", "ParenExpr"):
                    par = f.parent.get(par["id"])
                if par is not None and par["k"] == "BinaryOperator" and par.get("op") in ("==", "!=", "<", "<=", ">", ">="):
                    other = [k_ for k_ in kids(par) if not any(y is x for y in walk(k_))]
                    ot = render(other[0]) if other else ""
                    if ".size()" in ot or "getNumberOf" in ot:
                        chk.refuted("D4", f.key, "allocator-as-count:" + x["member"]["name"], f.loc(par),
                                    "%s (ids ever issued) is compared with the count '%s': after any deletion the two differ although the structure is intact" % (x["member"]["name"], ot),
                                    witness={"history": "create three nodes, delete one, ask the predicate"})
                        continue
                # ... and only move forward: a plain assignment (other than the member-wise copy of another graph's counter) is made
                # under a test that the new value is not below the counter, or through std::max with the counter itself
                if par is not None and par["k"] == "BinaryOperator" and par.get("op") == "=" and strip(kids(par)[0]) is x:
                    rhs = strip(kids(par)[1])
                    nm = x["member"]["name"]
                    if rhs["k"] == "MemberExpr" and rhs["member"]["name"] == nm and not rhs["member"].get("this"):
                        chk.proved("D4", f.key, "allocator-use:" + nm, f.loc(x), "copy of another graph's counter")
                        continue
                    if is_call(rhs) and rhs["callee"]["name"] == "max" and any(nm in render(a) for a in f.args(rhs)):
                        chk.proved("D4", f.key, "allocator-forward:" + nm, f.loc(par), "assigned the maximum of itself and the new value")
                        continue
                    okg, _p = e1.guarded_by(f.cfg, f.cfg.stmt_block(par), lambda facts: any(nm in t_ and any(op_ in t_ for op_ in (" < ", " <= ", " > ", " >= ")) for t_, tr_, _ in facts))
                    if okg:
                        chk.proved("D4", f.key, "allocator-forward:" + nm, f.loc(par), "assignment made under a comparison with the counter")
                    else:
                        chk.refuted("D4", f.key, "allocator-forward:" + nm, f.loc(par),
                                    "'%s' sets the id counter without comparing it with the new value: a value below the current counter moves it backwards and the next automatic id is one that is still in use (two elements then share an id)" % render(par)[:70],
                                    witness={"history": "ids 0, 1, 2 issued; an explicit id 0 is re-used; the next automatic id is 1, still in use"})
                    continue
                chk.proved("D4", f.key, "allocator-use:" + x["member"]["name"], f.loc(x), "allocation / copy of the id counter")
    chk.floor("D4", "uses of the id allocators", m, 4)


def _d5(chk, fb):
    """re-parenting: a tree/DAG member that removes one relation of a node and makes another (setFather: unlink(old, n) ...
    link(new, n)) removes first.  GlobalGraph::link on a pair that is already related leaves the relation map as it is (the
    insert finds the key), so 'link(new, n); unlink(old, n)' with new == old ends with no relation at all"""
    n = 0
    for f in fb.concrete_fns():
        if f.body is None or not f.relfile.endswith(("Graph/TreeGraphImpl.h", "Graph/DAGraphImpl.h")):
            continue
        calls = [c for c in f.calls() if c["callee"]["name"] in ("link", "unlink") and len(f.args(c)) >= 2]
        links = [c for c in calls if c["callee"]["name"] == "link"]
        unl = [c for c in calls if c["callee"]["name"] == "unlink"]
        if not links or not unl:
            continue
        li = local_inits(f)
        cfg = f.cfg
        for l in links:
            for u in unl:
                if render(f.args(l)[1], li) != render(f.args(u)[1], li):
                    continue
                n += 1
                con = "unlink-before-link:%s" % render(f.args(l)[1])
                a, b = render(f.args(l)[0]), render(f.args(u)[0])
                later = e1.before_in_function(cfg, l, u)
                earlier = e1.before_in_function(cfg, u, l)
                if later and not earlier:
                    cmp_ = [x for x in f.all_nodes() if x["k"] == "BinaryOperator" and x["op"] in ("==", "!=") and {render(kids(x)[0]), render(kids(x)[1])} == {a, b}]
                    if cmp_:
                        chk.unknown("D5", f.key, con, f.loc(u), "the new relation is made first, but '%s' and '%s' are compared: not decided" % (a, b))
                    else:
                        chk.refuted("D5", f.key, con, f.loc(u),
                                    "%s makes the relation (%s, %s) before it removes (%s, %s): when both name the same pair, link leaves the already present relation as it is and the unlink that follows removes it - the node ends up without the relation it was given"
                                    % (f.name, a, render(f.args(l)[1]), b, render(f.args(u)[1])),
                                    witness={"history": "%s(n, f) called twice with the same f: after the second call n has no father and isValid() is false" % f.name})
                elif earlier:
                    chk.proved("D5", f.key, con, f.loc(u), "the old relation is removed before the new one is made")
                else:
                    chk.unknown("D5", f.key, con, f.loc(u), "link and unlink lie on different paths")
    chk.floor("D5", "members that unlink and link the same node", n, 2)


def _d6(chk, fb):
    """leaves-under: a member that recurses into every son of a node and otherwise records the node as a leaf decides on
    'has no son'.  A test 'sons.size() > 1' (or '>= 2') sends a node with exactly one son to the leaf branch"""
    import re
    n = 0
    for f in fb.concrete_fns():
        if f.body is None or not f.relfile.endswith(("Graph/TreeGraphImpl.h", "Graph/DAGraphImpl.h")):
            continue
        rec = [c for c in f.calls() if c["callee"].get("key") == f.key]
        if not rec:
            continue
        li = local_inits(f)
        for iff in [x for x in f.all_nodes() if x["k"] == "IfStmt" and isinstance(x.get("cond"), int) and x["cond"] in f.nodes]:
            if not any(f.contains(iff, c) for c in rec):
                continue
            pushes = [c for c in f.calls() if c["callee"]["name"] == "push_back" and f.contains(iff, c) and f.args(c) and strip(f.args(c)[0])["k"] == "DeclRefExpr" and strip(f.args(c)[0])["decl"]["kind"] == "param"]
            if not pushes:
                continue
            ct = render(f.nodes[iff["cond"]], li).replace("this.", "")
            if "Sons" not in ct and "Outgoing" not in ct and "sons" not in ct:
                continue
            n += 1
            con = "leaf-means-no-son"
            m = re.search(r"\.size\(\) (>=|>|!=|==) (\d+)\)?$", ct)
            if re.search(r"\.empty\(\)", ct) or (m and ((m.group(1) == ">" and m.group(2) == "0") or (m.group(1) == ">=" and m.group(2) == "1") or (m.group(1) in ("!=", "==") and m.group(2) == "0"))):
                chk.proved("D6", f.key, con, f.loc(iff), "the node is recorded as a leaf exactly when it has no son ('%s')" % ct[:80])
            elif m and ((m.group(1) == ">" and int(m.group(2)) >= 1) or (m.group(1) == ">=" and int(m.group(2)) >= 2)):
                chk.refuted("D6", f.key, con, f.loc(iff), "%s descends into the sons only when '%s': a node with exactly one son is recorded as a leaf and its subtree is never visited" % (f.name, ct[:80]),
                            witness={"input": "the chain a -> b -> c: getLeavesUnderNode(b) returns {b}, the definition gives {c}"})
            else:
                chk.unknown("D6", f.key, con, f.loc(iff), "leaf test '%s' not read" % ct[:80])
    chk.floor("D6", "recursive leaf collectors", n, 2)


def run(chk, fb, tier):
    chk.rule("D1", "every dependency write of the cached validity predicate made by a public entry point (directly or in a callee) is followed by a reachable topologyHasChanged_(); "
                   "the derived invalidator overrides the base virtual and clears isValid_; isValid_ becomes true only from isTree()/isDA()")
    chk.rule("D2", "nothing reachable from rootAt on the graph itself erases from edgeStructure_, calls notifyDeletedEdges or increments highestEdgeID_; switchNodes rewrites the same edge id")
    chk.rule("D3", "a GlobalGraph member that writes edgeStructure_[e] = (x, y) itself writes forward[x][y] = e and backward[y][x] = e in nodeStructure_ (the convention of the link helpers), never the reverse")
    chk.rule("D4", "highestNodeID_/highestEdgeID_ count ids ever issued: they are not compared with a container size or element count, and an assignment to one (member-wise copy excepted) is made under a comparison with its current value or through std::max")
    _d1(chk, fb)
    _d2(chk, fb)
    _d3(chk, fb)
    chk.rule("D5", "a tree/DAG member that both unlinks and links relations of one node (setFather) removes the old relation before making the new one")
    _d5(chk, fb)
    chk.rule("D6", "a recursive leaf collector records a node as a leaf exactly when it has no son")
    _d6(chk, fb)
    if SKIPPED:
        chk.note("members of AssociationTreeGraphImplObserver not instantiable (latent compile errors in the header), skipped: %s" % SKIPPED)
    chk.assume("copy construction / assignment copy the flag together with the structure (implicit member-wise copy of TreeGraphImpl/DAGraphImpl)")
    chk.assume("DAG rootedness cache isRooted_ is outside the statement (the DAG invalidator does not clear it; noted, not asserted)")
