"""E6 cache-invalidation completeness.

For a set of dependency fields D and an invalidation predicate I (a call that resets the cache), compute for
every function a summary over its CFG and callees:
   may_inv     some path performs an invalidation
   pending     dependency writes after which NO invalidation is reachable inside the function (these are
               exported to callers, where the same question is asked from the call site on)
   maybe       writes followed by an invalidation on some paths only (never refuted: a value fact may
               make the other paths no-ops)
A public entry point with a `pending` write is REFUTED: after that write the cache can never be reset
before the caller regains control.
"""
from .facts import kids, strip, walk, is_call, render
from . import e1


class CacheInv:
    def __init__(self, fb, dep_fields, is_invalidate, descend, write_names=None):
        self.fb = fb
        self.dep = set(dep_fields)
        self.is_inv = is_invalidate          # (fn, call node) -> bool
        self.descend = descend               # (fn) -> bool : follow calls into this function
        self.memo = {}
        self.active = set()

    # ---- events of one function in CFG element order
    def _aliases(self, fn):
        """locals that are iterators / references into a dependency field"""
        al = {}
        changed = True
        while changed:
            changed = False
            for n in walk(fn.body):
                if n["k"] == "DeclStmt":
                    for d in n["decls"]:
                        if d["id"] in al or d.get("init") is None:
                            continue
                        r = e1._root_decl(d["init"])
                        ty = d.get("ty", "")
                        if not ("iterator" in ty or ty.endswith("&") or ty.endswith("*")):
                            continue
                        if r and ((r[0] == "f" and r[1] in self.dep) or (r[0] == "v" and r[1] in al)):
                            al[d["id"]] = r[1] if r[0] == "f" else al[r[1]]
                            changed = True
                elif n["k"] == "CXXForRangeStmt" and "loopvar" in n:
                    lv = n["loopvar"]
                    if lv["id"] not in al and lv["ty"].endswith("&") and not lv["ty"].startswith("const "):
                        r = e1._root_decl(fn.nodes[n["rangeinit"]])
                        if r and ((r[0] == "f" and r[1] in self.dep) or (r[0] == "v" and r[1] in al)):
                            al[lv["id"]] = r[1] if r[0] == "f" else al[r[1]]
                            changed = True
        return al

    def _dep_root(self, fn, al, node, rebind_ok=False):
        sn = strip(node)
        if rebind_ok and sn is not None and sn["k"] == "DeclRefExpr" and not sn["decl"].get("ty", "").endswith("&"):
            return None     # re-binding an iterator / pointer variable is not a write to the container
        r = e1._root_decl(node)
        if r is None:
            return None
        if r[0] == "f" and r[1] in self.dep:
            return r[1]
        if r[0] == "v" and r[1] in al:
            return al[r[1]]
        return None

    def _is_write(self, fn, al, n):
        """dependency field written by CFG element n (own statement, not sub-elements)"""
        k = n["k"]
        if k in ("BinaryOperator", "CompoundAssignOperator") and n.get("op", "").endswith("=") and n["op"] not in ("==", "!=", "<=", ">="):
            return self._dep_root(fn, al, kids(n)[0], rebind_ok=True)
        if k == "UnaryOperator" and n["op"] in ("++", "--"):
            return self._dep_root(fn, al, kids(n)[0], rebind_ok=True)
        if is_call(n):
            c = n["callee"]
            if c.get("inrepo"):
                return None
            if "obj" in n and not c.get("const") and not c.get("static") and c["via"] != "ctor":
                if c["name"] in e1.NONMUTATING_STD and not (c["name"] == "operator[]" and "map" in c.get("cls", "") + c["qname"]):
                    return None
                if c["via"] == "operator" and n.get("op") in ("++", "--", "=", "+=", "-="):
                    return self._dep_root(fn, al, fn.nodes[n["obj"]], rebind_ok=True)
                return self._dep_root(fn, al, fn.nodes[n["obj"]])
        return None

    def summary(self, fn):
        if fn.key in self.memo:
            return self.memo[fn.key]
        if fn.key in self.active or fn.cfg is None:
            return dict(may_inv=False, pending=[], maybe=[], has_write=False)
        self.active.add(fn.key)
        cfg = fn.cfg
        al = self._aliases(fn)
        # per block: ordered events
        ev = {}
        for b, blk in cfg.blocks.items():
            lst = []
            for e in blk["el"]:
                n = fn.nodes.get(e)
                if n is None:
                    continue
                w = self._is_write(fn, al, n)
                if w:
                    lst.append(("W", n, [dict(field=w, fn=fn.key, loc=fn.loc(n), text=render(n)[:80])]))
                    continue
                if is_call(n):
                    if self.is_inv(fn, n):
                        lst.append(("I", n, None))
                        continue
                    c = n["callee"]
                    if c.get("inrepo"):
                        targets = [t for t in self.fb.targets(n) if self.descend(t)]
                        if targets:
                            subs = [self.summary(t) for t in targets]
                            mi = any(s["may_inv"] for s in subs)
                            pend = [dict(p, via=(p.get("via", []) + [fn.loc(n)])) for s in subs for p in s["pending"]]
                            mayb = [p for s in subs for p in s["maybe"]]
                            hw = any(s.get("has_write") for s in subs)
                            if mi or pend or mayb or hw:
                                lst.append(("C", n, dict(may_inv=mi, pending=pend, maybe=mayb, has_write=hw)))
            ev[b] = lst

        # can an invalidation be reached from (block b, after index i)?
        def inv_after(b, i):
            for kind, n, p in ev[b][i + 1:]:
                if kind == "I" or (kind == "C" and p["may_inv"]):
                    return True
            seen = set()
            st = list(cfg.succ[b])
            while st:
                x = st.pop()
                if x in seen:
                    continue
                seen.add(x)
                for kind, n, p in ev[x]:
                    if kind == "I" or (kind == "C" and p["may_inv"]):
                        return True
                st.extend(cfg.succ[x])
            return False

        # is the normal exit reachable from (b, i) without an invalidation?
        def exit_without_inv(b, i):
            for kind, n, p in ev[b][i + 1:]:
                if kind == "I":
                    return False
            seen = set()
            st = [s for s in cfg.succ[b]]
            if cfg.exit in st and cfg.is_throw_block(b):
                st.remove(cfg.exit)
            while st:
                x = st.pop()
                if x in seen:
                    continue
                seen.add(x)
                if x == cfg.exit:
                    return True
                if any(kind == "I" for kind, n, p in ev[x]):
                    continue
                for s in cfg.succ[x]:
                    if s == cfg.exit and cfg.is_throw_block(x):
                        continue
                    st.append(s)
            return False
        may_inv = any(kind == "I" or (kind == "C" and p["may_inv"]) for b in ev for kind, n, p in ev[b])
        pending, maybe = [], []
        reach = cfg.reachable_from(cfg.entry)
        for b in ev:
            if b not in reach:
                continue
            for i, (kind, n, p) in enumerate(ev[b]):
                ws = p if kind == "W" else (p["pending"] if kind == "C" else [])
                if not ws:
                    if kind == "C":
                        maybe.extend(p["maybe"])
                    continue
                if not exit_without_inv(b, i):
                    continue                      # always invalidated (or never returns normally)
                if inv_after(b, i):
                    maybe.extend(ws)
                else:
                    pending.extend(ws)
                if kind == "C":
                    maybe.extend(p["maybe"])
        has_write = any(kind == "W" or (kind == "C" and p.get("has_write")) for b in ev for kind, n, p in ev[b])
        res = dict(may_inv=may_inv, pending=pending, maybe=maybe, has_write=has_write)
        self.active.discard(fn.key)
        self.memo[fn.key] = res
        return res
