"""E2 SymBounds: symbolic index / dimension analysis.

Every element access M(i,j) / v[i] / v.at(i) of a function is a site. Index upper bounds and container dimensions are
polynomials over *size symbols* (rows/cols/size of parameters, sizes established by resize / sized constructors). Facts come
from throwing guards on the path. Verdicts:
  PROVED   dim - (max index) - 1 is a polynomial with non-negative coefficients under the path's equalities
  REFUTED  a witness shape (valuation of the size symbols in 0..3 that satisfies every guard fact and makes the enclosing loops
           run) with max index >= dimension, or min index < 0 ; the abstract bounds are evaluated, never the program
  UNKNOWN  anything else (data-dependent indices, unparsed guards, non-polynomial bounds)
Needs sympy (tooling venv).
"""
import itertools
from .facts import kids, strip, walk, is_call, render, local_inits
from . import e1


def sp():
    import sympy
    return sympy


_SUMMARY = {}
_POST = {}


MATRIX_T = ("Matrix<",)


def is_matrix_type(t):
    t = (t or "").replace("const ", "").strip()
    return any(t.startswith(m) for m in ("bpp::Matrix<", "bpp::RowMatrix<", "bpp::ColMatrix<", "bpp::LinearMatrix<"))


def is_vector_type(t):
    t = t or ""
    return t.replace("const ", "").startswith("std::vector<") or t.replace("const ", "").startswith("std::deque<")


class Fun:
    """per-function symbolic environment"""

    def __init__(self, fb, f, invariants=None, extra_rels=None, free_fields=False):
        self.fb = fb
        self.f = f
        self.cfg = f.cfg
        self.sub = local_inits(f)
        self.S = {}
        self.inv = invariants or {}      # field name -> {'R':expr,'C':expr} | {'N':expr}  (class invariants, as text over field names)
        self._mut = None
        self.assume_atoms = set()
        self.wrap = {}
        self.approx_loops = set()
        self.extra_rels = list(extra_rels or [])
        self.free_fields = free_fields      # may a refuting shape choose values of scalar members? only when the rule module declared the class invariant
        self.sub1 = self._single_assigned()

    def sym(self, kind, root):
        name = "%s_%s" % (kind, root)
        if name not in self.S:
            self.S[name] = sp().Symbol(name, integer=True, nonnegative=True)
        return self.S[name]

    # ---- container identity
    def root(self, n):
        r = e1._root_decl(n)
        if r is None:
            return None
        if r[0] == "v":
            return ("v", r[1], r[2])
        if r[0] == "f":
            return ("f", r[1], r[2])
        return None

    def _mutations(self):
        """size-changing calls per container root: list of (node, root, kind, args)"""
        if self._mut is not None:
            return self._mut
        out = []
        f = self.f
        for c in f.calls():
            nm = c["callee"]["name"]
            if "obj" in c and nm in ("resize", "clear", "push_back", "pop_back", "erase", "insert", "assign", "emplace_back", "operator="):
                r = self.root(f.obj(c))
                o = strip(f.obj(c))
                if r and o["k"] in ("DeclRefExpr", "MemberExpr"):
                    out.append((c, r, nm, f.args(c)))
        # containers handed to another function by non-const reference: sized by the callee's summary, otherwise unknown afterwards
        for c in f.calls():
            pt = c["callee"].get("ptypes") or []
            args = f.args(c)
            if c["callee"]["name"].startswith("operator"):
                continue
            for i_, a in enumerate(args):
                if i_ >= len(pt):
                    break
                t = pt[i_]
                if "&" not in t or t.startswith("const ") or "&&" in t:
                    continue
                if not (is_matrix_type(t) or is_vector_type(t)):
                    continue
                o = strip(a)
                r = self.root(a)
                if r and o["k"] in ("DeclRefExpr", "MemberExpr"):
                    out.append((c, r, "call", (i_, args)))
        for n in f.all_nodes():
            if n["k"] == "DeclStmt":
                for d in n["decls"]:
                    if d.get("init") is not None and (is_vector_type(d["ty"]) or is_matrix_type(d["ty"])):
                        init = strip(d["init"])
                        if init["k"] in ("CXXConstructExpr", "CXXTemporaryObjectExpr"):
                            out.append((n, ("v", d["id"], d["name"]), "ctor", f.args(init)))
        self._mut = out
        return out

    def _callee_sizes(self, call, pos, args, depth=0):
        """size the callee gives to its pos-th parameter, in the caller's terms: tuple of expressions, 'unchanged', or None"""
        key = call["callee"].get("key")
        g = self.fb.fns.get(key) if key else None
        if g is None or g.body is None or g.cfg is None or getattr(self, "_depth", 0) > 2:
            return None
        if pos >= len(g.params):
            return None
        cache = _SUMMARY.setdefault(key, {})
        if pos not in cache:
            gf = Fun(self.fb, g)
            gf._depth = getattr(self, "_depth", 0) + 1
            pid = g.params[pos]["id"]
            muts = [m for m in gf._mutations() if m[1][:2] == ("v", pid)]
            if not muts:
                cache[pos] = ("unchanged", None)
            else:
                res = None
                # one resize (or one forwarding call) that every normal path passes, nothing else
                if len(muts) == 1 and muts[0][2] in ("resize", "call"):
                    node, _, kind, a_ = muts[0]
                    ok, _path = e1.must_pass(g.cfg, {g.cfg.stmt_block(node)})
                    if ok:
                        if kind == "resize":
                            vals = tuple(gf.size_expr(x, node) for x in a_)
                            if vals and None not in vals:
                                res = vals
                        else:
                            sm = gf._callee_sizes(node, a_[0], a_[1])
                            if sm not in (None, "unchanged"):
                                res = sm
                cache[pos] = ("sized", (res, gf)) if res is not None else (None, None)
        tag, val = cache[pos]
        if tag == "unchanged":
            return "unchanged"
        if tag is None:
            return None
        res, gf = val
        S = sp()
        sub = {}
        for i_, p_ in enumerate(g.params):
            if i_ >= len(args):
                break
            ty = p_.get("ty") or ""
            nm = p_["name"]
            if is_matrix_type(ty.replace("&", "").strip()):
                d = self.dims(args[i_], call) if i_ != pos else None
                if d and len(d) == 2 and None not in d:
                    sub[gf.sym("R", nm)] = d[0]
                    sub[gf.sym("C", nm)] = d[1]
            elif is_vector_type(ty.replace("&", "").strip()):
                d = self.dims(args[i_], call) if i_ != pos else None
                if d and len(d) == 1 and d[0] is not None:
                    sub[gf.sym("N", nm)] = d[0]
            else:
                e = self.size_expr(args[i_], call)
                if e is not None:
                    sub[gf.sym("P", nm)] = e
        out = []
        for r in res:
            r2 = r.subs(sub, simultaneous=True)
            left = [x for x in r2.free_symbols if str(x).split("_")[0] in ("R", "C", "N", "P") and x in gf.S.values() and x not in sub.values()]
            if left:
                return None
            out.append(r2)
        ismat = is_matrix_type((g.params[pos].get("ty") or "").replace("&", "").strip())
        if ismat and len(out) >= 2:
            return (out[0], out[1])
        if not ismat and out:
            return (out[0],)
        return None

    def dims(self, cont, site):
        """(rows, cols) for a matrix / (size,) for a vector at `site`; None entries when unknown"""
        f, cfg = self.f, self.cfg
        r = self.root(cont)
        if r is None:
            return None
        o = strip(cont)
        if o["k"] not in ("DeclRefExpr", "MemberExpr"):
            # an element of a container of containers (vO[i]): identified by its text, sized only by a dominating resize on the same text
            if is_call(o) and o["callee"]["name"] in ("operator[]", "at", "operator*"):
                key = render(o)
                sb = cfg.stmt_block(site)
                for c in f.calls():
                    if c["callee"]["name"] == "resize" and "obj" in c and render(f.obj(c)) == key and cfg.dominates(cfg.stmt_block(c), sb) and e1.before_in_function(cfg, c, site):
                        vals = [self.size_expr(a, c) for a in f.args(c)]
                        if is_matrix_type(o.get("ty") or "") and len(vals) >= 2:
                            return (vals[0], vals[1])
                        if vals:
                            return (vals[0],)
                return None
            return None
        ty = o.get("ty") or ""
        ismat = is_matrix_type(ty)
        sb = cfg.stmt_block(site)
        best = None
        dirty = False
        for node, rr, kind, args in self._mutations():
            if rr[:2] != r[:2]:
                continue
            nb = cfg.stmt_block(node)
            if nb is None or sb is None:
                dirty = True
                continue
            reaches = nb == sb and e1._elem_index(cfg, cfg.blocks[sb]["el"], node) is not None and e1._elem_index(cfg, cfg.blocks[sb]["el"], node) < (e1._elem_index(cfg, cfg.blocks[sb]["el"], site) or 10**9) or (nb != sb and e1.path_exists(cfg, nb, sb))
            if not reaches:
                continue
            dom = cfg.dominates(nb, sb)
            if not dom and kind == "resize":
                dom = self._optional_resize(node, sb)
            if kind == "call":
                sm = self._callee_sizes(node, args[0], args[1])
                if sm == "unchanged":
                    continue
                if sm is not None and dom:
                    if best is None or cfg.dominates(cfg.stmt_block(best[0]), nb):
                        best = (node, "summary", sm)
                    continue
                dirty = True
                continue
            if kind in ("resize", "ctor") and dom:
                if best is None or cfg.dominates(cfg.stmt_block(best[0]), nb):
                    best = (node, kind, args)
            elif kind in ("clear",) and dom:
                if best is None or cfg.dominates(cfg.stmt_block(best[0]), nb):
                    best = (node, "clear", args)
            else:
                dirty = True
        if dirty and best is not None:
            # growth after the established size (push_back ...): size is at least what was established - treat as unknown
            return None
        if dirty:
            return None
        if best is not None:
            node, kind, args = best
            if kind == "summary":
                return args
            if kind == "clear":
                return (sp().Integer(0),) if not ismat else (sp().Integer(0), sp().Integer(0))
            vals = [self.size_expr(a, node) for a in args]
            if ismat:
                if len(vals) >= 2:
                    return (vals[0], vals[1])
                return None
            if kind == "ctor" and len(args) == 0:
                return (sp().Integer(0),)
            if len(vals) >= 1 and is_vector_type(ty):
                # vector<T> v(n) / v(n, x) / v.resize(n): but vector<T> v(other_vector) is a copy
                a0 = strip(args[0])
                if is_vector_type(a0.get("ty") or ""):
                    d = self.dims(args[0], node)
                    return d
                return (vals[0],)
            return None
        # no local establishment: parameter / field symbols (or class invariant)
        name = r[2]
        if r[0] == "f" and name in self.inv:
            iv = self.inv[name]
            if ismat:
                return (iv.get("R"), iv.get("C"))
            return (iv.get("N"),)
        if r[0] == "v" and not any(p["id"] == r[1] for p in f.params):
            # local without establishment
            return None
        if r[0] == "f":
            # a member container without a declared class invariant: its size is tied to other members by the class, not free
            return None
        if ismat:
            return (self.sym("R", name), self.sym("C", name))
        if is_vector_type(ty):
            return (self.sym("N", name),)
        return None

    def _optional_resize(self, node, sb):
        """'if (flag) O.resize(..);' with a boolean parameter as the flag, ahead of the site: the output is sized by the
        routine when the caller asks for it; the site is analysed for that case (flag = true), recorded in assume_atoms"""
        f, cfg = self.f, self.cfg
        par = None
        for a in f.ancestors(node):
            if a["k"] in ("ExprWithCleanups", "CompoundStmt"):
                continue
            par = a
            break
        if par is None or par["k"] != "IfStmt" or "else" in par or "cond" not in par:
            return False
        cond = strip(f.nodes[par["cond"]])
        if cond["k"] != "DeclRefExpr" or cond["decl"]["kind"] != "param" or cond.get("ty") != "bool":
            return False
        hb = cfg.stmt_block(cond)
        if hb is None or not cfg.dominates(hb, sb):
            return False
        self.assume_atoms.add((render(cond), True))
        return True

    # ---- size expressions
    def size_expr(self, n, site=None, depth=0):
        S = sp()
        n = strip(n)
        if n is None or depth > 12:
            return None
        site = site or n
        k = n["k"]
        if k == "IntegerLiteral":
            return S.Integer(int(n["val"]))
        if k in ("CXXStaticCastExpr", "CStyleCastExpr", "CXXFunctionalCastExpr") and kids(n):
            return self.size_expr(kids(n)[0], site, depth + 1)
        if k == "DeclRefExpr":
            d = n["decl"]
            if d["id"] in self.sub:
                return self.size_expr(self.sub[d["id"]], self.sub[d["id"]], depth + 1)
            r1 = self._sub1(d["id"], site)
            if r1 is not None:
                return self.size_expr(r1, r1, depth + 1)
            if d["kind"] == "param" and ("int" in d["ty"] or "long" in d["ty"] or "short" in d["ty"]) and "std::" not in d["ty"]:
                if not any(p_["id"] == d["id"] for p_ in self.f.params):
                    return None          # parameter of a nested lambda: chosen by whoever calls the lambda, not by the function's caller
                return self.sym("P", d["name"])
            return None
        if k == "MemberExpr" and n["member"]["kind"] == "field" and n["member"]["this"]:
            nm = n["member"]["name"]
            if nm in self.inv and "V" in self.inv[nm]:
                return self.inv[nm]["V"]
            if "int" in (n.get("ty") or "") or "long" in (n.get("ty") or ""):
                return self.sym("F", nm)
            return None
        if k == "BinaryOperator" and n["op"] in ("+", "-", "*"):
            a, b = self.size_expr(kids(n)[0], site, depth + 1), self.size_expr(kids(n)[1], site, depth + 1)
            if a is None or b is None:
                return None
            return {"+": a + b, "-": a - b, "*": a * b}[n["op"]]
        if is_call(n):
            nm = n["callee"]["name"]
            f = self.f
            if nm in ("getNumberOfRows", "getNumberOfColumns", "size", "length") and "obj" in n:
                d = self.dims(f.obj(n), site)
                if d is None:
                    return None
                if nm == "getNumberOfRows":
                    return d[0]
                if nm == "getNumberOfColumns":
                    return d[1] if len(d) > 1 else None
                return d[0] if len(d) == 1 else None
            if n["callee"]["qname"] in ("std::min", "std::max") and len(f.args(n)) == 2:
                a, b = [self.size_expr(x, site, depth + 1) for x in f.args(n)]
                if a is None or b is None:
                    return None
                return (S.Min if nm == "min" else S.Max)(a, b)
        return None

    # ---- loops
    def loop_range(self, var_id, site):
        """[lo, hi) of a loop variable at site from its enclosing for-statement; None if not a simple counted loop"""
        f = self.f
        S = sp()
        for lp in f.ancestors(site):
            if lp["k"] != "ForStmt" or "init" not in lp or "cond" not in lp or "inc" not in lp:
                continue
            init = f.nodes.get(lp["init"])
            if init is None or init["k"] != "DeclStmt" or not any(d["id"] == var_id for d in init["decls"]):
                if init is not None and init["k"] == "BinaryOperator" and init["op"] == "=" and strip(kids(init)[0])["k"] == "DeclRefExpr" and strip(kids(init)[0])["decl"]["id"] == var_id:
                    start = self.size_expr(kids(init)[1], init)
                else:
                    continue
            else:
                d = [d for d in init["decls"] if d["id"] == var_id][0]
                start = self.size_expr(d["init"], init) if d.get("init") is not None else None
            cond = strip(f.nodes[lp["cond"]])
            inc = strip(f.nodes[lp["inc"]])
            # other writes to the variable inside the body break the pattern
            body = f.nodes[lp["body"]]
            for w in walk(body):
                if w["k"] in ("UnaryOperator", "BinaryOperator", "CompoundAssignOperator") and w.get("op") in ("++", "--", "=", "+=", "-="):
                    t = strip(kids(w)[0])
                    if t["k"] == "DeclRefExpr" and t["decl"]["id"] == var_id:
                        return None
            up = inc["k"] == "UnaryOperator" and inc["op"] == "++" and strip(kids(inc)[0])["k"] == "DeclRefExpr" and strip(kids(inc)[0])["decl"]["id"] == var_id
            down = inc["k"] == "UnaryOperator" and inc["op"] == "--" and strip(kids(inc)[0])["k"] == "DeclRefExpr" and strip(kids(inc)[0])["decl"]["id"] == var_id
            if start is None and not getattr(self, "_in_tri", False):
                # triangular loop: 'for (j = i + 1; ...)' - start from the smallest value of the outer expression
                # (sound for proofs; such loops are never used to build a refuting shape)
                sn = kids(init)[1] if init["k"] == "BinaryOperator" else [d for d in init["decls"] if d["id"] == var_id][0].get("init")
                if sn is not None:
                    self._in_tri = True
                    try:
                        b_ = self.index_bounds(sn, lp)
                    finally:
                        self._in_tri = False
                    if b_ is not None:
                        start = b_[0]
                        self.approx_loops.add(var_id)
            if cond["k"] != "BinaryOperator" or start is None:
                return None
            l, r = strip(kids(cond)[0]), strip(kids(cond)[1])
            if l["k"] == "DeclRefExpr" and l["decl"]["id"] == var_id:
                bound = self.size_expr(r, cond)
                if bound is None:
                    return None
                # unsigned arithmetic: 'n - 1' as a loop bound (or start) must not go below zero
                vname = l["decl"]["name"]
                ws = []
                if any(x["k"] == "BinaryOperator" and x["op"] == "-" and "unsigned" in (x.get("ty") or "") for x in walk(r)):
                    ws.append(bound)
                if any(x["k"] == "BinaryOperator" and x["op"] == "-" and "unsigned" in (x.get("ty") or "") for x in walk(init)):
                    ws.append(start)
                if ws:
                    self.wrap[(vname, lp["id"])] = ws
                if up and cond["op"] in ("<", "!="):
                    return (start, bound)
                if up and cond["op"] == "<=":
                    return (start, bound + 1)
                if down and cond["op"] == ">":
                    return (bound + 1, start + 1)
                if down and cond["op"] == ">=":
                    return (bound, start + 1)
            # i + 1 < n
            if l["k"] == "BinaryOperator" and l["op"] == "+" and up and cond["op"] == "<":
                a, b = strip(kids(l)[0]), strip(kids(l)[1])
                if a["k"] == "DeclRefExpr" and a["decl"]["id"] == var_id and b["k"] == "IntegerLiteral":
                    bound = self.size_expr(r, cond)
                    if bound is not None:
                        return (start, bound - int(b["val"]))
            return None
        return None

    def index_bounds(self, idx, site):
        """(lo, hi_inclusive, loop ranges used) of an index expression; None when not analysable"""
        S = sp()
        f = self.f
        loops = {}

        def ev(n, depth=0):
            n = strip(n)
            if n is None or depth > 12:
                return None
            k = n["k"]
            if k == "IntegerLiteral":
                v = S.Integer(int(n["val"]))
                return (v, v)
            if k in ("CXXStaticCastExpr", "CStyleCastExpr", "CXXFunctionalCastExpr") and kids(n):
                return ev(kids(n)[0], depth + 1)
            if k == "DeclRefExpr":
                d = n["decl"]
                rg = self.loop_range(d["id"], site)
                if rg is not None:
                    loops[d["name"]] = rg
                    if d["id"] in self.approx_loops:
                        loops["~approx"] = (S.Integer(0), S.Integer(1))
                    lo_, hi_ = rg[0], rg[1] - 1
                    rf = self._syntactic_guards(d["id"], n)
                    if rf[0] is not None:
                        lo_ = S.Max(lo_, rf[0]) if not (lo_.is_number and rf[0].is_number) else max(lo_, rf[0])
                        loops["~approx"] = (S.Integer(0), S.Integer(1))
                    return (lo_, hi_)
                if d["id"] in self.sub:
                    return ev(self.sub[d["id"]], depth + 1)
                e = self.size_expr(n, site)
                if e is not None:
                    return (e, e)
                cd = self._countdown(d["id"], site)
                if cd is not None:
                    loops["~wrap:" + d["name"]] = cd[2]
                    loops["~approx"] = (S.Integer(0), S.Integer(1))
                    return (cd[0], cd[1])
                gc = self._guarded_counter(d["id"], n)
                if gc is not None:
                    if gc[2] is not None:
                        loops["~wrap:" + d["name"]] = gc[2]
                    loops["~exact:" + d["name"]] = (gc[0], gc[1] + 1)
                    return (gc[0], gc[1])
                hl = self._hull(d["id"], depth)
                if hl is not None:
                    loops["~approx"] = (S.Integer(0), S.Integer(1))
                    loops.update(hl[2])
                    return (hl[0], hl[1])
                return None
            if k == "BinaryOperator" and n["op"] in ("+", "-", "*"):
                a, b = ev(kids(n)[0], depth + 1), ev(kids(n)[1], depth + 1)
                if a is None or b is None:
                    return None
                if n["op"] == "+":
                    return (a[0] + b[0], a[1] + b[1])
                if n["op"] == "-":
                    return (a[0] - b[1], a[1] - b[0])
                return (a[0] * b[0], a[1] * b[1])        # non-negative factors
            e = self.size_expr(n, site)
            return (e, e) if e is not None else None
        r = ev(idx)
        if r is None:
            return None
        return (r[0], r[1], loops)

    def _single_assigned(self):
        """locals declared without initialiser and assigned exactly once by a plain '=': id -> (rhs, assignment node)"""
        f = self.f
        noinit = {}
        for n in f.all_nodes():
            if n["k"] == "DeclStmt":
                for d in n["decls"]:
                    if d.get("init") is None and ("int" in d["ty"] or "long" in d["ty"]) and "*" not in d["ty"] and "&" not in d["ty"]:
                        noinit[d["id"]] = d
        out = {}
        for vid in noinit:
            ws = self._writes_to(vid)
            if len(ws) == 1 and ws[0]["k"] == "BinaryOperator" and ws[0]["op"] == "=" and f.enclosing(ws[0], ("ForStmt", "WhileStmt", "DoStmt")) is None:
                # address taken / passed by reference elsewhere?
                escapes = False
                for c in f.calls():
                    pt = c["callee"].get("ptypes") or []
                    for i_, a in enumerate(f.args(c)):
                        a_ = strip(a)
                        if a_ is not None and a_["k"] == "DeclRefExpr" and a_["decl"]["id"] == vid and i_ < len(pt) and "&" in pt[i_] and not pt[i_].startswith("const "):
                            escapes = True
                if not escapes:
                    out[vid] = (kids(ws[0])[1], ws[0])
        return out

    def _sub1(self, var_id, site):
        """right-hand side of the single assignment of var_id when that assignment is made on every path to site"""
        ent = self.sub1.get(var_id)
        if ent is None or site is None:
            return None
        rhs, asg = ent
        cfg = self.cfg
        ab, sb = cfg.stmt_block(asg), cfg.stmt_block(site)
        if sb is None and site.get("k") in ("ForStmt", "WhileStmt", "IfStmt", "DoStmt") and "cond" in site:
            site = self.f.nodes[site["cond"]]
            sb = cfg.stmt_block(site)
        if ab is None or sb is None:
            return None
        if ab == sb:
            return rhs if e1.earlier_in_block(cfg, asg, site) else None
        return rhs if cfg.dominates(ab, sb) else None

    def _writes_to(self, var_id):
        out = []
        for w in self.f.all_nodes():
            if w["k"] in ("UnaryOperator", "BinaryOperator", "CompoundAssignOperator") and w.get("op") in ("++", "--", "=", "+=", "-=", "*=", "/="):
                t = strip(kids(w)[0])
                if t["k"] == "DeclRefExpr" and t["decl"]["id"] == var_id:
                    out.append(w)
        return out

    def _decl_init(self, var_id):
        for n in self.f.all_nodes():
            if n["k"] == "DeclStmt":
                for d in n["decls"]:
                    if d["id"] == var_id:
                        return n, d.get("init")
        return None, None

    def _countdown(self, var_id, site):
        """'size_t k = E; do { k--; ... } while (k > 0);' : after the decrement k lies in [0, E - 1], provided E >= 1
        (obligation returned as third component)"""
        f = self.f
        ws = self._writes_to(var_id)
        if len(ws) != 1 or ws[0]["k"] != "UnaryOperator" or ws[0]["op"] != "--":
            return None
        dec = ws[0]
        do = f.enclosing(dec, ("DoStmt",))
        if do is None or not f.contains(do, site):
            return None
        body = [x for x in kids(do) if x["k"] == "CompoundStmt"]
        if not body or not kids(body[0]) or strip(kids(body[0])[0]) is not dec and kids(body[0])[0] is not dec:
            return None
        if f.contains(dec, site):
            return None
        cond = strip(f.nodes[do["cond"]]) if "cond" in do else None
        if cond is None or cond["k"] != "BinaryOperator" or cond["op"] not in (">", "!="):
            return None
        l, r = strip(kids(cond)[0]), strip(kids(cond)[1])
        if not (l["k"] == "DeclRefExpr" and l["decl"]["id"] == var_id and r["k"] == "IntegerLiteral" and int(r["val"]) == 0):
            return None
        dn, init = self._decl_init(var_id)
        if init is None or f.contains(do, dn):
            return None
        e = self.size_expr(init, dn)
        if e is None:
            return None
        S = sp()
        return (S.Integer(0), e - 1, e - 1)

    def _syntactic_guards(self, var_id, use):
        """lower bound on a variable at `use` from tests that syntactically enclose it: 'i > c && <use>', 'if (i > c) <use>'"""
        f = self.f
        S = sp()
        lo = None

        def test(c):
            c = strip(c)
            if c["k"] == "BinaryOperator" and c["op"] in (">", ">=", "!="):
                l, r = strip(kids(c)[0]), strip(kids(c)[1])
                if l["k"] == "DeclRefExpr" and l["decl"]["id"] == var_id and r["k"] == "IntegerLiteral":
                    v = int(r["val"])
                    if c["op"] == ">":
                        return S.Integer(v + 1)
                    if c["op"] == ">=":
                        return S.Integer(v)
                    if c["op"] == "!=" and v == 0:
                        return S.Integer(1)
            return None
        prev = use
        for a in f.ancestors(use):
            if a["k"] == "BinaryOperator" and a.get("op") == "&&" and f.contains(kids(a)[1], use):
                conj = []

                def flat(c):
                    c = strip(c)
                    if c["k"] == "BinaryOperator" and c["op"] == "&&":
                        flat(kids(c)[0]); flat(kids(c)[1])
                    else:
                        conj.append(c)
                flat(kids(a)[0])
                for c in conj:
                    t = test(c)
                    if t is not None:
                        lo = t if lo is None else max(lo, t)
            if a["k"] == "IfStmt" and "then" in a and f.contains(f.nodes[a["then"]], use):
                t = test(f.nodes[a["cond"]])
                if t is not None:
                    lo = t if lo is None else max(lo, t)
        return (lo, None)

    def _guarded_counter(self, var_id, use):
        """'size_t j = 0; ... while (j < B && ...) j++;' : a cursor that only moves forward under its own bound test.
        Anywhere j <= max(start, B); to the right of the test inside the loop condition and in the loop body j <= B - 1.
        Returns (lo, hi, wrap obligation | None)."""
        f = self.f
        S = sp()
        dn, init = self._decl_init(var_id)
        if dn is None or init is None:
            return None
        e0 = self.size_expr(init, dn)
        if e0 is None:
            return None
        ws = self._writes_to(var_id)
        if not ws:
            return None
        bound, braw, loopsn = None, None, []
        for w in ws:
            if w["k"] != "UnaryOperator" or w["op"] != "++":
                return None
            lp = f.enclosing(w, ("WhileStmt",))
            if lp is None or "cond" not in lp:
                return None
            cond = strip(f.nodes[lp["cond"]])
            conj = []

            def flat(c):
                c = strip(c)
                if c["k"] == "BinaryOperator" and c["op"] == "&&":
                    flat(kids(c)[0]); flat(kids(c)[1])
                else:
                    conj.append(c)
            flat(cond)
            mine = [c for c in conj if c["k"] == "BinaryOperator" and c["op"] == "<" and strip(kids(c)[0])["k"] == "DeclRefExpr" and strip(kids(c)[0])["decl"]["id"] == var_id]
            if len(mine) != 1:
                return None
            b = self.size_expr(kids(mine[0])[1], mine[0])
            if b is None:
                return None
            if bound is not None and str(bound) != str(b):
                return None
            bound, braw = b, kids(mine[0])[1]
            loopsn.append((lp, mine[0], conj))
        wrap = bound if any(x["k"] == "BinaryOperator" and x["op"] == "-" and "unsigned" in (x.get("ty") or "") for x in walk(braw)) else None
        inside = False
        for lp, mine, conj in loopsn:
            body = f.nodes.get(lp.get("body")) if isinstance(lp.get("body"), int) else None
            if body is not None and f.contains(body, use):
                inside = True
            # to the right of the bound test in the same condition
            idx = conj.index(mine)
            if any(f.contains(c, use) for c in conj[idx + 1:]):
                inside = True
        hi = bound - 1 if inside else S.Max(e0, bound)
        return (e0, hi, wrap)

    def _hull(self, var_id, depth):
        """a local that only ever receives loop/size expressions (pivot row: p = k; ... p = i): smallest and largest
        value over all its assignments, each evaluated where it is made"""
        if depth > 6:
            return None
        S = sp()
        dn, init = self._decl_init(var_id)
        if dn is None or init is None:
            return None
        srcs = [(init, dn)]
        for w in self._writes_to(var_id):
            if w["k"] != "BinaryOperator" or w["op"] != "=":
                return None
            srcs.append((kids(w)[1], w))
        los, his, lps = [], [], {}
        for e, at in srcs:
            b = self.index_bounds(e, at)
            if b is None:
                return None
            los.append(b[0]); his.append(b[1]); lps.update(b[2])
        return (S.Min(*los) if len(set(los)) > 1 else los[0], S.Max(*his) if len(set(his)) > 1 else his[0], lps)

    def _block_call_facts(self, b, before, unparsed):
        """facts established by the calls made in block b (the callee returned normally, so its throwing guards passed);
        `before`: only calls evaluated ahead of that node. A callee whose guards cannot be read makes the path unparsed."""
        f, cfg = self.f, self.cfg
        ck = (b, before["id"] if before is not None else None)
        cache = self.__dict__.setdefault("_bcf", {})
        if ck in cache:
            rels, unp = cache[ck]
            if unp:
                unparsed[0] = True
            return rels
        rels, unp = [], False
        els = cfg.blocks[b]["el"]
        stop = None
        if before is not None:
            stop = e1._elem_index(cfg, els, before)
        for i_, e in enumerate(els):
            if stop is not None and i_ >= stop:
                break
            n = f.nodes.get(e)
            if n is None or not is_call(n):
                continue
            if before is not None and f.contains(before, n):
                continue
            pf = self._post_facts(n)
            if pf is None:
                unp = True
            else:
                rels.extend(pf)
        cache[ck] = (rels, unp)
        if unp:
            unparsed[0] = True
        return rels

    def _post_facts(self, call):
        """size relations that hold whenever the in-repo callee returns normally, in the caller's terms; [] when the callee
        has no size guard; None when it has guards that cannot be interpreted"""
        cal = call["callee"]
        if not cal.get("inrepo"):
            return []
        key = cal.get("key")
        g = self.fb.fns.get(key) if key else None
        if g is None or g.body is None or g.cfg is None:
            return []
        if getattr(self, "_depth", 0) > 1:
            return []
        if not any(n["k"] == "CXXThrowExpr" for n in g.all_nodes()):
            return []
        S = sp()
        if key not in _POST:
            gf = Fun(self.fb, g)
            gf._depth = getattr(self, "_depth", 0) + 1
            exits = [n for n in walk(g.body) if n["k"] == "ReturnStmt"]
            sets, unp = [], False
            if not exits:
                # void function: facts at the last statement
                last = [x for x in kids(g.body)] if g.body["k"] == "CompoundStmt" else []
                exits = last[-1:] if last else []
            for r in exits:
                try:
                    rels, u = gf.facts(r)
                except Exception:
                    rels, u = [], True
                unp = unp or u
                sets.append({str(x): x for x in rels})
            if unp or not sets:
                _POST[key] = (None, gf) if unp else ([], gf)
            else:
                common = set(sets[0])
                for s_ in sets[1:]:
                    common &= set(s_)
                _POST[key] = ([sets[0][k_] for k_ in sorted(common)], gf)
        rels, gf = _POST[key]
        if rels is None:
            return None
        if not rels:
            return []
        sub = {}
        args = self.f.args(call)
        for i_, p_ in enumerate(g.params):
            if i_ >= len(args):
                break
            ty = (p_.get("ty") or "").replace("&", "").strip()
            nm = p_["name"]
            if is_matrix_type(ty):
                d = self.dims(args[i_], call)
                if d and len(d) == 2 and None not in d:
                    sub[gf.sym("R", nm)] = d[0]
                    sub[gf.sym("C", nm)] = d[1]
            elif is_vector_type(ty):
                d = self.dims(args[i_], call)
                if d and len(d) == 1 and d[0] is not None:
                    sub[gf.sym("N", nm)] = d[0]
            else:
                e = self.size_expr(args[i_], call)
                if e is not None:
                    sub[gf.sym("P", nm)] = e
        out = []
        for r in rels:
            r2 = r.subs(sub, simultaneous=True)
            if any(x in gf.S.values() and x not in sub.values() for x in r2.free_symbols):
                continue
            if r2 in (S.true, S.false):
                continue
            out.append(r2)
        return out

    # ---- facts
    def _rel(self, nd, tr):
        """sympy relation (or ('atom', text, truth)) for one branch fact"""
        S = sp()
        nd = strip(nd)
        if nd["k"] == "BinaryOperator" and nd["op"] in ("==", "!=") and strip(kids(nd)[1])["k"] == "CXXBoolLiteralExpr":
            val = bool(strip(kids(nd)[1])["val"])
            return ("atom", render(kids(nd)[0]), tr == ((nd["op"] == "==") == val))
        if nd["k"] == "BinaryOperator" and nd["op"] in ("==", "!=", "<", "<=", ">", ">="):
            l, r = self.size_expr(kids(nd)[0], nd), self.size_expr(kids(nd)[1], nd)
            if l is None or r is None:
                t = render(nd)
                for side in kids(nd):
                    sd = strip(side)
                    if sd["k"] == "DeclRefExpr" and sd["decl"]["kind"] == "local" and self._guarded_counter(sd["decl"]["id"], nd) is not None:
                        return None
                # the test of a counted loop is accounted for by the loop ranges (index_bounds / control), not here
                for a in self.f.ancestors(nd):
                    if a["k"] == "ForStmt" and "cond" in a and self.f.contains(self.f.nodes[a["cond"]], nd):
                        for side in kids(nd):
                            sd = strip(side)
                            if sd["k"] == "DeclRefExpr" and self.loop_range(sd["decl"]["id"], self.f.nodes[a["body"]]) is not None:
                                return None
                return ("unparsed",) if (".size()" in t or "getNumberOf" in t) else None
            op = nd["op"]
            if not tr:
                op = {"==": "!=", "!=": "==", "<": ">=", "<=": ">", ">": "<=", ">=": "<"}[op]
            return {"==": S.Eq, "!=": S.Ne, "<": S.Lt, "<=": S.Le, ">": S.Gt, ">=": S.Ge}[op](l, r)
        if is_call(nd) and nd["callee"]["name"] == "empty" and "obj" in nd:
            d = self.dims(self.f.obj(nd), nd)
            if d and len(d) == 1 and d[0] is not None:
                return S.Eq(d[0], 0) if tr else S.Gt(d[0], 0)
            return ("unparsed",)
        if is_call(nd) and nd["callee"]["name"] == "isSquare" and self.f.args(nd):
            d = self.dims(self.f.args(nd)[0], nd)
            if d and len(d) == 2 and None not in d:
                return S.Eq(d[0], d[1]) if tr else S.Ne(d[0], d[1])
            return ("unparsed",)
        if nd["k"] in ("DeclRefExpr", "MemberExpr") and nd.get("ty") in ("bool", "const bool"):
            return ("atom", render(nd), tr)
        # 'x == 0' / 'x != 0' are normalised by the CFG layer to the truthiness of x
        if ("int" in (nd.get("ty") or "") or "long" in (nd.get("ty") or "")) and "*" not in (nd.get("ty") or ""):
            e = self.size_expr(nd, nd)
            if e is not None:
                return S.Ne(e, 0) if tr else S.Eq(e, 0)
        return None

    def facts(self, site):
        """relations between size expressions that hold on every path to `site` (path-sensitive: disjuncts whose boolean
        atoms contradict each other are dropped, the rest is intersected); second result: an unparsed guard was seen"""
        cfg = self.cfg
        sb = cfg.stmt_block(site)
        # forward propagation of sets of fact-sets over forward edges only
        order = []
        seen = set()

        def dfs(b):
            if b in seen:
                return
            seen.add(b)
            for s_ in cfg.succ[b]:
                dfs(s_)
            order.append(b)
        import sys
        sys.setrecursionlimit(10000)
        dfs(cfg.entry)
        order.reverse()
        pos = {b: i for i, b in enumerate(order)}
        state = {cfg.entry: {frozenset()}}
        unparsed = [False]
        collapsed = [False]

        def key(r):
            return r if isinstance(r, tuple) else ("rel", str(r))
        relobj = {}
        for b in order:
            if b not in state:
                continue
            if b == sb:
                break
            for s_ in cfg.succ[b]:
                if pos.get(s_, -1) <= pos[b]:
                    continue          # back edge
                add = []
                for r in self._block_call_facts(b, None, unparsed):
                    k = key(r)
                    relobj[k] = r
                    add.append(k)
                for t, tr, nd in e1.edge_facts(cfg, b, s_):
                    r = self._rel(nd, tr)
                    if r is None:
                        continue
                    if r == ("unparsed",):
                        unparsed[0] = True
                        continue
                    k = key(r)
                    relobj[k] = r
                    add.append(k)
                new = {fs | frozenset(add) for fs in state[b]}
                cur = state.setdefault(s_, set())
                cur |= new
                if len(cur) > 64:
                    inter = frozenset.intersection(*cur)
                    state[s_] = {inter}
                    collapsed[0] = True
        ds = state.get(sb, {frozenset()})
        own = []
        for r in self._block_call_facts(sb, site, unparsed):
            k = key(r)
            relobj[k] = r
            own.append(k)
        if own:
            ds = {fs | frozenset(own) for fs in ds}
        good = []
        for fs in ds:
            atoms = {}
            ok = True
            for k in fs:
                if k[0] == "atom":
                    if atoms.get(k[1], k[2]) != k[2]:
                        ok = False
                    atoms[k[1]] = k[2]
            if ok:
                good.append(fs)
        if not good:
            self.disjuncts, self.local_atoms = [], False
            return [], unparsed[0]
        inter = frozenset.intersection(*good)
        rels = [relobj[k] for k in inter if k[0] == "rel"] + self.extra_rels
        # for refutation: a witness has to satisfy every fact of at least one whole path
        pnames = {p_.get("name") for p_ in self.f.params}
        good = [fs for fs in good if not any(("atom", t, not v) in fs for t, v in self.assume_atoms)] or good
        self.disjuncts = [[relobj[k] for k in fs if k[0] == "rel"] + self.extra_rels for fs in good]
        self.local_atoms = collapsed[0] or any(k[0] == "atom" and k[1] not in pnames for fs in good for k in fs)
        return rels, unparsed[0]

    def _rpo(self):
        if getattr(self, "_pos", None) is None:
            cfg = self.cfg
            order, seen = [], set()
            import sys
            sys.setrecursionlimit(10000)

            def dfs(b):
                if b in seen:
                    return
                seen.add(b)
                for s_ in cfg.succ[b]:
                    dfs(s_)
                order.append(b)
            dfs(cfg.entry)
            order.reverse()
            self._pos = {b: i for i, b in enumerate(order)}
        return self._pos

    def control(self, site):
        """the branch conditions that decide whether `site` is reached. Returns (enclosing counted loops that must be
        non-empty, reason why a witness shape cannot be trusted | None). A condition is acceptable when it is a relation
        between size expressions (handled by facts), the test of a counted loop (range added to the non-emptiness
        constraints) or a test on element data (any outcome is reachable by choosing the entries)."""
        f, cfg = self.f, self.cfg
        sb = cfg.stmt_block(site)
        if sb is None:
            return {}, "site not in the flow graph"
        # control dependence restricted to the first arrival at the site (forward edges only: the test of an
        # enclosing do-while, re-evaluated after the site, does not decide whether the site is reached)
        pos = self._rpo()
        pd = cfg.pdom

        def cd1(x):
            out = set()
            for b in cfg.blocks:
                ss = set(cfg.succ[b])
                if len(ss) < 2 or (b != x and x in pd.get(b, ())):
                    continue
                for s_ in ss:
                    if pos.get(s_, -1) > pos.get(b, -1) and (s_ == x or x in pd.get(s_, ())):
                        out.add(b)
            return out
        reach, todo = set(), [sb]
        while todo:
            x = todo.pop()
            for b in cd1(x):
                if b not in reach:
                    reach.add(b)
                    todo.append(b)
        pd = cfg.pdom
        loops = {}
        for b in sorted(reach):
            blk = cfg.blocks[b]
            ss = cfg.succ[b]
            if len(set(ss)) < 2 or "termcond" not in blk:
                continue
            if blk.get("termk") == "CXXTryStmt":
                continue
            if blk.get("termk") in ("SwitchStmt", "CXXForRangeStmt"):
                return loops, "reached through a %s" % blk.get("termk")
            ec = None
            for s_ in ss:
                ec = cfg.edge_cond(b, s_)
                if ec:
                    break
            if ec is None:
                return loops, "branch without a condition"
            cond = strip(ec[0])
            if self._rel(cond, True) not in (None, ("unparsed",)):
                continue
            # test of a counted for loop
            lp = None
            for a in f.ancestors(site):
                if a["k"] == "ForStmt" and "cond" in a and f.contains(f.nodes[a["cond"]], cond):
                    lp = a
            if lp is not None and cond["k"] == "BinaryOperator":
                got = False
                for side in kids(cond):
                    for x in walk(side):
                        if x["k"] == "DeclRefExpr" and x["decl"]["kind"] in ("local", "param"):
                            rg = self.loop_range(x["decl"]["id"], site)
                            if rg is not None:
                                if x["decl"]["id"] in self.approx_loops:
                                    return loops, "inside a triangular loop (start approximated)"
                                loops[x["decl"]["name"]] = rg
                                got = True
                if got:
                    continue
            if cond["k"] == "BinaryOperator" and cond["op"] in ("<", ">", "<=", ">=", "==", "!="):
                l_, r_ = strip(kids(cond)[0]), strip(kids(cond)[1])
                # the forward cursor's own bound test: passed at the first arrival when start < bound (or the bound wrapped)
                if l_["k"] == "DeclRefExpr" and cond["op"] == "<":
                    gc = self._guarded_counter(l_["decl"]["id"], cond)
                    if gc is not None:
                        bnd = self.size_expr(r_, cond)
                        if bnd is not None:
                            loops[l_["decl"]["name"]] = (gc[0], bnd)
                            continue
                # counted-loop variable against a literal: decided for the first iteration
                if l_["k"] == "DeclRefExpr" and r_["k"] == "IntegerLiteral":
                    rg = self.loop_range(l_["decl"]["id"], cond)
                    if rg is not None and l_["decl"]["id"] not in self.approx_loops and rg[0].is_number:
                        v0, c0 = int(rg[0]), int(r_["val"])
                        val = {"<": v0 < c0, ">": v0 > c0, "<=": v0 <= c0, ">=": v0 >= c0, "==": v0 == c0, "!=": v0 != c0}[cond["op"]]
                        want = set()
                        for s_ in ss:
                            ecs = cfg.edge_cond(b, s_)
                            if ecs is None:
                                continue
                            # can the site be reached (forward) from this successor?
                            seen_, todo_ = {s_}, [s_]
                            hit = s_ == sb
                            while todo_ and not hit:
                                x_ = todo_.pop()
                                for y_ in cfg.succ[x_]:
                                    if y_ not in seen_ and pos.get(y_, -1) > pos.get(x_, -1):
                                        if y_ == sb:
                                            hit = True
                                            break
                                        seen_.add(y_)
                                        todo_.append(y_)
                            if hit:
                                want.add(ecs[1])
                        if val in want:
                            loops[l_["decl"]["name"]] = rg
                            continue
            if self._data_test(cond):
                continue
            return loops, "reachability depends on '%s' (line %s), which is neither a size relation, a counted loop nor a test on element data" % (render(cond)[:50], cond.get("l"))
        return loops, None

    def _data_test(self, cond):
        f = self.f
        for x in walk(cond):
            ty = x.get("ty") or ""
            if ty in ("double", "float", "long double") or ty.startswith("std::complex"):
                return True
            if is_call(x) and x["callee"]["name"] in ("operator()", "operator[]", "at"):
                return True
            if x["k"] == "DeclRefExpr" and x["decl"]["kind"] in ("local", "param"):
                for w in f.all_nodes():
                    if w["k"] == "BinaryOperator" and w["op"] == "=" and strip(kids(w)[0])["k"] == "DeclRefExpr" and strip(kids(w)[0])["decl"]["id"] == x["decl"]["id"]:
                        if any(is_call(y) and y["callee"]["name"] in ("operator()", "operator[]", "at") for y in walk(kids(w)[1])):
                            return True
        return False


def _nonneg_poly(S, e, depth=0):
    """polynomial in non-negative symbols with all coefficients >= 0 (after expansion)?"""
    e = S.expand(e)
    if e.is_number:
        return e >= 0
    if (e.has(S.Min) or e.has(S.Max)) and depth < 3:
        for m in list(e.atoms(S.Max)) + list(e.atoms(S.Min)):
            c = e.coeff(m)
            if not c.is_number or c == 0 or (e - c * m).has(m):
                continue
            ismax = isinstance(m, S.Max)
            if (ismax and c < 0) or (not ismax and c > 0):
                # X - c*Max(..) >= 0 iff it holds for every argument; same for +c*Min(..)
                return all(_nonneg_poly(S, e - c * m + c * a, depth + 1) for a in m.args)
            # X + c*Max(..) >= X + c*a and X - c*Min(..) >= X - c*a for each argument: one working argument is enough
            if (ismax and c > 0) or (not ismax and c < 0):
                return any(_nonneg_poly(S, e - c * m + c * a, depth + 1) for a in m.args)
        return False
    if e.has(S.Min) or e.has(S.Max):
        return False
    try:
        p = S.Poly(e, *sorted(e.free_symbols, key=str))
    except Exception:
        return False
    return all(c >= 0 for c in p.coeffs())


def _slacks(S, rels):
    """non-negative quantities given by the inequality facts: X >= Y gives X - Y, X > Y gives X - Y - 1, X != 0 gives X - 1"""
    out = []
    for r in rels:
        e = None
        if isinstance(r, S.GreaterThan):
            e = r.lhs - r.rhs
        elif isinstance(r, S.StrictGreaterThan):
            e = r.lhs - r.rhs - 1
        elif isinstance(r, S.LessThan):
            e = r.rhs - r.lhs
        elif isinstance(r, S.StrictLessThan):
            e = r.rhs - r.lhs - 1
        elif isinstance(r, S.Unequality):
            if r.rhs == 0:
                e = r.lhs - 1
            elif r.lhs == 0:
                e = r.rhs - 1
        if e is not None:
            out.append(_apply_eqs(S, e, rels))
    # an eliminated size symbol is still non-negative
    for sym, val in _elimination(S, rels):
        v = _apply_eqs(S, val, rels)
        if not _nonneg_poly(S, v):
            out.append(v)
    return out


def _nonneg_with(S, e, slacks):
    """e >= 0 follows when e minus a non-negative combination (coefficients 1..2, up to two facts) of the slack
    quantities is a polynomial with non-negative coefficients"""
    if _nonneg_poly(S, e):
        return True
    for a in slacks:
        for ka in (1, 2):
            if _nonneg_poly(S, e - ka * a):
                return True
    for i, a in enumerate(slacks):
        for b in slacks[i + 1:]:
            if _nonneg_poly(S, e - a - b):
                return True
    return False


_ELIM = {}


def _elimination(S, rels):
    """Gaussian elimination over the equality facts (linear, unit coefficient on the eliminated symbol): list of
    (symbol, expression) substitutions, applied in order"""
    key = tuple(sorted(str(r) for r in rels))
    if key in _ELIM:
        return _ELIM[key]
    eqs = [r.lhs - r.rhs for r in rels if isinstance(r, S.Equality)]
    subs = []
    for _ in range(len(eqs)):
        done = False
        for i, e in enumerate(eqs):
            e = S.expand(e)
            if e == 0:
                continue
            for sym in sorted(e.free_symbols, key=str, reverse=True):
                c = e.coeff(sym)
                if c in (1, -1) and not (e - c * sym).has(sym):
                    val = S.expand(-(e - c * sym) / c)
                    subs.append((sym, val))
                    eqs = [S.expand(x.subs(sym, val)) for j, x in enumerate(eqs) if j != i]
                    done = True
                    break
            if done:
                break
        if not done:
            break
    _ELIM[key] = subs
    return subs


def _apply_eqs(S, e, rels):
    """rewrite e modulo the equality facts"""
    for sym, val in _elimination(S, rels):
        if e.has(sym):
            e = e.subs(sym, val)
    return S.expand(e)


def _full_env(S, env, back):
    """witness valuation including the symbols that were eliminated through equalities"""
    out = {str(k): int(v) for k, v in env.items()}
    for sym, val in reversed(back):
        try:
            v = val.subs({S.Symbol(k, integer=True, nonnegative=True): vv for k, vv in out.items()})
            if v.is_number:
                out[str(sym)] = int(v)
        except Exception:
            pass
    return out


def decide(S, lo, hi, dim, rels, loops, unparsed, extra_nonempty=(), disjuncts=None, blocked=None, wraps=None, free_fields=True):
    """verdict for one index against one dimension: ('PROVED'|'REFUTED'|'UNKNOWN', detail, witness)"""
    if hi is None or dim is None or lo is None:
        return ("UNKNOWN", "bound or dimension not a size expression", None)
    gap = _apply_eqs(S, dim - hi - 1, rels)
    lo2 = _apply_eqs(S, lo, rels)
    slacks = _slacks(S, rels)
    ok_hi = _nonneg_with(S, gap, slacks)
    ok_lo = _nonneg_with(S, lo2, slacks)
    wraps = wraps or {}
    ok_wrap = all(_nonneg_with(S, _apply_eqs(S, w, rels), slacks) for ws in wraps.values() for w in ws)
    if ok_hi and ok_lo and ok_wrap:
        return ("PROVED", "max index %s < dimension %s" % (hi, dim), None)
    if unparsed:
        return ("UNKNOWN", "a guard on the path could not be interpreted", None)
    if blocked:
        return ("UNKNOWN", blocked, None)
    if disjuncts is None:
        disjuncts = [rels]
    # shrink the witness search: eliminate the symbols fixed by the equalities that hold on every path
    el = _elimination(S, rels)
    if el:
        def red(x):
            for sym, val in el:
                x = x.subs(sym, val)
            return x
        extra = [S.Ge(v_, 0) for v_ in (red(v) for _, v in el) if not _nonneg_poly(S, v_)]
        disjuncts = [[y for y in (red(r) for r in dj) if y is not S.true] + extra for dj in disjuncts]
        loops = {k_: (red(a_), red(b_)) for k_, (a_, b_) in loops.items()}
        wraps = {k_: [red(w_) for w_ in ws_] for k_, ws_ in (wraps or {}).items()}
        hi, lo, dim = red(hi), red(lo), red(dim)
        back = el
    else:
        back = []
    allrels = [r for dj in disjuncts for r in dj if r is not S.false]
    disjuncts = [dj for dj in disjuncts if S.false not in dj] or [[S.false]]
    syms = sorted((dim - hi).free_symbols | lo.free_symbols | set().union(*[r.free_symbols for r in allrels]) | set().union(*[(a - b).free_symbols for a, b in loops.values()]) |
                  set().union(*[w.free_symbols for ws in wraps.values() for w in ws]), key=str)
    if len(syms) > 6:
        return ("UNKNOWN", "too many size symbols for the witness grid", None)
    if not free_fields and any(str(x).startswith("F_") for x in syms):
        return ("UNKNOWN", "a refuting shape would have to choose the value of a data member, which the class (not the caller) controls", None)
    for vals in itertools.product(range(0, 4), repeat=len(syms)):
        env = dict(zip(syms, vals))
        try:
            if not any(all(bool(r.subs(env)) for r in dj) for dj in disjuncts):
                continue
            wrapped = {nm for nm, ws in wraps.items() if any(w.subs(env) < 0 for w in ws)}
            if not all((b - a).subs(env) > 0 for nm, (a, b) in loops.items() if nm not in wrapped):
                continue
            if wrapped:
                return ("REFUTED", "the bound of the loop on '%s' is computed in unsigned arithmetic and wraps around below zero, so the index runs past the dimension" % sorted(wrapped)[0],
                        _full_env(S, env, back))
            h, d, l = hi.subs(env), dim.subs(env), lo.subs(env)
            if not (h.is_number and d.is_number and l.is_number):
                continue
            if h >= d:
                return ("REFUTED", "index reaches %s while the dimension is %s" % (h, d), _full_env(S, env, back))
            if l < 0:
                return ("REFUTED", "index reaches %s (below 0: unsigned wrap-around)" % l, _full_env(S, env, back))
        except Exception:
            continue
    return ("UNKNOWN", "neither proved nor refuted on the witness grid", None)


def sites(fun):
    """element accesses of the function: (node, container node, [index nodes], kind)"""
    f = fun.f
    out = []
    for c in f.calls():
        nm = c["callee"]["name"]
        if "obj" not in c:
            continue
        o = f.obj(c)
        ty = strip(o).get("ty") or ""
        if nm == "operator()" and is_matrix_type(ty) and len(f.args(c)) == 2:
            out.append((c, o, f.args(c), "matrix"))
        elif nm in ("operator[]", "at") and is_vector_type(ty) and len(f.args(c)) == 1:
            out.append((c, o, f.args(c), "vector"))
        elif nm in ("front", "back") and is_vector_type(ty):
            out.append((c, o, [], "front/back"))
    return out


def analyse(fb, f, invariants=None, public=None, extra_rels=None, free_fields=False):
    """yields (site node, container text, index text, dim-kind, verdict, detail, witness)"""
    S = sp()
    fun = Fun(fb, f, invariants, extra_rels, free_fields)
    if public is None:
        public = f.rec.get("access", 0) in (0, None)
    helper = None if public else "private/protected helper: its arguments are chosen by the class, not by a caller"
    res = []
    for c, cont, idxs, kind in sites(fun):
        d = fun.dims(cont, c)
        rels, unparsed = fun.facts(c)
        ctext = render(cont)
        if kind == "front/back":
            if d is None or d[0] is None:
                res.append((c, ctext, c["callee"]["name"] + "()", "size", "UNKNOWN", "size unknown", None))
                continue
            cl, why = fun.control(c)
            v = decide(S, S.Integer(0), S.Integer(0), d[0], rels, cl, unparsed, disjuncts=fun.disjuncts, blocked=helper or why or (fun.local_atoms and "path condition on a local flag"), free_fields=fun.free_fields)
            res.append((c, ctext, c["callee"]["name"] + "()", "size") + v)
            continue
        dims = d if d is not None else (None,) * len(idxs)
        for pos, idx in enumerate(idxs):
            b = fun.index_bounds(idx, c)
            dimk = ("rows", "cols")[pos] if kind == "matrix" else "size"
            if b is None or pos >= len(dims):
                res.append((c, ctext, render(idx), dimk, "UNKNOWN", "index is not a size/loop expression", None))
                continue
            lo, hi, loops = b
            approx = loops.pop("~approx", None) is not None
            extra_w = {k_[6:]: [loops.pop(k_)] for k_ in [k2 for k2 in loops if k2.startswith("~wrap:")]}
            cursors = [loops.pop(k_) for k_ in [k2 for k2 in loops if k2.startswith("~exact:")]]
            wraps = {nm: ws for (nm, _), ws in fun.wrap.items() if nm in loops}
            wraps.update(extra_w)
            cl, why = fun.control(c)
            loops = dict(cl, **loops)
            v = decide(S, lo, hi, dims[pos], rels, loops, unparsed, disjuncts=fun.disjuncts, blocked=helper or why or (fun.local_atoms and "path condition on a local flag") or (approx and "triangular loop: start approximated by its smallest value"), wraps=wraps, free_fields=fun.free_fields)
            res.append((c, ctext, render(idx), dimk) + v)
    return res
