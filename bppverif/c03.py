"""C03 Aliased parameters track their source through every update, copy and renaming.

 D1 bulk aliasing terminates: no state-preserving cycle in any loop of aliasParameters(map&, bool)
 D2 assignment resets what it re-populates by insertion (independent list, listener registry)
 D3 copies act on the copy's own parameters: cloned listeners are re-targeted before being stored, shared pointers come from the copy itself
 D4 refusal before mutation in aliasParameters(p1,p2) / unaliasParameters
 D5 bookkeeping triples (registry, listener on the source, independent list) on every normal path; setNamespace renames listeners before the base renames
 D6 constraint reconciliation installs the same (intersected) constraint on both parameters
"""
from .facts import kids, strip, walk, is_call, render, local_inits, AnalysisBroken
from . import e1

EXPLANATION = ("Static analysis of structural clauses of C03 in AbstractParameterAliasable.cpp: D1 every loop of the bulk-alias routine is free of "
               "state-preserving cycles (a cyclic CFG path, exception edges included, that writes nothing outliving the iteration is a definite hang); D2 operator= "
               "clears the members it re-fills by insertion; D3 in copy constructor and operator= every cloned listener receives setParameterList(&own list) before it "
               "is registered/attached and every shared parameter pointer is obtained from the copy itself; D4 no explicit throw is reachable after a mutation in "
               "alias/unalias (lazy initialisation of the independent list whitelisted); D5 alias/unalias perform their three bookkeeping operations on every normal "
               "path and setNamespace renames listeners before delegating; D6 both parameters receive the same reconciled constraint. NOT decided: value equality through "
               "chains after arbitrary histories, cycles longer than two (the refusal only looks for the direct reverse link), listener firing order.")

APA = "bpp::AbstractParameterAliasable"
MUTATORS = {"setConstraint", "addParameterListener", "removeParameterListener", "deleteParameter", "erase", "shareParameter", "removeConstraint"}


def _d1(chk, fb):
    fs = [f for f in fb.q(APA + "::aliasParameters") if "std::map" in f.key]
    if len(fs) != 1:
        raise AnalysisBroken("anchor vanished: AbstractParameterAliasable::aliasParameters(map&, bool)")
    f = fs[0]
    cfg = f.cfg
    eff = e1.Effects(fb)
    loops = e1.natural_loops(cfg)
    chk.floor("D1", "loops in bulk aliasing", len(loops), 3)
    for head, body in sorted(loops.items()):
        path = e1.stuck_cycle(f, cfg, head, body, eff)
        term = cfg.blocks[head].get("term")
        ln = f.nodes.get(term) or f.nodes.get(cfg.blocks[head].get("looptarget")) or f.body
        # name the loop by its condition
        tc = cfg.blocks[head].get("termcond")
        cond = render(f.nodes[tc]) if tc in f.nodes else "?"
        if path:
            via = ""
            for a, b in zip(path, path[1:]):
                if (a, b) in cfg.synthetic:
                    via = " via an exception edge into a handler that continues"
            chk.refuted("D1", f.key, "stuck-cycle:" + cond, f.loc(ln),
                        "the loop on '%s' has a cyclic path%s that writes nothing outliving the iteration (blocks %s): once taken it repeats forever" % (cond, via, path),
                        witness={"blocks": path, "input": "a name map in which an entry's target is itself an alias that is processed later, e.g. {b->c, c->a}"})
        else:
            chk.proved("D1", f.key, "loop-progress:" + cond, f.loc(ln), "every cyclic path writes loop state or leaves")


def _own_member_fills(f):
    """(member, call) for insertions into the object's own members"""
    out = []
    for n in f.calls():
        c = n["callee"]
        if "obj" not in n:
            continue
        o = strip(f.obj(n))
        if c["name"] in ("shareParameter", "addParameter", "shareParameters", "addParameters", "push_back", "insert", "emplace"):
            if o["k"] == "MemberExpr" and o["member"]["this"] and o["member"]["kind"] == "field":
                out.append((o["member"]["name"], n))
        if c["name"] == "operator=" and is_call(o) and o["callee"]["name"] == "operator[]":
            oo = strip(f.obj(o))
            if oo is not None and oo["k"] == "MemberExpr" and oo["member"]["this"]:
                out.append((oo["member"]["name"], n))
    return out


def _d2(chk, fb):
    f = fb.q1(APA + "::operator=")
    cfg = f.cfg
    fills = _own_member_fills(f)
    # insertions made by a same-class helper that receives the source object count at the helper's call site
    src = f.params[0]["name"]
    for c in f.calls():
        if c["callee"].get("inrepo") and c["callee"].get("cls") == APA and any(render(a) == src for a in f.args(c)):
            for t in fb.targets(c):
                if t.body is not None:
                    fills += [(m, c) for m, _ in _own_member_fills(t)]
    members = sorted({m for m, _ in fills})
    chk.floor("D2", "members re-populated by insertion in operator=", len(members), 2)
    for m in members:
        resets = []
        for n in f.calls():
            if "obj" in n and n["callee"]["name"] in ("clear", "reset", "deleteParameters", "resize") and render(f.obj(n)) == m:
                resets.append(n)
            if n["callee"]["name"] == "operator=" and "obj" in n and render(f.obj(n)) == m:
                resets.append(n)
        for n in walk(f.body):
            if n["k"] == "BinaryOperator" and n["op"] == "=" and render(kids(n)[0]) == m:
                resets.append(n)
        first = [c for mm, c in fills if mm == m]
        ok = any(all(cfg.dominates(cfg.stmt_block(r), cfg.stmt_block(c)) and e1.before_in_function(cfg, r, c) for c in first) for r in resets)
        if ok:
            chk.proved("D2", f.key, "assign-reset:" + m, f.loc(first[0]), "%s is cleared before it is re-populated" % m)
        else:
            chk.refuted("D2", f.key, "assign-reset:" + m, f.loc(first[0]),
                        "operator= re-populates '%s' by insertion without clearing it first: entries of the assigned-to object survive (the copy constructor starts from an empty member)" % m,
                        witness={"history": "x.alias(a,b); y = x  -> y still lists b as independent / keeps stale objects"})


def _d3(chk, fb):
    fns = [f for f in fb.q(APA + "::AbstractParameterAliasable") if f.rec.get("copyctor")] + [fb.q1(APA + "::operator=")]
    chk.floor("D3", "copy functions", len(fns), 2)
    work = list(fns)
    seen_keys = set()
    while work:
        f = work.pop(0)
        if f.key in seen_keys:
            continue
        seen_keys.add(f.key)
        cfg = f.cfg
        src = f.params[0]["name"]
        sub = local_inits(f)
        # cloned listeners
        clones = []
        for n in walk(f.body):
            if n["k"] == "DeclStmt":
                for d in n["decls"]:
                    if d.get("init") is not None and any(is_call(x) and x["callee"]["name"] == "clone" for x in walk(d["init"])) and "Listener" in d["ty"]:
                        clones.append((d, n))
        if not clones:
            # the copy work may have been moved into a helper of the same class that receives the source object
            helpers = []
            for c in f.calls():
                if c["callee"].get("inrepo") and c["callee"].get("cls") == APA and any(render(a) == src for a in f.args(c)):
                    for t in fb.targets(c):
                        if t.body is not None and t.cfg is not None and t.params and t.key not in seen_keys:
                            helpers.append(t)
            if helpers:
                work.extend(helpers)
                chk.proved("D3", f.key, "listener-cloned", f.loc(), "copy delegated to %s (analysed in its place)" % ", ".join(h.name for h in helpers))
                continue
            if any(is_call(x) and x["callee"]["name"] == "clone" for x in f.all_nodes()):
                chk.unknown("D3", f.key, "listener-cloned", f.loc(), "clone() present but not in the recognised declaration form")
                continue
            chk.refuted("D3", f.key, "listener-cloned", f.loc(), "copy no longer clones the alias listeners of the source (neither here nor in a helper that receives the source)")
            continue
        for d, ds in clones:
            uses = []
            retarget = []
            for n in f.calls():
                if n["callee"]["name"] == "setParameterList" and "obj" in n and render(f.obj(n)) == d["name"]:
                    retarget.append(n)
                elif any(x["k"] == "DeclRefExpr" and x["decl"]["id"] == d["id"] for a in f.args(n) for x in walk(a)):
                    uses.append(n)
            good = [r for r in retarget if render(f.args(r)[0], sub).replace("this.", "") in ("&getParameters_()",)]
            if not good and retarget:
                tgt_ = render(f.args(retarget[0])[0], sub)
                if src in tgt_:
                    chk.refuted("D3", f.key, "listener-retargeted", f.loc(retarget[0]), "cloned listener '%s' is re-targeted to the SOURCE object's list (%s): the copy's aliases act on the source's parameters" % (d["name"], tgt_))
                else:
                    chk.unknown("D3", f.key, "listener-retargeted", f.loc(retarget[0]), "cloned listener '%s' is re-targeted to '%s', which is not recognised as the copy's own list" % (d["name"], tgt_))
                continue
            if not good:
                chk.refuted("D3", f.key, "listener-retargeted", f.loc(ds), "cloned listener '%s' is never re-targeted to the copy's own parameter list (setParameterList(&getParameters_()))" % d["name"])
                continue
            bad = [u for u in uses if not any(cfg.dominates(cfg.stmt_block(r), cfg.stmt_block(u)) and e1.before_in_function(cfg, r, u) for r in good)]
            if bad:
                chk.refuted("D3", f.key, "listener-retargeted", f.loc(bad[0]), "cloned listener '%s' is stored/attached at %s before setParameterList(&getParameters_())" % (d["name"], f.loc(bad[0])))
            else:
                chk.proved("D3", f.key, "listener-retargeted", f.loc(good[0]), "%d uses of '%s', all after re-targeting" % (len(uses), d["name"]))
            attach = [u for u in uses if u["callee"]["name"] == "addParameterListener"]
            reg = [u for u in uses if u["callee"]["name"] in ("operator=", "insert", "emplace", "insert_or_assign")]
            # the attaching (or registering) half may live in a helper of the class that receives the cloned listener
            via = []
            for u in uses:
                if u["callee"].get("inrepo") and u["callee"]["name"] not in ("addParameterListener", "setParameterList", "operator=", "insert", "emplace", "insert_or_assign"):
                    for t in fb.targets(u):
                        if t.body is not None:
                            if any(x["callee"]["name"] == "addParameterListener" for x in t.calls()):
                                attach.append(u)
                                via.append(t.name)
                            if any(x["callee"]["name"] in ("operator=", "insert", "emplace") and "obj" in x and "aliasListenersRegister_" in render(t.obj(x)) for x in t.calls()):
                                reg.append(u)
                                via.append(t.name)
            if attach and reg:
                chk.proved("D3", f.key, "listener-registered-and-attached", f.loc(attach[0]), "registered in the map and attached to the parameters that carried the old id" + (" (through %s)" % ", ".join(sorted(set(via))) if via else ""))
            elif uses and (not (attach or reg) or any(u["callee"]["name"] not in ("addParameterListener", "setParameterList", "operator=", "insert", "emplace", "insert_or_assign") and u not in attach and u not in reg for u in uses)):
                chk.unknown("D3", f.key, "listener-registered-and-attached", f.loc(ds), "the cloned listener is handed to %s: registration/attachment not recognised there" % sorted({u["callee"]["name"] for u in uses}))
            else:
                chk.refuted("D3", f.key, "listener-registered-and-attached", f.loc(ds), "cloned listener is not both registered and attached")
        # shared parameter pointers must come from the copy itself
        for m, n in _own_member_fills(f):
            if n["callee"]["name"] not in ("shareParameter", "shareParameters"):
                continue
            a = strip(f.args(n)[0])
            root = e1._root_decl(a)
            if is_call(a) and ("obj" not in a or (root and root[0] == "this")):
                chk.proved("D3", f.key, "own-parameters:" + m, f.loc(n), "shares %s" % render(a)[:80])
            elif root and root[0] == "v" and root[2] == src:
                chk.refuted("D3", f.key, "own-parameters:" + m, f.loc(n), "the copy's '%s' shares parameter objects of the source '%s' (%s) instead of its own" % (m, src, render(a)[:80]))
            else:
                chk.unknown("D3", f.key, "own-parameters:" + m, f.loc(n), "origin of %s not resolved" % render(a)[:80])


def _mutation_sites(f, whitelist_first_lazy=True):
    out = []
    for n in f.calls():
        c = n["callee"]
        if c["name"] in MUTATORS and "obj" in n:
            out.append(n)
        elif c["name"] == "operator=" and "obj" in n:
            o = strip(f.obj(n))
            if is_call(o) and o["callee"]["name"] == "operator[]":
                out.append(n)
        elif c["name"] in ("shareParameters",) and "obj" in n:
            # lazy initialisation of the independent list: semantically neutral (whitelisted, reason in DESIGN.md)
            pass
    return out


def _d4(chk, fb):
    targets = [f for f in fb.q(APA + "::aliasParameters") if "std::map" not in f.key] + [fb.q1(APA + "::unaliasParameters")]
    chk.floor("D4", "alias/unalias functions", len(targets), 2)
    for f in targets:
        cfg = f.cfg
        muts = _mutation_sites(f)
        throws = [n for n in walk(f.body) if n["k"] == "CXXThrowExpr"]
        chk.floor("D4", "explicit refusals in " + f.name, len(throws), 3)
        bad = None
        for t in throws:
            for m in muts:
                if e1.before_in_function(cfg, m, t):
                    bad = (m, t)
                    break
            if bad:
                break
        if bad:
            chk.refuted("D4", f.key, "refusal-after-mutation", f.loc(bad[1]),
                        "the refusal at %s can be reached after the mutation '%s' at %s: a refused request leaves the object changed" % (f.loc(bad[1]), render(bad[0])[:70], f.loc(bad[0])))
        else:
            chk.proved("D4", f.key, "refusal-before-mutation", f.loc(), "%d refusals, %d mutation sites, none precedes a refusal" % (len(throws), len(muts)))


def _d5(chk, fb):
    f = [x for x in fb.q(APA + "::aliasParameters") if "std::map" not in x.key][0]
    cfg = f.cfg
    want = {"register": lambda n: n["callee"]["name"] == "operator=" and "obj" in n and "aliasListenersRegister_" in render(f.obj(n)),
            "attach": lambda n: n["callee"]["name"] == "addParameterListener",
            "drop-independent": lambda n: n["callee"]["name"] == "deleteParameter" and "obj" in n and render(f.obj(n)) == "independentParameters_"}
    for name, pred in want.items():
        blocks = e1.blocks_with(cfg, lambda n: is_call(n) and pred(n))
        ok, path = e1.must_pass(cfg, blocks) if blocks else (False, None)
        if ok:
            chk.proved("D5", f.key, "alias:" + name, f.loc(), "performed on every normal path")
        else:
            chk.refuted("D5", f.key, "alias:" + name, f.loc(), "aliasing can return normally without the '%s' step" % name, witness={"blocks": path})
    # attach must be on the source (p1) and the dropped name the alias (p2)
    sub = local_inits(f)
    for n in f.calls():
        if n["callee"]["name"] == "addParameterListener":
            o = render(f.obj(n), sub)
            if f.params[0]["name"] in o and f.params[1]["name"] not in o:
                chk.proved("D5", f.key, "alias:listener-on-source", f.loc(n), "listener attached to %s" % o)
            else:
                chk.refuted("D5", f.key, "alias:listener-on-source", f.loc(n), "the alias listener is attached to '%s', not to the source parameter '%s'" % (o, f.params[0]["name"]))
        if n["callee"]["name"] == "deleteParameter" and "obj" in n and render(f.obj(n)) == "independentParameters_":
            a = render(f.args(n)[0], sub)
            if f.params[1]["name"] in a and f.params[0]["name"] not in a:
                chk.proved("D5", f.key, "alias:alias-leaves-independents", f.loc(n), "deleteParameter(%s)" % a)
            else:
                chk.refuted("D5", f.key, "alias:alias-leaves-independents", f.loc(n), "the parameter removed from the independent list is '%s', not the aliased '%s'" % (a, f.params[1]["name"]))
    g = fb.q1(APA + "::unaliasParameters")
    cfg = g.cfg
    want = {"detach": lambda n: n["callee"]["name"] == "removeParameterListener",
            "unregister": lambda n: n["callee"]["name"] == "erase" and "obj" in n and render(g.obj(n)) == "aliasListenersRegister_",
            "restore-independent": lambda n: n["callee"]["name"] == "shareParameter" and "obj" in n and render(g.obj(n)) == "independentParameters_"}
    for name, pred in want.items():
        blocks = e1.blocks_with(cfg, lambda n: is_call(n) and pred(n))
        ok, path = e1.must_pass(cfg, blocks) if blocks else (False, None)
        if ok:
            chk.proved("D5", g.key, "unalias:" + name, g.loc(), "performed on every normal path")
        else:
            chk.refuted("D5", g.key, "unalias:" + name, g.loc(), "un-aliasing can return normally without the '%s' step" % name, witness={"blocks": path})
    # setNamespace: listeners renamed (using the old namespace) before the base class switches the namespace
    h = fb.q1(APA + "::setNamespace")
    cfg = h.cfg
    renames = [n for n in h.calls() if n["callee"]["name"] == "rename"]
    base = [n for n in h.calls() if n["callee"]["qname"] == "bpp::AbstractParametrizable::setNamespace"]
    if not renames or not base:
        chk.refuted("D5", h.key, "rename-listeners", h.loc(), "setNamespace no longer renames the registered listeners and delegates to the base class")
    else:
        uses_old = any(is_call(x) and x["callee"]["name"] == "getNamespace" for n in renames for x in walk(h.enclosing(n, ("IfStmt", "CXXForRangeStmt", "ForStmt")) or n))
        early = [b for b in base if any(e1.before_in_function(cfg, b, r) for r in renames)]
        loops = [n for n in walk(h.body) if n["k"] in ("CXXForRangeStmt", "ForStmt")]
        over_all = any("aliasListenersRegister_" in render(h.nodes[l["rangeinit"]]) for l in loops if "rangeinit" in l)
        # std::for_each / iterator loop over begin()..end() of the registry is the same range
        over_all = over_all or any(c["callee"]["qname"] in ("std::for_each", "std::transform") and len(h.args(c)) >= 2 and render(h.args(c)[0]).replace("this.", "") == "aliasListenersRegister_.begin()"
                                   and render(h.args(c)[1]).replace("this.", "") == "aliasListenersRegister_.end()" for c in h.calls())
        over_all = over_all or any(l["k"] == "ForStmt" and "init" in l and "aliasListenersRegister_.begin()" in render(h.nodes[l["init"]]) and "cond" in l and "aliasListenersRegister_.end()" in render(h.nodes[l["cond"]]) for l in loops)
        partial = any(c["callee"]["qname"] in ("std::for_each",) and len(h.args(c)) >= 2 and "aliasListenersRegister_" in render(h.args(c)[0]) for c in h.calls()) and not over_all
        if early and uses_old:
            chk.refuted("D5", h.key, "rename-before-base", h.loc(early[0]), "the base class switches the namespace before the listeners are renamed, but their renaming strips the OLD namespace (getNamespace())")
        elif not over_all and not loops and not partial:
            chk.unknown("D5", h.key, "rename-listeners", h.loc(), "the traversal of the listener registry is not in a recognised form")
        elif not over_all:
            chk.refuted("D5", h.key, "rename-listeners", h.loc(), "listener renaming does not range over the whole registry")
        else:
            chk.proved("D5", h.key, "rename-before-base", h.loc(), "all registered listeners renamed with the old namespace, then base setNamespace")


def _d6(chk, fb):
    f = [x for x in fb.q(APA + "::aliasParameters") if "std::map" not in x.key][0]
    sub = local_inits(f)
    sets = [n for n in f.calls() if n["callee"]["name"] == "setConstraint"]
    chk.floor("D6", "setConstraint sites", len(sets), 3)
    # the intersection branch: a local built from operator& is installed on both
    inter = None
    for n in walk(f.body):
        if n["k"] == "DeclStmt":
            for d in n["decls"]:
                if d.get("init") is not None and any(is_call(x) and x["callee"]["name"] == "operator&" for x in walk(d["init"])):
                    inter = d
    if inter is None:
        chk.refuted("D6", f.key, "intersection", f.loc(), "differing constraints are no longer reconciled through operator&")
        return
    both = [render(f.obj(n), sub) for n in sets if render(f.args(n)[0]) == inter["name"]]
    if len(set(both)) == 2:
        chk.proved("D6", f.key, "intersection-on-both", f.loc(), "intersection installed on %s" % sorted(set(both)))
    else:
        chk.refuted("D6", f.key, "intersection-on-both", f.loc(), "the intersected constraint is installed on %s only" % sorted(set(both)))
    ops = [x for x in walk(inter["init"]) if is_call(x) and x["callee"]["name"] == "operator&"][0]
    operands = sorted(render(x, sub) for x in ([f.obj(ops)] + f.args(ops)))
    if any(f.params[0]["name"] in o for o in operands) and any(f.params[1]["name"] in o for o in operands):
        chk.proved("D6", f.key, "intersection-operands", f.loc(ops), "operands: %s" % operands)
    else:
        chk.refuted("D6", f.key, "intersection-operands", f.loc(ops), "the intersection is not taken between the two parameters' constraints: %s" % operands)


def _d7(chk, fb):
    """removing one alias listener must not disturb the others: Parameter::removeParameterListener erases exactly the
    listeners whose id matches (erase-remove idiom: the first iterator of a two-iterator erase ending at end() must come
    from std::remove_if / std::remove; an iterator from find / find_if would erase the whole tail)"""
    fs = [f for f in fb.q("bpp::Parameter::removeParameterListener") if f.body is not None]
    if len(fs) != 1:
        raise AnalysisBroken("anchor vanished: Parameter::removeParameterListener")
    f = fs[0]
    er = [c for c in f.calls() if c["callee"]["name"] == "erase" and "obj" in c and render(f.obj(c)).replace("this.", "") == "listeners_"]
    if not er:
        chk.unknown("D7", f.key, "removes-only-matching", f.loc(), "no erase on listeners_ recognised")
        return
    for c in er:
        args = f.args(c)
        first = strip(args[0]) if args else None
        src = first["callee"]["name"] if first is not None and is_call(first) else (render(first) if first is not None else "?")
        if len(args) == 2 and render(args[1]).replace("this.", "") == "listeners_.end()":
            if src in ("remove_if", "remove"):
                chk.proved("D7", f.key, "removes-only-matching", f.loc(c), "erase(%s(...), end()): exactly the matching listeners" % src)
            elif src in ("find_if", "find", "lower_bound", "upper_bound", "begin") or (first is not None and first["k"] == "DeclRefExpr"):
                chk.refuted("D7", f.key, "removes-only-matching", f.loc(c), "erase(%s(...), listeners_.end()) removes the matching listener AND every listener registered after it: un-aliasing one parameter silently detaches the other aliases of the same source" % src,
                            witness={"history": "a aliased by b, c, d; unaliasParameters(a, b); set a; c and d no longer follow"})
            else:
                chk.unknown("D7", f.key, "removes-only-matching", f.loc(c), "first iterator comes from '%s'" % src)
        elif len(args) == 1:
            chk.unknown("D7", f.key, "removes-only-matching", f.loc(c), "single-iterator erase (removes one occurrence)")
        else:
            chk.unknown("D7", f.key, "removes-only-matching", f.loc(c), "erase form not recognised")


def _d8(chk, fb):
    """index-space agreement: an AliasParameterListener stores a position and the list the position refers to; wherever one is
    built (make_shared / new / direct construction) the position argument is the result of whichParameterHasName on the very list
    whose address is passed next to it.  A position looked up in another member list (the independent parameters, which shrink
    with every alias) addresses a different entry: refuted.  Other forms of the position are not judged"""
    import re

    def which(text):
        t = text.replace("this.", "").replace("this->", "")
        if re.match(r"^&?\(?(getParameters_?\(\)|parameters_)\)?$", t):
            return "the object's parameter list"
        m = re.match(r"^&?\(?(\w+_)\)?$", t)
        return ("member " + m.group(1)) if m else None
    n = 0
    for f in fb.concrete_fns():
        if f.body is None or not (f.cls or "").startswith(APA):
            continue
        sub = local_inits(f)
        for c in list(f.calls()) + [x for x in f.all_nodes() if x["k"] in ("CXXConstructExpr", "CXXNewExpr")]:
            args = None
            if is_call(c) and c["callee"]["name"] in ("make_shared", "make_unique") and "AliasParameterListener" in (c.get("ty") or ""):
                args = f.args(c)
            elif c["k"] == "CXXConstructExpr" and "AliasParameterListener" in (c.get("ty") or "") and len(kids(c)) == 4:
                args = kids(c)
            if not args or len(args) != 4:
                continue
            n += 1
            pos, lst = render(args[1], sub), render(args[2], sub)
            m = re.match(r"^(.*)\.whichParameterHasName\(", pos)
            L2 = which(lst)
            con = "position-in-own-list"
            if not m or L2 is None or which(m.group(1)) is None:
                chk.unknown("D8", f.key, con, f.loc(c), "position '%s' / list '%s' not in a recognised form" % (pos[:50], lst[:30]))
            elif which(m.group(1)) == L2:
                chk.proved("D8", f.key, con, f.loc(c), "position looked up in %s, listener bound to the same list" % L2)
            else:
                chk.refuted("D8", f.key, con, f.loc(c),
                            "the listener is bound to %s but its position is looked up in %s: as soon as an earlier parameter has left that list the position names another entry, and updates of the source are written to the wrong parameter" % (L2, which(m.group(1))),
                            witness={"history": "parameters (a, b, c); aliasParameters(a, b); aliasParameters(a, c): the second listener gets position 1 (b) instead of 2 (c)"})
    chk.floor("D8", "alias listener constructions", n, 1)


def run(chk, fb, tier):
    chk.rule("D1", "no loop of the bulk-alias routine has a state-preserving cyclic path (exception edges included)")
    chk.rule("D2", "operator= clears every member it re-populates by insertion")
    chk.rule("D3", "copy ctor / operator=: cloned listeners get setParameterList(&own list) before registration/attachment; shared parameter pointers come from the copy itself")
    chk.rule("D4", "alias/unalias: no explicit throw is reachable after a mutation site")
    chk.rule("D5", "alias/unalias perform their three bookkeeping steps on every normal path, on the right parameters; setNamespace renames listeners before the base call")
    chk.rule("D6", "differing constraints: operator& of both constraints installed on both parameters")
    fb.need_field(APA, "independentParameters_")
    fb.need_field(APA, "aliasListenersRegister_")
    _d1(chk, fb)
    _d2(chk, fb)
    _d3(chk, fb)
    _d4(chk, fb)
    _d5(chk, fb)
    _d6(chk, fb)
    chk.rule("D7", "Parameter::removeParameterListener erases exactly the listeners with the given id (erase-remove idiom), so that un-aliasing one link leaves the other links attached")
    _d7(chk, fb)
    chk.rule("D8", "an AliasParameterListener is built with a position looked up (whichParameterHasName) in the same list whose address it is given")
    _d8(chk, fb)
    from . import copyrule
    chk.rule("DC", "copy constructor and copy assignment copy the same members; operator= empties a member container before re-populating it; copy functions never assign through a stored shared pointer")
    copyrule.check(chk, fb, "DC", lambda c: c["file"].endswith(("Bpp/Numeric/AbstractParameterAliasable.h",)), floor=2)
    chk.assume("the lazy initialisation independentParameters_.shareParameters(getParameters()) at the top of aliasParameters is semantically neutral (whitelisted effect)")
    chk.assume("only IntervalConstraint implements ConstraintInterface: operator& never returns null")
