"""C17 Writing then reading gives back the same data (narrow claim: writer/reader tables and clone agreement).

 D1 description-language tables: family names written by getName() are dispatched by the reader; argument keys the writer
    emits are looked up by the reader; the reader's 'Family.param' keys name parameters that the family's constructor creates
 D2 tokeniser bookkeeping: a split string is recorded only after the scan position is final for that token; every token that
    is followed by more input has its split recorded
 D3 the three '*'-wildcard matchers are identical algorithms
"""
import re
import json
from .facts import kids, strip, walk, is_call, render, local_inits, AnalysisBroken
from . import e1

EXPLANATION = ("Static analysis of structural clauses of C17: D1 the writer and the reader of the distribution description language are compared as tables extracted from the syntax tree "
               "(family names returned by every concrete distribution's getName() vs names the reader dispatches on; 'key=' literals written vs keys read; 'Family.param' keys of the reader vs Parameter "
               "names created by that family's constructors); D2 in both tokenisers every splits_.push_back(...) is the last write of the iteration to the variables its argument reads, and every "
               "tokens_.push_back on a path that continues scanning is paired with a splits_.push_back; D3 the two ApplicationTools::matchingParameters overloads and "
               "ParameterList::getMatchingParameterNames are alpha-equivalent statement sequences. NOT decided: numeric round trips, the decimal-number grammar (hand-written automaton), "
               "nested tokenising, glob semantics of the shared algorithm, variable-resolution fixed point, delimited-table round trip.")

FMT = "bpp::BppODiscreteDistributionFormat"
DD = "bpp::DiscreteDistributionInterface"


def _d1(chk, fb):
    rd = fb.q1(FMT + "::readDiscreteDistribution")
    wr = [f for f in fb.q(FMT + "::writeDiscreteDistribution")]
    if not wr:
        raise AnalysisBroken("anchor vanished: writeDiscreteDistribution")
    wr = wr[0]
    # reader: names compared with distName, keys looked up in args
    rnames, rkeys, rparams = set(), set(), set()
    for n in walk(rd.body):
        if is_call(n) and n.get("op") == "==" or (n["k"] == "BinaryOperator" and n.get("op") == "=="):
            t = render(n)
            m = re.match(r'\(distName == "(\w+)"\)', t)
            if m:
                rnames.add(m.group(1))
        if is_call(n) and n["callee"]["name"] in ("operator[]", "find") and "obj" in n:
            o = render(rd.obj(n))
            lits = [x["val"] for x in walk(n) if x["k"] == "StringLiteral"]
            if o == "args" and lits:
                rkeys.add(lits[0])
            if o == "unparsedArguments_" and lits and re.match(r"^[A-Za-z]+\.[A-Za-z0-9]+$", lits[0]) and strip(rd.args(n)[0])["k"] != "CXXOperatorCallExpr" and "+" not in render(rd.args(n)[0]):
                rparams.add(lits[0])
    chk.floor("D1", "family names dispatched by the reader", len(rnames), 9)
    chk.floor("D1", "argument keys read", len(rkeys), 12)
    # families: getName() literals of concrete classes
    fams = {}
    for cls in fb.subclasses("bpp::AbstractDiscreteDistribution"):
        if fb.classes[cls].get("abstract"):
            continue
        for g in fb.q(cls + "::getName"):
            lits = [x["val"] for x in walk(g.body) if x["k"] == "StringLiteral"]
            if lits:
                fams[cls] = (lits[0], g)
    chk.floor("D1", "concrete families with a name", len(fams), 10)
    for cls, (name, g) in sorted(fams.items()):
        if cls.endswith("DirichletDiscreteDistribution"):
            chk.proved("D1", g.key, "family-name-read:" + name, g.loc(), "exempt: multivariate, not part of the description language")
            continue
        if name in rnames:
            chk.proved("D1", g.key, "family-name-read:" + name, g.loc(), "reader dispatches on \"%s\"" % name)
        else:
            chk.refuted("D1", g.key, "family-name-read:" + name, g.loc(), "%s::getName() returns \"%s\", which the writer emits as the family name, but readDiscreteDistribution has no branch for it (known: %s)" % (cls.split("::")[-1], name, sorted(rnames)),
                        witness={"history": "write a %s, read the text back" % name})
    # a family name the writer (or the reader) tests for by comparing getName() with a literal must be a name some family has
    known = {nm for nm, _ in fams.values()}
    for g in (wr, rd):
        inits = local_inits(g)
        for n in walk(g.body):
            ops = None
            if n["k"] == "BinaryOperator" and n.get("op") in ("==", "!="):
                ops = kids(n)
            elif is_call(n) and n.get("op") in ("==", "!=") and n["callee"].get("via") == "operator":
                ops = ([g.obj(n)] if "obj" in n else []) + list(g.args(n))
            if not ops or len(ops) != 2:
                continue
            lit = [x for o in ops for x in walk(o) if x["k"] == "StringLiteral"]
            other = [o for o in ops if not any(x["k"] == "StringLiteral" for x in walk(o))]
            if len(lit) != 1 or len(other) != 1:
                continue
            src = render(other[0], inits)
            if "getName()" not in src or "getParameter" in src or "Parameter" in (strip(other[0]).get("ty") or ""):
                continue
            o_ = strip(other[0])
            if not any(is_call(y) and y["callee"]["name"] == "getName" and "Distribution" in (y["callee"].get("cls") or "") for y in list(walk(other[0])) + ([z for z in walk(inits[o_["decl"]["id"]])] if o_["k"] == "DeclRefExpr" and o_["decl"]["id"] in inits else [])):
                continue
            nm = lit[0]["val"]
            if nm in known:
                chk.proved("D1", g.key, "family-name-tested:" + nm, g.loc(n), "\"%s\" is the name of a family" % nm)
            else:
                chk.refuted("D1", g.key, "family-name-tested:" + nm, g.loc(n),
                            "%s compares a distribution's getName() with \"%s\", a name no concrete family returns (names: %s): the branch is dead and what it writes or reads for that family is skipped" % (g.name, nm, sorted(known)),
                            witness={"history": "write the family whose name is close to \"%s\" and read the text back" % nm})
    # writer keys
    wkeys = {}
    for n in walk(wr.body):
        if n["k"] == "StringLiteral":
            for m in re.finditer(r"([A-Za-z]+)=\(?$", n.get("val") or ""):
                wkeys.setdefault(m.group(1), n)
    chk.floor("D1", "argument keys written", len(wkeys), 6)
    for k, n in sorted(wkeys.items()):
        ok = k in rkeys or (k == "dist" and any(x.startswith("dist") for x in rkeys))
        if ok:
            chk.proved("D1", wr.key, "key-read:" + k, wr.loc(n), "writer emits '%s=', reader looks it up" % k)
        else:
            chk.refuted("D1", wr.key, "key-read:" + k, wr.loc(n), "the writer emits the argument '%s=' but the reader never looks up \"%s\" (keys read: %s)" % (k, k, sorted(rkeys)))
    # reader parameter keys vs constructors
    created = set()
    for f in fb.concrete_fns():
        if f.rec.get("ctor") and "/Prob/" in f.file:
            for nw in [x for x in f.all_nodes() if x["k"] == "CXXNewExpr" and x.get("newty") in ("bpp::Parameter", "bpp::AutoParameter")]:
                ce = [x for x in kids(nw) if x["k"] == "CXXConstructExpr"]
                if ce and f.args(ce[0]):
                    lits = [x["val"] for x in walk(f.args(ce[0])[0]) if x["k"] == "StringLiteral"]
                    if lits:
                        created.add("".join(lits[:1]))
    for k in sorted(rparams):
        if k in created:
            chk.proved("D1", rd.key, "param-key:" + k, rd.loc(), "a constructor creates Parameter(\"%s\")" % k)
        else:
            chk.refuted("D1", rd.key, "param-key:" + k, rd.loc(), "the reader stores the argument under \"%s\" but no distribution constructor creates a parameter of that name: the value read is never applied" % k)
    chk.floor("D1", "Family.param keys of the reader", len(rparams), 10)


def _d2(chk, fb):
    ctors = [c for c in fb.q("bpp::StringTokenizer::StringTokenizer") if len(c.params) >= 3] + [c for c in fb.q("bpp::NestedStringTokenizer::NestedStringTokenizer") if len(c.params) >= 4]
    chk.floor("D2", "tokeniser constructors", len(ctors), 2)
    n_s = 0
    for f in ctors:
        cfg = f.cfg
        loops = e1.natural_loops(cfg)
        splits = [c for c in f.calls() if c["callee"]["name"] in ("push_back", "emplace_back") and "obj" in c and render(f.obj(c)) == "splits_"]
        tokens = [c for c in f.calls() if c["callee"]["name"] in ("push_back", "emplace_back") and "obj" in c and render(f.obj(c)) == "tokens_"]
        for sp_ in splits:
            n_s += 1
            reads = {x["decl"]["id"]: x["decl"]["name"] for x in walk(f.args(sp_)[0]) if x["k"] == "DeclRefExpr" and x["decl"]["kind"] == "local"}
            b = cfg.stmt_block(sp_)
            heads = [h for h, bl in loops.items() if b in bl]
            if not heads:
                continue
            head = max(heads, key=lambda h: len(loops[h]))     # outermost scanning loop
            body = loops[head]
            late = None
            for w in f.all_nodes():
                tgt = None
                if w["k"] in ("BinaryOperator", "CompoundAssignOperator") and w.get("op") in ("=", "+=", "-="):
                    tgt = strip(kids(w)[0])
                elif w["k"] == "UnaryOperator" and w["op"] in ("++", "--"):
                    tgt = strip(kids(w)[0])
                if tgt is None or tgt["k"] != "DeclRefExpr" or tgt["decl"]["id"] not in reads:
                    continue
                wb = cfg.stmt_block(w)
                if wb not in body:
                    continue
                after = (wb == b and e1._elem_index(cfg, cfg.blocks[b]["el"], w) > e1._elem_index(cfg, cfg.blocks[b]["el"], sp_)) or \
                        (wb != b and e1.path_exists(cfg, b, wb, avoid_blocks={head} | (set(cfg.blocks) - body)))
                if after:
                    late = (w, reads[tgt["decl"]["id"]])
                    break
            if late:
                chk.refuted("D2", f.key, "split-after-final-position", f.loc(sp_),
                            "the separator '%s' is recorded and '%s' is still modified afterwards in the same iteration (%s): the recorded separator is shorter than the text actually skipped, so re-joining tokens and separators does not reproduce the input" % (
                                render(f.args(sp_)[0])[:50], late[1], f.loc(late[0])),
                            witness={"input": "two or more consecutive delimiters between tokens (solid delimiter, empty tokens not allowed)"})
            else:
                chk.proved("D2", f.key, "split-after-final-position", f.loc(sp_), "no later write to %s in the iteration" % sorted(reads.values()))
        if f.cls == "bpp::StringTokenizer":
            # a token pushed on a path that continues scanning (delimiter found) is paired with a split on that path
            for t in tokens:
                b = cfg.stmt_block(t)
                # 'a delimiter was found': the position returned by the search made in this iteration (a local declared inside the
                # scanning loop) differs from npos on every path to the push
                inloop = {d["id"] for dn in f.all_nodes() if dn["k"] == "DeclStmt" and f.enclosing(dn, ("WhileStmt", "ForStmt", "DoStmt")) is not None for d in dn["decls"]}

                def delim_found(tt, tr, nd):
                    nd = strip(nd)
                    if nd is None or nd["k"] != "BinaryOperator" or nd.get("op") not in ("!=", "==") or not tt.endswith("npos)"):
                        return False
                    l_ = strip(kids(nd)[0])
                    return l_["k"] == "DeclRefExpr" and l_["decl"]["id"] in inloop and ((nd["op"] == "!=" and tr is True) or (nd["op"] == "==" and tr is False))
                found = any(delim_found(tt, tr, nd) for a in cfg.dom.get(b, ()) for s_ in cfg.succ[a] if (s_ == b or cfg.dominates(s_, b)) and set(cfg.pred[s_]) == {a} for tt, tr, nd in e1.edge_facts(cfg, a, s_))
                if not found:
                    continue
                heads = [h for h, bl in loops.items() if b in bl]
                head = max(heads, key=lambda h: len(loops[h])) if heads else None
                sb = {cfg.stmt_block(s_) for s_ in splits}
                ok = head is not None and not e1.path_exists(cfg, b, head, avoid_blocks=sb - {b}) if b not in sb else True
                n_s += 1
                if ok:
                    chk.proved("D2", f.key, "token-has-split", f.loc(t), "every continuing path records the separator")
                else:
                    chk.refuted("D2", f.key, "token-has-split", f.loc(t), "a token followed by a delimiter can be stored without its separator being recorded: unparseRemainingTokens() then pairs tokens with the wrong separators")
    chk.floor("D2", "split/token bookkeeping sites", n_s, 4)


def _alpha(f, root):
    """alpha-normalised statement sequence of a loop body: locals/params renamed by first appearance"""
    names = {}

    def nm(d):
        key = d["id"]
        if key not in names:
            names[key] = "v%d" % len(names)
        return names[key]
    out = []

    def r(n):
        n = strip(n)
        if n is None:
            return "?"
        k = n["k"]
        if k == "DeclRefExpr" and n["decl"]["kind"] in ("local", "param"):
            return nm(n["decl"])
        if k == "DeclRefExpr":
            return n["decl"].get("qname") or n["decl"]["name"]
        if k in ("IntegerLiteral", "FloatingLiteral", "CharacterLiteral", "CXXBoolLiteralExpr", "StringLiteral"):
            return repr(n.get("val"))
        if is_call(n):
            c = n["callee"]
            nodes = {x["id"]: x for x in walk(n)}
            parts = ([r(nodes[n["obj"]])] if "obj" in n else []) + [r(nodes[i]) for i in n.get("args", [])]
            return "%s(%s)" % (c["name"], ",".join(parts))
        ks = kids(n)
        return "%s%s(%s)" % (k, n.get("op", ""), ",".join(r(x) for x in ks))
    for n in walk(root):
        if n["k"] == "DeclStmt":
            for d in n["decls"]:
                key = d["id"]
                if key not in names:
                    names[key] = "v%d" % len(names)
                out.append("decl %s %s = %s" % (names[key], d["ty"], r(d["init"]) if d.get("init") is not None else ""))
        elif n["k"] in ("IfStmt", "WhileStmt"):
            out.append("%s %s" % (n["k"], r(f.nodes[n["cond"]])))
        elif n["k"] in ("BinaryOperator", "CompoundAssignOperator") and n.get("op", "").endswith("=") and n["op"] not in ("==", "!=", "<=", ">="):
            out.append("assign " + r(n))
        elif is_call(n) and n["callee"]["name"] in ("push_back", "emplace_back", "operator="):
            out.append("call " + r(n).replace("emplace_back(", "push_back(", 1))
        elif n["k"] == "BreakStmt":
            out.append("break")
    return out


def _d3(chk, fb):
    fns = [f for f in fb.q("bpp::ApplicationTools::matchingParameters")] + [fb.q1("bpp::ParameterList::getMatchingParameterNames")]
    chk.floor("D3", "wildcard matcher copies", len(fns), 3)
    seqs = {}
    for f in fns:
        lps = [n for n in walk(f.body) if n["k"] in ("ForStmt", "CXXForRangeStmt")]
        if not lps:
            raise AnalysisBroken("matcher without element loop: " + f.key)
        body = f.nodes[lps[0]["body"]]
        seq = _alpha(f, body)
        # drop the statement that fetches the candidate name (differs by container type) and normalise the result push
        seq = [s for s in seq if not re.match(r"decl v\d+ std::basic_string<char> = (at|getName|MemberExpr|first)", s) and "getName(" not in s and ".first" not in s]
        seqs[f.key] = (f, seq)
    keys = sorted(seqs)
    for k in keys:
        f, s = seqs[k]
        others = [seqs[o][1] for o in keys if o != k]
        # compare modulo variable numbering: renumber by order of appearance within the filtered sequence
        def canon(seq):
            m = {}
            out = []
            for st in seq:
                def rep(mo):
                    v = mo.group(0)
                    if v not in m:
                        m[v] = "x%d" % len(m)
                    return m[v]
                out.append(re.sub(r"\bv\d+\b", rep, st))
            return out
        cs = canon(s)
        cos = [canon(o) for o in others]
        if all(cs == o for o in cos):
            chk.proved("D3", f.key, "matcher-clone", f.loc(), "%d statements, alpha-equivalent to the other two copies" % len(cs))
        elif cos[0] == cos[1] and len(cs) == len(cos[0]) and sum(1 for a, b in zip(cs, cos[0]) if a != b) == 1:
            a, b = [(a, b) for a, b in zip(cs, cos[0]) if a != b][0]
            chk.refuted("D3", f.key, "matcher-clone", f.loc(), "this copy of the '*' matcher differs from its two siblings (which agree) in one statement: '%s' vs '%s': at least one of them disagrees with glob semantics" % (a[:90], b[:90]))
        elif all(cs != o for o in cos) and cos[0] == cos[1]:
            chk.unknown("D3", f.key, "matcher-clone", f.loc(), "this copy has a different shape from its two siblings (refactored?)")
        else:
            chk.unknown("D3", f.key, "matcher-clone", f.loc(), "copies differ pairwise")


def _d4(chk, fb):
    """agreement of a selector with what it selects:
       (a) KeyvalTools: 'if (nested)' builds a NestedStringTokenizer on the true branch and a StringTokenizer on the false branch, in
           every function that has the flag (writer-side changeKeyvals and reader-side multipleKeyvals must tokenise alike);
       (b) DataTable: a duplicate-name refusal that throws Duplicated...RowName... tests rowNames_, ...ColumnName... tests colNames_"""
    n = 0
    for f in fb.concrete_fns():
        # members of KeyvalTools and file-local helpers of KeyvalTools.cpp that receive the flag
        if f.body is None or not (f.cls == "bpp::KeyvalTools" or f.file.endswith("Bpp/Text/KeyvalTools.cpp")):
            continue
        flagnames = [p_["name"] for p_ in f.params if (p_.get("ty") or "") in ("bool", "const bool") and "nest" in p_["name"].lower() and not p_["name"].lower().startswith(("no", "not", "without", "plain", "flat"))]
        if not flagnames:
            continue
        fl = flagnames[0]
        cfg = f.cfg
        if cfg is None:
            continue
        sites = [x for x in f.all_nodes() if x["k"] in ("CXXConstructExpr", "CXXTemporaryObjectExpr") and x.get("callee", {}).get("cls") in ("bpp::NestedStringTokenizer", "bpp::StringTokenizer")
                 and not x["callee"].get("name", "").startswith("operator") and len(f.args(x)) >= 2]

        def under(site, truth):
            blk = cfg.stmt_block(site)
            if blk is None:
                return None

            def est(facts):
                for t, tr, nd in facts:
                    tt = render(nd).replace("this.", "")
                    if tt == fl and tr is truth:
                        return True
                    if tt in ("!%s" % fl, "(!%s)" % fl) and tr is (not truth):
                        return True
                return False
            ok, _ = e1.guarded_by(cfg, blk, est)
            return ok
        seen_cls = {}
        for x in sites:
            cls_ = x["callee"]["cls"].split("::")[-1]
            ut, uf = under(x, True), under(x, False)
            seen_cls.setdefault(cls_, []).append((x, ut, uf))
        if not sites:
            continue
        n += 1
        bad = None
        unsure = False
        for cls_, lst in seen_cls.items():
            for x, ut, uf in lst:
                want_true = cls_ == "NestedStringTokenizer"
                if (want_true and ut) or (not want_true and uf):
                    continue
                if (want_true and uf) or (not want_true and ut):
                    bad = (x, cls_, want_true)
                else:
                    unsure = True
        if bad:
            x, cls_, want_true = bad
            chk.refuted("D4", f.key, "nested-selects-tokenizer", f.loc(x), "%s builds a %s when %s is %s: bracketed argument values are %s, what the writer emits no longer reads back" % (
                f.name, cls_, fl, "false" if want_true else "true", "split at their inner commas" if not want_true else "kept whole although nesting was not requested"), witness={"input": "Invariant(dist=Gamma(n=4,alpha=1),p=0.1)"})
        elif unsure or len(seen_cls) < 2:
            chk.unknown("D4", f.key, "nested-selects-tokenizer", f.loc(sites[0]), "tokenizer constructions not all under a test of '%s'" % fl)
        else:
            chk.proved("D4", f.key, "nested-selects-tokenizer", f.loc(sites[0]), "%s -> NestedStringTokenizer, otherwise StringTokenizer" % fl)
    chk.floor("D4", "tokenizer selections on the 'nested' flag", n, 1)
    m = 0
    for f in fb.concrete_fns():
        if f.cls != "bpp::DataTable" or f.body is None:
            continue
        for t in walk(f.body):
            if t["k"] != "CXXThrowExpr":
                continue
            th = str(t.get("thrown")) + render(t)
            kind = "row" if "DuplicatedTableRowName" in th else "col" if "DuplicatedTableColumnName" in th else None
            if kind is None:
                continue
            iff = f.enclosing(t, ("IfStmt",))
            if iff is None:
                continue
            ct = render(f.nodes[iff["cond"]], local_inits(f))
            uses_row, uses_col = "rowNames_" in ct, "colNames_" in ct
            if not (uses_row or uses_col):
                continue
            m += 1
            ok = (kind == "row" and uses_row and not uses_col) or (kind == "col" and uses_col and not uses_row)
            if ok:
                chk.proved("D4", f.key, "duplicate-test:" + kind, f.loc(t), "%s-name refusal tests %s" % (kind, "rowNames_" if kind == "row" else "colNames_"))
            else:
                chk.refuted("D4", f.key, "duplicate-test:" + kind, f.loc(t), "%s refuses a duplicated %s name after searching %s: a table whose row and column labels overlap cannot be read back, and repeated %s labels are accepted" % (
                    f.name, "row" if kind == "row" else "column", "colNames_" if uses_col else "rowNames_", "row" if kind == "row" else "column"), witness={"input": "a square table with labels A,B,C on both axes"})
    chk.floor("D4", "duplicate-name refusals in DataTable that search a name vector", m, 2)


_NUM = re.compile(r'toString\(\(?(\w+)(?: ([+-]) (\d+))?\)+ \+ "_"')


def _component_numbers(f, node, where):
    """(first number, text) of every '<counter + c>_' name part built under `node`; None when the counter's start is unreadable"""
    out = []
    txt = render(node, local_inits(f))
    for m in _NUM.finditer(txt):
        var, sign, c = m.group(1), m.group(2), int(m.group(3) or 0)
        off = -c if sign == "-" else c
        start = None
        x = f.enclosing(where, ("ForStmt",))
        while x is not None and start is None:
            ini = f.nodes.get(x.get("init")) if x.get("init") is not None else None
            if ini is not None:
                for d in walk(ini):
                    if d["k"] == "DeclStmt":
                        for dd in d["decls"]:
                            if dd["name"] == var and dd.get("init") is not None:
                                lit = strip(dd["init"])
                                while lit is not None and lit["k"] in ("ImplicitCastExpr", "CXXFunctionalCastExpr", "CStyleCastExpr") and kids(lit):
                                    lit = strip(kids(lit)[0])
                                if lit is not None and lit["k"] == "IntegerLiteral":
                                    start = lit["val"]
            x = f.enclosing(x, ("ForStmt",))
        out.append((None if start is None else start + off, m.group(0)))
    return out


def _d6(chk, fb):
    """the arguments of the k-th nested distribution of a mixture are filed by the reader under '<k>_' names; the mixture
    itself names the parameters of its k-th component '<k>_...' (vNestedPrefix_).  Both number from the same first value."""
    own = []
    for q in fb.q("bpp::MixtureOfDiscreteDistributions::MixtureOfDiscreteDistributions"):
        for n in q.all_nodes():
            if is_call(n) and n["callee"]["name"] == "push_back" and render(q.obj(n)) == "vNestedPrefix_":
                own += [(q, n, b, t) for b, t in _component_numbers(q, q.args(n)[0], n)]
    rd = fb.q1("bpp::BppODiscreteDistributionFormat::readDiscreteDistribution")
    filed = []
    for n in rd.all_nodes():
        if is_call(n) and n.get("op") == "=" and "obj" in n and render(rd.obj(n)).startswith("unparsedArguments_["):
            filed += [(rd, n, b, t) for b, t in _component_numbers(rd, rd.obj(n), n)]
    chk.floor("D6", "numbered name parts (mixture constructor + reader)", min(len(own), 1) + min(len(filed), 1), 2)
    bases = set(b for _, _, b, _ in own)
    for f, n, b, t in filed:
        if b is None or None in bases or len(bases) != 1:
            chk.unknown("D6", f.key, "component-numbering", f.loc(n), "first number of '%s' or of the mixture's own prefixes not readable" % t)
        elif b == list(bases)[0]:
            chk.proved("D6", f.key, "component-numbering", f.loc(n), "nested arguments are filed from number %d on, as the mixture names its components" % b)
        else:
            chk.refuted("D6", f.key, "component-numbering", f.loc(n),
                        "the reader files the arguments of the nested distributions under numbers starting at %d ('%s') while MixtureOfDiscreteDistributions names its components from %d on: "
                        "the recorded arguments of component k carry the names of another component" % (b, t, list(bases)[0]),
                        witness={"input": "Mixture(probas=..., dist1=Gamma(n=2,alpha=3), dist2=...): getUnparsedArguments() versus the parameter names of the built object"})


def run(chk, fb, tier):
    chk.rule("D1", "getName() of every concrete family is dispatched by readDiscreteDistribution; every 'key=' the writer emits is looked up by the reader; every 'Family.param' key of the reader names a Parameter a constructor creates")
    chk.rule("D2", "splits_.push_back(E) is the last write of the iteration to the locals E reads; a token stored on a delimiter-found path has its split recorded before the loop continues")
    chk.rule("D3", "matchingParameters (2 overloads) and getMatchingParameterNames are alpha-equivalent statement sequences")
    chk.rule("D4", "selector agreement: 'nested' selects NestedStringTokenizer / StringTokenizer the same way in every KeyvalTools function; DataTable's duplicate-row (column) refusals search rowNames_ (colNames_)")
    _d1(chk, fb)
    _d2(chk, fb)
    _d3(chk, fb)
    _d4(chk, fb)
    chk.rule("D6", "the reader files the arguments of a mixture's nested distributions under the same component numbers the mixture uses for its own parameter prefixes")
    _d6(chk, fb)
    from . import argswap
    chk.rule("D5", "argument/parameter name agreement at forwarding calls in the anchored units (same-typed parameters such as the decimal separator and the exponent marker must not be swapped)")
    files = tuple(json.loads(l)["anchors"]["files"] for l in open(__import__("os").path.join(__import__("os").path.dirname(__import__("os").path.dirname(__file__)), "properties.jsonl")) if json.loads(l)["id"] == "C17")[0]
    argswap.check(chk, fb, "D5", [f for f in fb.concrete_fns() if f.body is not None and any(f.relfile.endswith(x) for x in files)], 6)
    chk.assume("DirichletDiscreteDistribution is not part of the description language (named exemption)")
