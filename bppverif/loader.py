"""Builds the fact base a rule module asks for: whole library (84 units, main-file definitions) plus an
umbrella unit that includes every header and the module's template instantiations."""
import os
from . import facts, umbrella


def load(pid, tier, mod):
    fb = facts.FactBase()
    units, extra, missing = facts.library_units(fb.src)
    if missing:
        raise facts.AnalysisBroken("units listed in CMakeLists.txt but absent: %s" % missing)
    want = getattr(mod, "UNITS", None)
    if want is not None and tier == "quick" and not getattr(mod, "WHOLE_PROGRAM", True):
        units = [u for u in units if u in want]
    headers = umbrella.all_headers(fb.src)
    um = umbrella.includes(headers)
    inst = getattr(mod, "instantiations", None)
    if inst:
        um += inst(fb, headers)
    fb.extract(units, umbrella=um)
    fb.extra_units = extra
    return fb
