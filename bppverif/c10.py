"""C10 Optimisers never end worse than they start, converge when convex, respect bounds (narrow claim).

 D1 evaluation budget: every loop from which doStep()/step() of the same optimiser is reachable exits on nbEval_ vs nbEvalMax_
 D2 constraint policy: init applies the policy to its own parameter list before doInit; autoParameter/ignoreConstraints cover every
    entry; one-dimensional bracketing / line search inside an optimiser is handed the optimiser's own (policy-applied) list
 D3 a step that gives up after trial evaluations restores the objective to the backup point before returning the old value
 D4 no loop of the optimiser units has a feasible state-preserving cycle
"""
import re
from .facts import kids, strip, walk, is_call, render, local_inits, AnalysisBroken
from . import e1

EXPLANATION = ("Static analysis of structural clauses of C10 over the 16 anchored optimiser units: D1 the only loops that drive doStep()/step() of the optimiser itself are capped by nbEval_ < nbEvalMax_ "
               "(nested optimiser objects run their own capped loop); D2 AbstractOptimizer::init installs the automatic/ignore policy on parameters_ before doInit evaluates anything, the policy loops cover "
               "0..size, copy/assignment re-apply it, and bracketing / line-search helpers called from doInit/doStep receive getParameters() (the policy-wrapped list), never the caller's raw list; D3 in steps that keep a "
               "backup of the objective's parameters, every return of the stored value reachable after a trial evaluation passes a restore from the backup after the last trial; D4 loop progress; D5 evaluation-point freshness; D6 evaluation accounting; "
               "D7 abscissa/value pairing of every move, shift, swap, selection and bracket update of an evaluated point. "
               "NOT decided: descent, value = f(point) beyond the pairing of transfers, convergence, feasibility of each evaluation, bracketing triples (all values of runs); termination of the outward bracketing loops depends on objective values.")

AO = "bpp::AbstractOptimizer"
UNITS = ["AbstractOptimizer.cpp", "BfgsMultiDimensions.cpp", "ConjugateGradientMultiDimensions.cpp", "PowellMultiDimensions.cpp", "DownhillSimplexMethod.cpp", "SimpleMultiDimensions.cpp",
         "SimpleNewtonMultiDimensions.cpp", "BrentOneDimension.cpp", "GoldenSectionSearch.cpp", "NewtonOneDimension.cpp", "NewtonBacktrackOneDimension.cpp", "OneDimensionOptimizationTools.cpp",
         "DirectionFunction.cpp", "MetaOptimizer.cpp", "OptimizationStopCondition.cpp", "AutoParameter.cpp"]


def _fns(fb):
    return [f for f in fb.concrete_fns() if any(f.file.endswith("/" + u) for u in UNITS) and f.body is not None and f.cfg is not None]


def _this_call(f, c):
    return "obj" not in c or strip(f.obj(c))["k"] == "CXXThisExpr"


def _reaches_step(fb, f, c, depth=3, seen=None):
    """does the call c (on this) reach doStep()/step() of the same object?"""
    seen = seen or set()
    if c["callee"]["name"] in ("doStep", "step") and _this_call(f, c):
        return True
    if depth == 0 or not c["callee"].get("inrepo") or not _this_call(f, c):
        return False
    for t in fb.targets(c):
        if t.key in seen or t.body is None:
            continue
        seen.add(t.key)
        for cc in t.calls():
            if _reaches_step(fb, t, cc, depth - 1, seen):
                return True
    return False


def _d1(chk, fb, fns):
    n = 0
    for f in fns:
        cfg = f.cfg
        loops = e1.natural_loops(cfg)
        for head, body in loops.items():
            drives = []
            for b in body:
                for el in cfg.blocks[b]["el"]:
                    nd = f.nodes.get(el)
                    if nd is not None and is_call(nd) and _reaches_step(fb, f, nd):
                        drives.append(nd)
            if not drives:
                continue
            n += 1
            tc = cfg.blocks[head].get("termcond")
            cond = f.nodes.get(tc)
            # the whole condition of the loop statement
            lp = f.enclosing(drives[0], ("ForStmt", "WhileStmt", "DoStmt"))
            ctext = render(f.nodes[lp["cond"]]) if lp is not None and "cond" in lp else (render(cond) if cond else "")
            if "nbEval_" in ctext and "nbEvalMax_" in ctext:
                chk.proved("D1", f.key, "budget-loop", f.loc(drives[0]), "step-driving loop exits on '%s'" % ctext[:70])
            else:
                chk.refuted("D1", f.key, "budget-loop", f.loc(drives[0]), "a loop drives %s() of the optimiser but its condition '%s' does not compare nbEval_ with nbEvalMax_: the run is not bounded by the evaluation budget" % (drives[0]["callee"]["name"], ctext[:70]))
    chk.floor("D1", "step-driving loops", n, 1)
    # overriders of optimize() reach the capped loop
    base = [f for f in fb.q(AO + "::optimize")]
    if not base:
        raise AnalysisBroken("anchor vanished: AbstractOptimizer::optimize")
    for k in fb.overriders(base[0].key):
        g = fb.fns.get(k)
        if g is None or g.body is None:
            continue
        calls_base = any(c["callee"]["qname"] == AO + "::optimize" for c in g.calls())
        if calls_base:
            chk.proved("D1", g.key, "override-uses-capped-loop", g.loc(), "delegates to AbstractOptimizer::optimize()")
        else:
            chk.refuted("D1", g.key, "override-uses-capped-loop", g.loc(), "optimize() is overridden without going through the capped loop of AbstractOptimizer::optimize()")


def _policy_sites(fb, f, depth=2):
    """sites of f that apply the constraint policy: (node, 'auto'|'ign'|'both', guard holds).  A direct autoParameter() /
    ignoreConstraints() call is guarded when it is dominated by 'policy == CONSTRAINTS_AUTO' / '== CONSTRAINTS_IGNORE'; a call
    of a helper of the same object that itself applies both halves under their guards counts as 'both'"""
    out = []
    cfg = f.cfg
    for c in f.calls():
        nm = c["callee"]["name"]
        if nm == "autoParameter":
            ok, _ = e1.guarded_by(cfg, cfg.stmt_block(c), lambda facts: any("CONSTRAINTS_AUTO" in t and (("==" in t and tr) or ("!=" in t and tr is False)) for t, tr, _ in facts))
            out.append((c, "auto", ok))
        elif nm == "ignoreConstraints":
            ok, _ = e1.guarded_by(cfg, cfg.stmt_block(c), lambda facts: any("CONSTRAINTS_IGNORE" in t and (("==" in t and tr) or ("!=" in t and tr is False)) for t, tr, _ in facts))
            out.append((c, "ign", ok))
        elif depth > 0 and nm not in ("doInit", "doStep", "init", "step", "optimize") and ("obj" not in c or render(f.obj(c)) == "this"):
            for t in fb.targets(c, static_type_only=True):
                if t.key == f.key or t.body is None or not fb.derives_from(t.cls or "", AO):
                    continue
                inner = _policy_sites(fb, t, depth - 1)
                a = [x for x in inner if x[1] in ("auto", "both")]
                i = [x for x in inner if x[1] in ("ign", "both")]
                if a and i:
                    out.append((c, "both", all(x[2] for x in a + i)))
    return out


def _d2(chk, fb, fns):
    init = fb.q1(AO + "::init")
    cfg = init.cfg
    doinit = [c for c in init.calls() if c["callee"]["name"] == "doInit"]
    sites = _policy_sites(fb, init)
    auto = [c for c, k, g in sites if k in ("auto", "both")]
    ign = [c for c, k, g in sites if k in ("ign", "both")]
    setp = [n for n in init.calls() if n["callee"]["name"] == "operator=" and "obj" in n and render(init.obj(n)) == "parameters_"]
    if doinit and auto and ign and setp:
        both = auto + [x for x in ign if x not in auto]
        ok_order = all(e1.before_in_function(cfg, a, doinit[0]) and not e1.before_in_function(cfg, doinit[0], a) for a in both) and all(e1.before_in_function(cfg, s_, a) for s_ in setp for a in both)
        okG = all(g for c, k, g in sites)
        if ok_order and okG:
            chk.proved("D2", init.key, "policy-before-doInit", init.loc(auto[0]), "parameters_ = params; policy applied; then doInit")
        elif ok_order:
            chk.unknown("D2", init.key, "policy-before-doInit", init.loc(auto[0]), "the policy is applied between the copy and doInit, but the test selecting autoParameter()/ignoreConstraints() is not in a recognised form")
        else:
            chk.refuted("D2", init.key, "policy-before-doInit", init.loc(), "init does not install the constraint policy on its own list before doInit evaluates the objective")
    else:
        chk.refuted("D2", init.key, "policy-before-doInit", init.loc(), "init no longer copies the parameters and applies autoParameter()/ignoreConstraints() before doInit")
    for q, call in ((AO + "::autoParameter", "setParameter"), (AO + "::ignoreConstraints", "removeConstraint")):
        f = fb.q1(q)
        from .c02 import _loop_range
        cs = [c for c in f.calls() if c["callee"]["name"] == call]
        lp = f.enclosing(cs[0], ("ForStmt", "CXXForRangeStmt", "WhileStmt")) if cs else None
        rng = _loop_range(f, lp, None) if lp is not None else None
        whole = rng is not None and rng[0] == "whole" and rng[1] == "parameters_"
        if not cs:
            chk.refuted("D2", f.key, "policy-covers-all", f.loc(), "%s no longer calls %s on the elements of parameters_" % (q.split("::")[-1], call))
            continue
        if q.endswith("autoParameter") and whole:
            # the replacement must be an AutoParameter built from the same element
            aps = [d for n in walk(f.body) if n["k"] == "DeclStmt" for d in n["decls"] if "AutoParameter" in d["ty"] and d.get("init")]
            elem = rng[2]
            def is_elem(t):
                return re.search(elem, t) is not None if elem.startswith("\\b") else elem in t
            if aps and not is_elem(render(aps[0]["init"])):
                chk.refuted("D2", f.key, "policy-covers-all", f.loc(cs[0]), "the AutoParameter installed for an element is built from '%s', not from that element" % render(aps[0]["init"])[:60])
                continue
        if whole:
            chk.proved("D2", f.key, "policy-covers-all", f.loc(cs[0]), "loop over every element of parameters_")
        elif lp is not None and lp["k"] == "ForStmt" and rng[0] == "other" and re.search(r"parameters_\.size\(\)", rng[1]) and re.search(r"= [1-9]|size\(\) - \d|\+ \d+\) <", rng[1]):
            chk.refuted("D2", f.key, "policy-covers-all", f.loc(lp), "%s loops over '%s': not every element of parameters_" % (q.split("::")[-1], rng[1][:80]))
        else:
            chk.unknown("D2", f.key, "policy-covers-all", f.loc(cs[0]), "%s: the traversal of parameters_ is not one of the recognised whole-container loops" % q.split("::")[-1])
    for f in [x for x in fb.q(AO + "::AbstractOptimizer") if x.rec.get("copyctor")] + [fb.q1(AO + "::operator=")]:
        re_auto = [c for c, k, g in _policy_sites(fb, f) if k in ("auto", "both") and g]
        if re_auto and e1.guarded_by(f.cfg, f.cfg.stmt_block(re_auto[0]), lambda facts: any(t == "isInitialized_" and tr for t, tr, _ in facts))[0]:
            chk.proved("D2", f.key, "copy-reapplies-policy", f.loc(re_auto[0]), "policy re-applied when initialised")
        else:
            chk.refuted("D2", f.key, "copy-reapplies-policy", f.loc(), "copy does not re-apply the constraint policy to the copied parameter list")
    # bracketing / line search receive the optimiser's own list
    n = 0
    for f in fns:
        if f.name not in ("doInit", "doStep"):
            continue
        raw = {p["name"] for p in f.params if "ParameterList" in p["ty"]}
        for c in f.calls():
            if c["callee"].get("cls") == "bpp::OneDimensionOptimizationTools" and c["callee"]["name"] in ("bracketMinimum", "inwardBracketMinimum", "lineMinimization", "lineSearch"):
                for a, pt in zip(f.args(c), c["callee"]["ptypes"]):
                    if "ParameterList" not in pt:
                        continue
                    n += 1
                    t = render(a)
                    if t in raw:
                        chk.refuted("D2", f.key, "search-uses-policy-list:" + c["callee"]["name"], f.loc(c),
                                    "%s is handed the caller's raw list '%s' instead of getParameters(): under the automatic policy the search works on parameters that still throw at their bounds" % (c["callee"]["name"], t),
                                    witness={"input": "a bounded parameter whose minimiser lies near the bound; outward bracketing overshoots and a ConstraintException escapes init()"})
                    else:
                        chk.proved("D2", f.key, "search-uses-policy-list:" + c["callee"]["name"], f.loc(c), "receives %s" % t[:40])
    chk.floor("D2", "bracketing / line-search call sites", n, 3)


def _d3(chk, fb, fns):
    n = 0
    for f in fns:
        if f.name != "doStep":
            continue
        cfg = f.cfg
        # backup locals: ParameterList initialised from the objective's current parameters
        bck = []
        for nd in walk(f.body):
            if nd["k"] == "DeclStmt":
                for d in nd["decls"]:
                    if d.get("init") is not None and "ParameterList" in d["ty"] and re.search(r"getFunction\(\)\.getParameters\(\)|function_\.getParameters\(\)", render(d["init"])):
                        bck.append(d)
        if not bck:
            continue
        trials = [c for c in f.calls() if c["callee"]["name"] == "f" and f.args(c) and render(f.args(c)[0]) not in ("this.getParameters()", "getParameters()")]
        restores = [c for c in f.calls() if c["callee"]["name"] == "setParameters" and f.args(c) and render(f.args(c)[0]) in {b["name"] for b in bck}]
        rets = [r for r in walk(f.body) if r["k"] == "ReturnStmt" and kids(r) and render(kids(r)[0]) == "currentValue_"]
        for r in rets:
            n += 1
            rb = cfg.stmt_block(r)
            resb = {cfg.stmt_block(x) for x in restores}
            bad = None
            for t in trials:
                tb = cfg.stmt_block(t)
                if not e1.path_exists(cfg, tb, rb):
                    continue
                # a path trial -> return that avoids every restore block
                if rb in resb:
                    el = cfg.blocks[rb]["el"]
                    if any(e1._elem_index(cfg, el, x) < e1._elem_index(cfg, el, r) for x in restores if cfg.stmt_block(x) == rb):
                        continue
                starts = [s_ for s_ in cfg.succ[tb]]
                if any(e1.path_exists(cfg, s_, rb, avoid_blocks=resb - {rb}) for s_ in starts if s_ not in resb or s_ == rb):
                    bad = t
                    break
            if bad is not None:
                chk.refuted("D3", f.key, "restore-before-giving-up", f.loc(r),
                            "the step returns the stored value after the trial evaluation at %s without restoring the objective from '%s' in between: the objective is left at a rejected point while the optimiser reports the old one" % (f.loc(bad), bck[0]["name"]),
                            witness={"input": "a start where every halved step is still rejected (maximum number of corrections reached)"})
            else:
                chk.proved("D3", f.key, "restore-before-giving-up", f.loc(r), "every trial that can precede this return is followed by a restore from '%s'" % bck[0]["name"])
    chk.floor("D3", "give-up returns in steps with a backup", n, 1)


def _d4(chk, fb, fns):
    eff = e1.Effects(fb)
    nl = 0
    for f in fns:
        cfg = f.cfg
        for head, body in sorted(e1.natural_loops(cfg).items()):
            nl += 1
            tc = cfg.blocks[head].get("termcond")
            cond = render(f.nodes[tc])[:60] if tc in f.nodes else "?"
            ln = f.nodes.get(cfg.blocks[head].get("term")) or f.nodes.get(tc) or f.body
            path = e1.stuck_cycle(f, cfg, head, body, eff)
            if path:
                chk.refuted("D4", f.key, "stuck-cycle:" + cond, f.loc(ln), "the loop on '%s' has a feasible cyclic path (blocks %s) that writes nothing outliving the iteration" % (cond, path), witness={"blocks": path})
            else:
                chk.proved("D4", f.key, "loop-progress:" + cond, f.loc(ln), "every feasible cyclic path writes loop state or leaves")
    chk.floor("D4", "loops in the optimiser units", nl, 40)


def _events(f):
    """per CFG block, in evaluation order: ('set', key, arg text, variables read by the argument, node) |
    ('eval', key, node) | ('write', lvalue text, node)"""
    cfg = f.cfg
    out = {}
    for b, blk in cfg.blocks.items():
        evs = []
        for e in blk["el"]:
            n = f.nodes.get(e)
            if n is None:
                continue
            if is_call(n):
                nm = n["callee"]["name"]
                args = f.args(n)
                if nm == "setValue" and "obj" in n and len(args) >= 1:
                    o = render(f.obj(n))
                    key = None
                    m = re.match(r"^(\w+)\[0\]$", o)
                    if m:
                        key = m.group(1)
                    elif re.sub(r"^this(\.|->)", "", o) in ("getParameter_(0)",):
                        key = "getParameters()"
                    if key:
                        vars_ = {render(x) for x in walk(args[0]) if x["k"] in ("DeclRefExpr", "MemberExpr") and x.get("ty") in ("double", "const double")}
                        evs.append(("set", key, render(args[0]), vars_, n))
                        continue
                if nm == "f" and len(args) == 1 and "obj" in n:
                    evs.append(("eval", re.sub(r"^this(\.|->)", "", render(args[0])), n))
                    continue
                pt = n["callee"].get("ptypes") or []
                for i_, a in enumerate(args):
                    if i_ < len(pt) and pt[i_].endswith("&") and not pt[i_].startswith("const ") and "&&" not in pt[i_]:
                        evs.append(("write", render(a), n))
                if n["callee"].get("via") == "operator" and n.get("op") in ("=", "+=", "-=", "*=", "/=") and args:
                    evs.append(("write", render(args[0]), n))
            elif n["k"] in ("BinaryOperator", "CompoundAssignOperator") and n.get("op") in ("=", "+=", "-=", "*=", "/="):
                evs.append(("write", render(kids(n)[0]), n))
            elif n["k"] == "UnaryOperator" and n.get("op") in ("++", "--"):
                evs.append(("write", render(kids(n)[0]), n))
        out[b] = evs
    return out


def _d5(chk, fb, fns):
    """evaluation-point freshness: the objective is evaluated at the abscissa that the code then labels the value with:
    between the latest P[0].setValue(x) and f(P) nothing writes a variable x was computed from"""
    n_eval = 0
    for f in fns:
        evs = _events(f)
        cfg = f.cfg
        for b, lst in evs.items():
            for i_, ev in enumerate(lst):
                if ev[0] != "eval":
                    continue
                key = ev[1]
                # backward search
                stale = None
                found = False
                seen = set()
                todo = [(b, i_, frozenset())]
                while todo and stale is None:
                    blk, upto, W = todo.pop()
                    hit = False
                    Wc = set(W)
                    for j in range(upto - 1, -1, -1):
                        e2_ = evs[blk][j]
                        if e2_[0] == "write":
                            Wc.add(e2_[1])
                        elif e2_[0] == "set" and e2_[1] == key:
                            found = True
                            hit = True
                            bad = [v for v in e2_[3] if v in Wc]
                            if bad:
                                stale = (e2_, bad)
                            break
                    if hit:
                        continue
                    for p_ in cfg.pred[blk]:
                        st = (p_, frozenset(Wc))
                        if st in seen or len(seen) > 4000:
                            continue
                        seen.add(st)
                        todo.append((p_, len(evs[p_]), frozenset(Wc)))
                if not found:
                    continue
                n_eval += 1
                construct = "fresh-point:%s@%s" % (key, render(ev[2])[:40])
                # position-free construct: index among the evaluations of this function
                if stale is None:
                    chk.proved("D5", f.key, construct + "#%d" % n_eval, f.loc(ev[2]), "every path from the latest %s[0].setValue(..) leaves its argument untouched" % key)
                else:
                    se, bad = stale
                    chk.refuted("D5", f.key, "stale-point:%s" % ",".join(sorted(bad)), f.loc(ev[2]),
                                "the objective is evaluated with %s still set to the earlier value of %s (setValue at line %s), but %s has been changed since: the value is later recorded against the new abscissa" % (
                                    key, se[2], se[4].get("l"), ", ".join(sorted(bad))), witness={"history": "a bracketing / line-search step that takes this branch"})
    chk.floor("D5", "objective evaluations preceded by a setValue on the same list", n_eval, 22)


def _d6(chk, fb, fns):
    """evaluation accounting: the evaluations spent by a nested optimiser are charged to the caller's counter once per run of
    the nested optimiser (same loop iteration), and the counts returned by the line-search helpers are added, not dropped"""
    n = 0
    for f in fns:
        cfg = f.cfg
        adds = [a for a in f.all_nodes() if a["k"] == "CompoundAssignOperator" and a["op"] == "+=" and render(kids(a)[0]).replace("this->", "") in ("nbEval_",)]
        rets = [r for r in walk(f.body) if r["k"] == "ReturnStmt" and kids(r)]
        for c in f.calls():
            nm = c["callee"]["name"]
            if nm == "optimize" and "obj" in c and strip(f.obj(c))["k"] != "CXXThisExpr" and c["callee"].get("inrepo"):
                o = render(f.obj(c))
                n += 1
                lp = f.enclosing(c, ("ForStmt", "WhileStmt", "DoStmt", "CXXForRangeStmt"))
                users = [a for a in adds if ("%s.getNumberOfEvaluations()" % o) in render(kids(a)[1]) or ("%s->getNumberOfEvaluations()" % o) in render(kids(a)[1])]
                users += [r for r in rets if ("%s.getNumberOfEvaluations()" % o) in render(kids(r)[0])]
                good = [a for a in users if f.enclosing(a, ("ForStmt", "WhileStmt", "DoStmt", "CXXForRangeStmt")) is lp and e1.before_in_function(cfg, c, a)]
                construct = "nested-count:%s.optimize()" % o
                if good:
                    chk.proved("D6", f.key, construct, f.loc(c), "evaluations of %s are charged after each run (%s)" % (o, render(good[0])[:60]))
                elif users:
                    chk.refuted("D6", f.key, construct, f.loc(c), "%s.optimize() runs inside a loop but its evaluation count is added to nbEval_ outside that loop (line %s): only the last run is charged, the budget is overshot by the number of iterations" % (
                        o, users[0].get("l")), witness={"input": "a small evaluation budget and >= 2 parameters"})
                else:
                    chk.refuted("D6", f.key, construct, f.loc(c), "the evaluations spent by %s.optimize() are never added to nbEval_: the budget test does not see them" % o, witness={"input": "a small evaluation budget"})
            if nm in ("lineMinimization", "lineSearch") and c["callee"].get("inrepo") and (c["callee"].get("ret") or "").startswith("unsigned"):
                n += 1
                par = f.parent.get(c["id"])
                while par is not None and par["k"] in ("ImplicitCastExpr", "ParenExpr", "ExprWithCleanups", "MaterializeTemporaryExpr"):
                    par = f.parent.get(par["id"])
                construct = "helper-count:" + nm
                # ... or held in a local first ('const unsigned int used = lineMinimization(..); nbEval_ += used;')
                held = None
                if par is not None and par["k"] == "DeclStmt":
                    for d_ in par["decls"]:
                        if d_.get("init") is not None and f.contains(d_["init"], c) and strip(d_["init"]) is strip(c):
                            held = d_
                if par is not None and par in adds:
                    chk.proved("D6", f.key, construct, f.loc(c), "nbEval_ += %s(...)" % nm)
                elif held is not None and any(any(x["k"] == "DeclRefExpr" and x["decl"]["id"] == held["id"] for x in walk(kids(a)[1])) and e1.must_pass(cfg, {cfg.stmt_block(a)}, start=cfg.stmt_block(c))[0] for a in adds):
                    chk.proved("D6", f.key, construct, f.loc(c), "the count is held in '%s' and added to nbEval_ on every path" % held["name"])
                elif held is not None or (par is not None and par["k"] in ("BinaryOperator",) and par.get("op") == "="):
                    chk.unknown("D6", f.key, construct, f.loc(c), "the count returned by %s is stored first; that it reaches nbEval_ on every path is not recognised" % nm)
                else:
                    chk.refuted("D6", f.key, construct, f.loc(c), "the evaluation count returned by %s is not added to nbEval_: the budget test does not see the line search's evaluations" % nm, witness={"input": "a small evaluation budget"})
    chk.floor("D6", "nested optimiser runs / line-search helper calls", n, 8)


def _transfers(f):
    """per CFG block, in order: transfers between double lvalues.
    ('move', target, source, node)                       target = source
    ('select', target, cond text, src1, src2, node)      target = cond ? src1 : src2
    ('swap', a, b, node)
    ('shift', [a1..an], node)                            a1 = a2; a2 = a3; ...  (NumTools::shift)
    ('eval', value lvalue | None, key, node)             value = func.f(key) (None: the result goes elsewhere)
    ('set', key, abscissa text, node)                    key[0].setValue(abscissa)
    ('point', object text, x, f, node)                   object.set(x, f) / setA(x, f) ..."""
    cfg = f.cfg
    out = {}

    def lv(n):
        n = strip(n)
        if n is not None and n["k"] in ("DeclRefExpr", "MemberExpr") and (n.get("ty") or "").replace("const ", "") == "double":
            return re.sub(r"^this(\.|->)", "", render(n))
        return None

    def evalkey(n):
        n = strip(n)
        if is_call(n) and n["callee"]["name"] == "f" and len(f.args(n)) == 1 and "obj" in n:
            return re.sub(r"^this(\.|->)", "", render(f.args(n)[0]))
        return None
    # regions: maximal runs of simple statements (expression statements, declarations) that are consecutive children of one
    # compound statement; a ternary does not end a region (the CFG would split it)
    regions = []

    def split(n):
        if n is None:
            return
        if n["k"] == "CompoundStmt":
            run = []
            for c in kids(n):
                if c["k"] in ("IfStmt", "ForStmt", "WhileStmt", "DoStmt", "CXXForRangeStmt", "CXXTryStmt", "SwitchStmt", "CompoundStmt", "ReturnStmt", "BreakStmt", "ContinueStmt", "CXXCatchStmt"):
                    if run:
                        regions.append(run)
                    run = []
                    split(c)
                else:
                    run.append(c)
            if run:
                regions.append(run)
            return
        if n["k"] == "IfStmt":
            for key in ("then", "else"):
                if n.get(key) is not None:
                    c = f.nodes.get(n[key])
                    if c is not None and c["k"] not in ("CompoundStmt", "IfStmt", "ForStmt", "WhileStmt", "DoStmt", "CXXTryStmt"):
                        regions.append([c])
                    else:
                        split(c)
            return
        if n["k"] in ("ForStmt", "WhileStmt", "DoStmt", "CXXForRangeStmt"):
            c = f.nodes.get(n["body"]) if n.get("body") is not None else None
            if c is not None and c["k"] != "CompoundStmt" and c["k"] not in ("IfStmt", "ForStmt", "WhileStmt", "DoStmt", "CXXTryStmt"):
                regions.append([c])
            else:
                split(c)
            return
        for c in kids(n):
            if c["k"] in ("CompoundStmt", "CXXCatchStmt", "IfStmt", "ForStmt", "WhileStmt", "DoStmt", "CXXTryStmt", "CXXForRangeStmt"):
                split(c)
    split(f.body)
    for b, stmts in enumerate(regions):
        evs = []
        for n0 in stmts:
            n = strip(n0) if n0["k"] in ("ExprWithCleanups", "ParenExpr") else n0
            if n is None:
                continue
            if n["k"] == "BinaryOperator" and n.get("op") == "=":
                t, r = lv(kids(n)[0]), strip(kids(n)[1])
                if t is None:
                    continue
                k_ = evalkey(r)
                if k_ is not None:
                    evs.append(("eval", t, k_, n))
                elif r["k"] == "ConditionalOperator" and lv(kids(r)[1]) and lv(kids(r)[2]):
                    evs.append(("select", t, render(kids(r)[0]), lv(kids(r)[1]), lv(kids(r)[2]), n))
                elif lv(r):
                    evs.append(("move", t, lv(r), n))
                else:
                    evs.append(("other", t, None, n))
            elif n["k"] == "DeclStmt":
                for d in n["decls"]:
                    if (d.get("ty") or "").replace("const ", "") == "double" and d.get("init") is not None:
                        r = strip(d["init"])
                        k_ = evalkey(r)
                        if k_ is not None:
                            evs.append(("eval", d["name"], k_, n))
                        elif r["k"] == "ConditionalOperator" and lv(kids(r)[1]) and lv(kids(r)[2]):
                            evs.append(("select", d["name"], render(kids(r)[0]), lv(kids(r)[1]), lv(kids(r)[2]), n))
                        elif lv(r):
                            evs.append(("move", d["name"], lv(r), n))
            elif is_call(n):
                nm = n["callee"]["name"]
                args = f.args(n)
                if nm == "setValue" and "obj" in n and len(args) >= 1:
                    o = render(f.obj(n))
                    m = re.match(r"^(\w+)\[0\]$", o)
                    key = m.group(1) if m else ("getParameters()" if re.sub(r"^this(\.|->)", "", o) in ("getParameter_(0)",) else None)
                    if key:
                        evs.append(("set", key, re.sub(r"^this(\.|->)", "", render(args[0])), n))
                elif nm in ("swap",) and len(args) == 2 and lv(args[0]) and lv(args[1]):
                    evs.append(("swap", lv(args[0]), lv(args[1]), n))
                elif nm == "shift" and len(args) in (3, 4) and all(lv(a) or evalkey(a) for a in args[:-1]):
                    items = [lv(a) for a in args[:-1]]
                    last = lv(args[-1])
                    k_ = evalkey(args[-1])
                    evs.append(("shift", items + [last if last else (("@eval", k_) if k_ else None)], n))
                elif nm in ("set", "setA", "setB", "setC") and len(args) == 2 and "obj" in n and lv(args[0]) and lv(args[1]):
                    evs.append(("point", render(f.obj(n)) + ("." + nm[-1].lower() if nm != "set" else ""), lv(args[0]), lv(args[1]), n))
                elif evalkey(n) is not None:
                    evs.append(("eval", None, evalkey(n), n))
        out[b] = evs
    return out


def _d7(chk, fb, fns):
    """abscissa/value pairing: a value variable travels with the point it was computed at.  Pairs are grounded in evaluation
    events (P[0].setValue(X); F = func.f(P)) and in the two members of a bracket point (E.x, E.f); they are propagated through
    matching transfers made in one block (x = u next to fx = fu, shift(v, w, x, u) next to shift(fv, fw, fx, fu), swap next to
    swap).  A block that moves an abscissa from point A while it moves the paired value from a different point B is refuted; a
    transfer with no counterpart in its block is left undecided"""
    n_sites = 0
    for f in fns:
        tr = _transfers(f)
        pair = {}           # abscissa -> value
        conflict = set()

        vowner = {}

        def learn(x, v):
            if x is None or v is None or x == v:
                return False
            if x in pair and pair[x] != v:
                conflict.add(x)
                return False
            if v in vowner and vowner[v] != x:
                # one value variable filed under two abscissae (a temporary that receives the fresh value in several branches):
                # neither pairing is used
                conflict.add(x)
                conflict.add(vowner[v])
                return False
            if x not in pair:
                pair[x] = v
                vowner[v] = x
                return True
            return False
        # ground pairs
        for b, evs in tr.items():
            last_set = {}
            for ev in evs:
                if ev[0] == "set":
                    last_set[ev[1]] = ev[2]
                elif ev[0] == "eval" and ev[1] is not None and ev[2] in last_set:
                    if re.match(r"^[\w\.]+$", last_set[ev[2]]):
                        learn(last_set[ev[2]], ev[1])
                elif ev[0] == "shift" and isinstance(ev[1][-1], tuple) and ev[1][-1][1] in last_set and len(ev[1]) >= 2 and ev[1][-2]:
                    # shift(f1, f2, func.f(P)): the fresh value lands in the last variable
                    if re.match(r"^[\w\.]+$", last_set[ev[1][-1][1]]):
                        learn(last_set[ev[1][-1][1]], ev[1][-2])
        for n in f.all_nodes():
            if n["k"] == "MemberExpr" and n["member"]["name"] == "x" and (n.get("ty") or "").replace("const ", "") == "double" and not n["member"].get("this"):
                o = render(kids(n)[0]) if kids(n) else None
                if o:
                    learn(o + ".x", o + ".f")

        def moves(evs):
            """elementary moves of a block: list of (target, source | ('@sel', cond, s1, s2) | ('@eval', key), node)"""
            out = []
            for ev in evs:
                if ev[0] == "move":
                    out.append((ev[1], ev[2], ev[3]))
                elif ev[0] == "select":
                    out.append((ev[1], ("@sel", ev[2], ev[3], ev[4]), ev[5]))
                elif ev[0] == "shift":
                    items = ev[1]
                    for i_ in range(len(items) - 1):
                        if items[i_] is not None and items[i_ + 1] is not None:
                            out.append((items[i_], items[i_ + 1] if isinstance(items[i_ + 1], str) else ("@eval", items[i_ + 1][1]), ev[2]))
                elif ev[0] == "swap":
                    out.append((ev[1], ev[2], ev[3]))
                    out.append((ev[2], ev[1], ev[3]))
                elif ev[0] == "eval" and ev[1] is not None:
                    out.append((ev[1], ("@eval", ev[2]), ev[3]))
                elif ev[0] == "other":
                    out.append((ev[1], ("@expr",), ev[3]))
            return out
        # propagate: x-move T <- S with S paired, and a value move FT <- pair[S] in the same block, teaches pair[T] = FT
        changed = True
        rounds = 0
        while changed and rounds < 6:
            changed = False
            rounds += 1
            for b, evs in tr.items():
                ms = moves(evs)
                for t, s_, _n in ms:
                    if isinstance(s_, str) and s_ in pair and s_ not in conflict and t not in pair:
                        cands = [t2 for t2, s2, _ in ms if isinstance(s2, str) and s2 == pair[s_] and t2 != t]
                        if len(set(cands)) == 1:
                            changed |= learn(t, cands[0])
                    if isinstance(s_, tuple) and s_[0] == "@sel" and t not in pair and s_[2] in pair and s_[3] in pair:
                        cands = [t2 for t2, s2, _ in ms if isinstance(s2, tuple) and s2[0] == "@sel" and s2[1] == s_[1] and {s2[2], s2[3]} == {pair[s_[2]], pair[s_[3]]} and t2 != t]
                        if len(set(cands)) == 1:
                            changed |= learn(t, cands[0])
        vals = {v: x for x, v in pair.items() if x not in conflict}
        # check every block
        for b, evs in tr.items():
            ms = moves(evs)
            for t, s_, node in ms:
                if t not in pair or t in conflict:
                    continue
                ft = pair[t]
                if isinstance(s_, str) and s_ in pair and s_ not in conflict:
                    want = pair[s_]
                    got = [s2 for t2, s2, _ in ms if t2 == ft]
                    con = "pair:%s/%s" % (t, ft)
                    n_sites += 1
                    sets_t = [ev for ev in evs if ev[0] == "set" and ev[2] == t]
                    if any(isinstance(g, str) and g == want for g in got):
                        chk.proved("D7", f.key, con, f.loc(node), "%s <- %s travels with %s <- %s" % (t, s_, ft, want))
                    elif sets_t and any(isinstance(g, tuple) and g[0] == "@eval" and g[1] == sets_t[-1][1] for g in got):
                        chk.proved("D7", f.key, con, f.loc(node), "%s <- %s and its value %s is re-evaluated at %s" % (t, s_, ft, t))
                    elif any(isinstance(g, str) and g in vals and g != want for g in got):
                        g = [g for g in got if isinstance(g, str) and g in vals and g != want][0]
                        chk.refuted("D7", f.key, con, f.loc(node),
                                    "the abscissa '%s' takes the value of '%s' while its function value '%s' takes '%s', which belongs to the point '%s' (the value of '%s' is '%s'): "
                                    "the pair no longer describes one evaluated point" % (t, s_, ft, g, vals[g], s_, want),
                                    witness={"input": "any objective for which the two points differ"})
                    else:
                        chk.unknown("D7", f.key, con, f.loc(node), "'%s' is moved from '%s' in this block without a visible move of its value '%s'" % (t, s_, ft))
                elif isinstance(s_, tuple) and s_[0] == "@sel" and s_[2] in pair and s_[3] in pair:
                    got = [s2 for t2, s2, _ in ms if t2 == ft and isinstance(s2, tuple) and s2[0] == "@sel" and s2[1] == s_[1]]
                    con = "pair:%s/%s" % (t, ft)
                    n_sites += 1
                    if any(g[2] == pair[s_[2]] and g[3] == pair[s_[3]] for g in got):
                        chk.proved("D7", f.key, con, f.loc(node), "both selections under '%s' take the same point in each arm" % s_[1][:50])
                    elif any(g[2] == pair[s_[3]] and g[3] == pair[s_[2]] for g in got):
                        chk.refuted("D7", f.key, con, f.loc(node),
                                    "under '%s' the abscissa '%s' is taken from %s / %s but its value '%s' from the other point in each arm: the pair describes a point and the value of the other one" % (
                                        s_[1][:60], t, s_[2], s_[3], ft),
                                    witness={"input": "any objective with different values at the two candidate points"})
                    else:
                        chk.unknown("D7", f.key, con, f.loc(node), "selection of '%s' without a matching selection of '%s'" % (t, ft))
            # the converse: a value moved from one point to another while the target's abscissa takes something else
            for ft, fs, node in ms:
                if not (isinstance(fs, str) and ft in vals and fs in vals and vals[ft] != vals[fs]):
                    continue
                T, S = vals[ft], vals[fs]
                into_T = [s2 for t2, s2, _ in ms if t2 == T]
                if S in [x for x in into_T if isinstance(x, str)]:
                    continue          # the forward rule has judged this pair of moves
                con = "pair:%s/%s" % (T, ft)
                n_sites += 1
                if into_T:
                    what = into_T[0] if isinstance(into_T[0], str) else ("a newly computed abscissa" if into_T[0][0] == "@expr" else "a fresh evaluation")
                    chk.refuted("D7", f.key, con, f.loc(node),
                                "the value '%s' takes '%s' (the value at '%s') while its abscissa '%s' takes %s in the same straight-line region: the pair no longer describes one evaluated point" % (ft, fs, S, T, what),
                                witness={"input": "any objective for which the two points differ"})
                else:
                    chk.unknown("D7", f.key, con, f.loc(node), "'%s' takes the value of point '%s' but '%s' is not moved in this region" % (ft, S, T))
            # bracket.setX(x, f): the two arguments must be one point
            for ev in evs:
                if ev[0] == "point" and ev[2] in pair and ev[2] not in conflict:
                    n_sites += 1
                    con = "point:%s" % ev[1]
                    if pair[ev[2]] == ev[3]:
                        chk.proved("D7", f.key, con, f.loc(ev[4]), "(%s, %s) is one evaluated point" % (ev[2], ev[3]))
                    elif ev[3] in vals:
                        chk.refuted("D7", f.key, con, f.loc(ev[4]), "the point is set from abscissa '%s' and value '%s', which is the value at '%s'" % (ev[2], ev[3], vals[ev[3]]),
                                    witness={"input": "any objective with different values at the two points"})
                    else:
                        chk.unknown("D7", f.key, con, f.loc(ev[4]), "value argument '%s' is not a known function value" % ev[3])
    chk.floor("D7", "abscissa/value transfers", n_sites, 10)


def _d8(chk, fb):
    """AbstractOptimizer::init reads 'currentValue_ = function_->getValue()' right after doInit: every doInit must have put the
    objective at a point of its own choosing (f(P), function.setParameters(P), or a bracketing call that evaluates it) on every
    normal path, otherwise the value recorded for the start is the value of wherever the objective was left before"""
    base = fb.q1(AO + "::doInit") if fb.q(AO + "::doInit") else None
    inits = [f for f in fb.concrete_fns() if f.name == "doInit" and f.body is not None and fb.derives_from(f.cls or "", AO)]
    n = 0
    for f in sorted(inits, key=lambda x: x.key):
        cfg = f.cfg
        places = []
        for c in f.calls():
            nm = c["callee"]["name"]
            if nm == "f" and "obj" in c and len(f.args(c)) == 1:
                places.append(c)
            elif nm == "setParameters" and "obj" in c and ("unction" in render(f.obj(c), local_inits(f)) or "Function" in (strip(f.obj(c)).get("ty") or "") or "Function" in (c["callee"].get("cls") or "")):
                places.append(c)
            elif nm in ("bracketMinimum", "inwardBracketMinimum", "lineMinimization", "lineSearch"):
                places.append(c)
        n += 1
        if not places:
            chk.refuted("D8", f.key, "init-places-objective", f.loc(),
                        "%s::doInit never evaluates the objective or sets its parameters: init() then records function_->getValue() at whatever point the objective was left by earlier use" % (f.cls or "").split("::")[-1],
                        witness={"history": "optimise once, then init() from a different start: the first step works from the old point's value and derivatives"})
            continue
        # a return taken because there is no parameter to optimise places nothing and loses nothing
        import re as _re
        empties = set()
        for b_ in cfg.blocks:
            for s_ in cfg.succ[b_]:
                for t_, tr_, _nd in e1.edge_facts(cfg, b_, s_):
                    if (_re.search(r"[Pp]aram\w*(\.size\(\))? == 0\)$", t_) and tr_) or (_re.search(r"[Pp]aram\w*\.empty\(\)$", t_) and tr_) or (_re.match(r"^\w*[Pp]aram\w*(\.size\(\))?$", t_) and tr_ is False):
                        empties.add((b_, s_))

        class _V:
            pass
        view = _V()
        view.entry, view.exit, view.blocks, view.is_throw_block = cfg.entry, cfg.exit, cfg.blocks, cfg.is_throw_block
        view.succ = {b_: [s_ for s_ in cfg.succ[b_] if (b_, s_) not in empties] for b_ in cfg.succ}
        ok, path = e1.must_pass(view, {cfg.stmt_block(c) for c in places})
        if ok:
            chk.proved("D8", f.key, "init-places-objective", f.loc(places[0]), "every normal path passes %s" % render(places[0])[:60])
        else:
            chk.refuted("D8", f.key, "init-places-objective", f.loc(), "a path through doInit reaches the exit without placing the objective at a point", witness={"blocks": path})
    chk.floor("D8", "doInit implementations", n, 8)


def _d9(chk, fb, fns):
    """bound-branch agreement: in an if / else-if chain whose branches are selected by comparisons with two sibling vector members of one type (the
    upper and the lower bound vectors), the statement of a branch uses the bound its own condition tests.  A branch whose
    condition mentions only B while its statement mentions only the sibling A - and another branch of the chain pairs A with A -
    clips to the wrong bound: refuted.  Chains in which a branch mentions both or neither are not judged"""
    n = 0
    for f in fns:
        if f.body is None:
            continue
        seen = set()
        for top in [x for x in f.all_nodes() if x["k"] == "IfStmt"]:
            par = f.parent.get(top["id"])
            if par is not None and par["k"] == "IfStmt" and par.get("else") == top["id"]:
                continue
            chain = []
            cur = top
            while cur is not None and cur["k"] == "IfStmt":
                chain.append((f.nodes[cur["cond"]], f.nodes[cur["then"]]))
                cur = f.nodes.get(cur["else"]) if "else" in cur else None
            if len(chain) < 2:
                continue

            def fields(node):
                return {x["member"]["name"] for x in walk(node) if x["k"] == "MemberExpr" and x["member"].get("this") and x["member"].get("kind") == "field"}
            cf = [fields(c) for c, _ in chain]
            bf = [fields(b) for _, b in chain]
            # sibling members: each appears in exactly one condition of the chain, same type
            only = {}
            for k_, s_ in enumerate(cf):
                for m in s_:
                    if sum(1 for t_ in cf if m in t_) == 1:
                        only.setdefault(k_, set()).add(m)
            idx = sorted(only)
            for i_ in idx:
                for j_ in idx:
                    if i_ >= j_:
                        continue
                    for A in sorted(only[i_]):
                        for B in sorted(only[j_]):
                            tyA = [fl["ty"] for fl in fb.classes.get(f.cls or "", {}).get("fields", []) if fl["name"] == A]
                            tyB = [fl["ty"] for fl in fb.classes.get(f.cls or "", {}).get("fields", []) if fl["name"] == B]
                            if not tyA or tyA != tyB or "vector" not in tyA[0] or (top["id"], A, B) in seen:
                                continue
                            seen.add((top["id"], A, B))
                            uses = [(A in bf[i_], B in bf[i_]), (A in bf[j_], B in bf[j_])]
                            if not any(uses[0]) and not any(uses[1]):
                                continue
                            n += 1
                            con = "branch-uses-own-bound:%s/%s" % (A, B)
                            if uses[0] == (True, False) and uses[1] == (False, True):
                                chk.proved("D9", f.key, con, f.loc(top), "the branch testing %s uses %s, the branch testing %s uses %s" % (A, A, B, B))
                            elif uses[0] == (True, False) and uses[1] == (True, False):
                                chk.refuted("D9", f.key, con, f.loc(chain[j_][1]),
                                            "the branch selected by a comparison with %s computes with %s, exactly as the branch selected by %s does: a point that crosses the bound %s is moved to (or scaled by) the bound on the other side" % (B, A, A, B),
                                            witness={"input": "a constrained parameter whose step crosses the bound %s" % B})
                            elif uses[0] == (False, True) and uses[1] == (False, True):
                                chk.refuted("D9", f.key, con, f.loc(chain[i_][1]),
                                            "the branch selected by a comparison with %s computes with %s, exactly as the branch selected by %s does: a point that crosses the bound %s is moved to (or scaled by) the bound on the other side" % (A, B, B, A),
                                            witness={"input": "a constrained parameter whose step crosses the bound %s" % A})
                            else:
                                chk.unknown("D9", f.key, con, f.loc(top), "branches mention both or neither sibling: not judged")
    chk.floor("D9", "if-chains selecting between two sibling bound members", n, 2)


def _d11(chk, fb, fns):
    """a direction set keeps distinct columns: when one block stores into two columns of the same two-dimensional member
    (M[r][a] = X and M[r][b] = Y, a and b different expressions), the second store must not read the column the first one has
    just overwritten (M[r][b] = M[r][a] after M[r][a] = X makes both columns equal to X: the set loses rank and the old content
    of column a is gone).  The order 'save the old column, then overwrite it' is proved"""
    n = 0
    for f in fns:
        if f.body is None:
            continue
        cfg = f.cfg
        stores = []
        # a row bound to a reference local first ('std::vector<double>& row = xi_[j]; row[a] = row[b];')
        rowrefs = {}
        for dn in f.all_nodes():
            if dn["k"] == "DeclStmt":
                for d in dn["decls"]:
                    if d.get("init") is not None and (d.get("ty") or "").endswith("&"):
                        i0 = strip(d["init"])
                        if is_call(i0) and i0["callee"]["name"] == "operator[]" and "obj" in i0:
                            rowrefs[d["id"]] = i0
        sub11 = local_inits(f)

        def rsub(node):
            t = render(node, sub11)
            for did, i0 in rowrefs.items():
                nm = [d_["name"] for dn_ in f.all_nodes() if dn_["k"] == "DeclStmt" for d_ in dn_["decls"] if d_["id"] == did]
                if nm:
                    t = re.sub(r"\b%s\b" % re.escape(nm[0]), render(i0, sub11), t)
            return t
        for x in f.all_nodes():
            if x["k"] == "BinaryOperator" and x.get("op") == "=":
                l_ = strip(kids(x)[0])
                if is_call(l_) and l_["callee"]["name"] == "operator[]" and "obj" in l_:
                    o_ = strip(f.obj(l_))
                    if o_ is not None and o_["k"] == "DeclRefExpr" and o_["decl"]["id"] in rowrefs:
                        o_ = rowrefs[o_["decl"]["id"]]
                        root = strip(f.obj(o_))
                        if root is not None and root["k"] == "MemberExpr" and root["member"].get("this"):
                            stores.append((x, root["member"]["name"], render(f.args(o_)[0], sub11), render(f.args(l_)[0], sub11), rsub(l_), rsub(kids(x)[1])))
                        continue
                    if is_call(o_) and o_["callee"]["name"] == "operator[]" and "obj" in o_:
                        root = strip(f.obj(o_))
                        if root is not None and root["k"] == "MemberExpr" and root["member"].get("this"):
                            stores.append((x, root["member"]["name"], render(f.args(o_)[0], sub11), render(f.args(l_)[0], sub11), rsub(l_), rsub(kids(x)[1])))
        for i_, (x1, m1, r1, c1, t1, rhs1) in enumerate(stores):
            for (x2, m2, r2, c2, t2, rhs2) in stores[i_ + 1:]:
                if m1 != m2 or r1 != r2 or c1 == c2:
                    continue
                b1, b2 = cfg.stmt_block(x1), cfg.stmt_block(x2)
                if b1 is None or b1 != b2:
                    continue
                first, second = ((x1, t1, rhs1, c1), (x2, t2, rhs2, c2)) if e1.earlier_in_block(cfg, x1, x2) else ((x2, t2, rhs2, c2), (x1, t1, rhs1, c1))
                n += 1
                con = "columns-stay-distinct:%s[%s]/[%s]" % (m1, c1, c2)
                if second[2] == first[1]:
                    chk.refuted("D11", f.key, con, f.loc(second[0]),
                                "'%s = %s' is followed by '%s = %s' in the same block: the second store reads the column the first has just overwritten, so both columns of %s end up equal and the previous content of column [%s] is lost (a direction set with two equal columns no longer spans the space)" % (
                                    first[1], first[2][:40], second[1], second[2][:40], m1, first[3]),
                                witness={"input": "a coupled quadratic in 3 dimensions: the search stops in a subspace"})
                else:
                    chk.proved("D11", f.key, con, f.loc(first[0]), "the two columns receive different values (%s is read before it is overwritten)" % (first[2][:40]))
    chk.floor("D11", "blocks storing into two columns of one two-dimensional member", n, 1)


def _d10(chk, fb, fns):
    """hand-over to a nested optimiser: a parameter list kept in a member and handed to a nested optimiser's init() is brought up
    to date from the optimiser's current parameters (match/set...ParametersValues(getParameters()) on that very list, or an
    assignment from getParameters()) on every path that reaches the init() - within the same loop iteration when the hand-over
    sits in a loop.  Otherwise the nested run restarts from the point of its previous turn and the progress made by the other
    stages in between is thrown away (the reported value can then exceed the value already reached)"""
    n = 0
    for f in fns:
        if f.body is None:
            continue
        cfg = f.cfg
        for c in f.calls():
            if c["callee"]["name"] != "init" or "obj" not in c or len(f.args(c)) != 1 or "Optimizer" not in (c["callee"].get("cls") or ""):
                continue
            a = strip(f.args(c)[0])
            root = a
            while root is not None and is_call(root) and root["callee"]["name"] in ("operator[]", "at") and "obj" in root:
                root = strip(f.obj(root))
            if root is None or root["k"] != "MemberExpr" or not root["member"].get("this") or "ParameterList" not in (root.get("ty") or "") and "ParameterList" not in (a.get("ty") or ""):
                continue
            n += 1
            atext = render(a)
            con = "handover-refreshed:" + atext.replace("this.", "")[:40]
            fresh = []
            for x in f.calls():
                if "obj" in x and render(f.obj(x)) == atext and x["callee"]["name"] in ("matchParametersValues", "setParametersValues", "setAllParametersValues", "operator=", "setParameters", "setAllParameters") \
                        and f.args(x) and "getParameters" in render(f.args(x)[0]) and "obj" not in [k_ for k_ in ()]:
                    src = render(f.args(x)[0]).replace("this.", "")
                    if src.startswith("getParameters") or src.startswith("getParameters_"):
                        fresh.append(x)
            fblocks = {cfg.stmt_block(x) for x in fresh} - {None}
            cb = cfg.stmt_block(c)
            lp = f.enclosing(c, ("ForStmt", "WhileStmt", "DoStmt", "CXXForRangeStmt"))
            start = cfg.entry
            if lp is not None and "cond" in lp and lp["cond"] in f.nodes and cfg.stmt_block(f.nodes[lp["cond"]]) is not None:
                start = cfg.stmt_block(f.nodes[lp["cond"]])
            same = [x for x in fresh if cfg.stmt_block(x) == cb and e1.earlier_in_block(cfg, x, c)]
            if same or (cb is not None and not e1.path_exists(cfg, start, cb, avoid_blocks=fblocks - {start})):
                chk.proved("D10", f.key, con, f.loc(c), "every path to init(%s) refreshes that list from the current parameters first" % atext[:40])
            elif not fresh:
                chk.refuted("D10", f.key, con, f.loc(c),
                            "%s hands the stored list %s to a nested optimiser's init() without ever bringing it up to date from the current parameters: the nested run starts from the values the list had at its previous turn and discards what the other stages have gained since" % (f.name, atext[:40]),
                            witness={"history": "a meta-optimiser with two stages on a coupled objective: the second turn of stage 1 restarts from the end of its first turn"})
            else:
                chk.refuted("D10", f.key, con, f.loc(c), "a path reaches init(%s) without the refresh of that list from the current parameters" % atext[:40], witness={"history": "see the path"})
    chk.floor("D10", "nested optimiser hand-overs from a stored list", n, 1)


def run(chk, fb, tier):
    chk.rule("D1", "a loop from which doStep()/step() of the same object is reachable has a condition reading nbEval_ and nbEvalMax_; optimize() overriders delegate to the capped loop")
    chk.rule("D2", "init: parameters_ = params, then autoParameter()/ignoreConstraints() under the policy test, then doInit; policy loops cover 0..size; copies re-apply; bracketing/line search get getParameters()")
    chk.rule("D3", "doStep with a backup of the objective's parameters: every 'return currentValue_' reachable after a trial f(x) is preceded by setParameters(backup) after that trial")
    chk.rule("D4", "no feasible state-preserving cycle in any loop of the optimiser units")
    chk.rule("D5", "evaluation-point freshness: between P[0].setValue(x) and the next f(P), no variable that x was computed from is written (typestate over the flow graph, all paths)")
    chk.rule("D6", "evaluation accounting: a nested optimiser's count is added to nbEval_ after each run, in the same loop iteration; counts returned by lineMinimization/lineSearch are added")
    fns = _fns(fb)
    chk.floor("D1", "functions in the optimiser units", len(fns), 100)
    _d1(chk, fb, fns)
    _d2(chk, fb, fns)
    _d3(chk, fb, fns)
    _d4(chk, fb, fns)
    _d5(chk, fb, fns)
    _d6(chk, fb, fns)
    from . import copyrule
    chk.rule("DC", "copy constructor and copy assignment of the optimiser classes copy the same members, agree on clone versus share, re-bind cloned helpers to the new object in both, and reset containers before re-populating them")
    copyrule.check(chk, fb, "DC", lambda c: "Bpp/Numeric/Function/" in c["file"] and any(c["file"].endswith(u.replace(".cpp", ".h")) for u in UNITS), floor=1)
    chk.rule("D8", "every doInit places the objective at a point (f(P) / function.setParameters(P) / a bracketing call) on every normal path, since init() records function_->getValue() right after it")
    _d8(chk, fb)
    chk.rule("D7", "abscissa/value pairing: pairs grounded in evaluation events and bracket points, propagated through matching transfers of one block; a block that moves an abscissa from one point and the paired value from another is refuted")
    _d7(chk, fb, fns)
    chk.rule("D9", "in an if / else-if chain selected by comparisons with two sibling bound members, each branch computes with the bound its own condition tests")
    _d9(chk, fb, fns)
    chk.rule("D10", "a stored parameter list handed to a nested optimiser's init() is refreshed from the current parameters on every path to that call (same loop iteration)")
    _d10(chk, fb, fns)
    chk.rule("D11", "two stores of one block into different columns of the same two-dimensional member: the second does not read the column the first has just overwritten")
    _d11(chk, fb, fns)
    from . import argswap as _argswap
    chk.rule("DA", "argument/parameter name agreement at forwarding calls in the anchored units (same-typed parameters must not be swapped)")
    _af = ('src/Bpp/Numeric/Function/AbstractOptimizer.cpp', 'src/Bpp/Numeric/Function/BfgsMultiDimensions.cpp', 'src/Bpp/Numeric/Function/ConjugateGradientMultiDimensions.cpp', 'src/Bpp/Numeric/Function/PowellMultiDimensions.cpp', 'src/Bpp/Numeric/Function/DownhillSimplexMethod.cpp', 'src/Bpp/Numeric/Function/SimpleMultiDimensions.cpp', 'src/Bpp/Numeric/Function/SimpleNewtonMultiDimensions.cpp', 'src/Bpp/Numeric/Function/BrentOneDimension.cpp', 'src/Bpp/Numeric/Function/GoldenSectionSearch.cpp', 'src/Bpp/Numeric/Function/NewtonOneDimension.cpp', 'src/Bpp/Numeric/Function/NewtonBacktrackOneDimension.cpp', 'src/Bpp/Numeric/Function/OneDimensionOptimizationTools.cpp', 'src/Bpp/Numeric/Function/DirectionFunction.cpp', 'src/Bpp/Numeric/Function/MetaOptimizer.cpp', 'src/Bpp/Numeric/Function/OptimizationStopCondition.cpp', 'src/Bpp/Numeric/AutoParameter.cpp')
    _argswap.check(chk, fb, "DA", [f_ for f_ in fb.concrete_fns() if f_.body is not None and any(f_.relfile.endswith(x_) for x_ in _af)], 1)
    chk.assume("nested optimiser objects (line search, meta-optimiser components) run their own capped optimize() loop")
    chk.assume("outward bracketing loops terminate for objectives bounded below (value-dependent, not decided)")
