"""Shared rule: argument/parameter name agreement at forwarding calls.  When a function passes its own parameters on to a callee
that has parameters of the same names, a name that lands on a different position of the same type - while the parameter that
belongs there is one of the caller's own too - is a swap (two bools, two chars, two sizes compile silently)."""
from .facts import strip


def check(chk, fb, rid, fns, minimum):
    n = 0
    for f in sorted(fns, key=lambda x: x.key):
        pn = {p_["name"]: (i_, p_.get("ty")) for i_, p_ in enumerate(f.params)}
        for c in f.calls():
            cal = c["callee"]
            if not cal.get("inrepo"):
                continue
            cp = cal.get("pnames") or []
            ct = cal.get("ptypes") or []
            args = f.args(c)
            fwd = []
            for i_, a in enumerate(args):
                a_ = strip(a)
                if a_ is not None and a_["k"] == "DeclRefExpr" and a_["decl"]["kind"] == "param" and i_ < len(cp):
                    fwd.append((i_, a_["decl"]["name"]))
            if not fwd:
                continue
            bad = []
            for i_, nm in fwd:
                if nm in cp and cp[i_] != nm and cp.index(nm) < len(ct) and i_ < len(ct) and ct[cp.index(nm)] == ct[i_]:
                    other = cp[i_]
                    if other in pn:
                        bad.append((i_, nm, cp.index(nm), other))
            named = [x for x in fwd if x[1] in cp]
            if not named:
                continue
            n += 1
            construct = "forward:%s->%s" % (f.name, cal["name"]) + ":" + ",".join(nm for _, nm in fwd)
            if bad:
                i_, nm, want, other = bad[0]
                chk.refuted(rid, f.key, construct, f.loc(c), "%s passes its parameter '%s' as argument %d of %s, whose parameter there is '%s'; %s's own '%s' is argument %d: the two %s arguments are swapped" % (
                    f.name, nm, i_ + 1, cal["name"], other, cal["name"], nm, want + 1, ct[i_]), witness={"input": "any call with %s != %s" % (nm, other)})
            else:
                chk.proved(rid, f.key, construct, f.loc(c), "same-named parameters are forwarded to their own positions")
    chk.floor(rid, "forwarding calls with same-named parameters", n, minimum)
