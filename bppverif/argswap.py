"""Shared rule: argument/parameter name agreement at forwarding calls.  When a function passes its own parameters on to a callee
that has parameters of the same names, a name that lands on a different position of the same type - while the parameter that
belongs there is one of the caller's own too - is a swap (two bools, two chars, two sizes compile silently)."""
from .facts import strip


def check(chk, fb, rid, fns, minimum):
    n = 0
    for f in sorted(fns, key=lambda x: x.key):
        pn = {p_["name"]: (i_, p_.get("ty")) for i_, p_ in enumerate(f.params)}
        for c in f.calls():
            cal = c["callee"]
            if not cal.get("inrepo"):
                continue
            cp = cal.get("pnames") or []
            ct = cal.get("ptypes") or []
            args = f.args(c)
            fwd = []
            for i_, a in enumerate(args):
                a_ = strip(a)
                if a_ is not None and a_["k"] == "DeclRefExpr" and a_["decl"]["kind"] == "param" and i_ < len(cp):
                    fwd.append((i_, a_["decl"]["name"]))
            if not fwd:
                continue
            bad = []
            for i_, nm in fwd:
                if nm in cp and cp[i_] != nm and cp.index(nm) < len(ct) and i_ < len(ct) and ct[cp.index(nm)] == ct[i_]:
                    other = cp[i_]
                    if other in pn:
                        bad.append((i_, nm, cp.index(nm), other))
            named = [x for x in fwd if x[1] in cp]
            if not named:
                continue
            n += 1
            construct = "forward:%s->%s" % (f.name, cal["name"]) + ":" + ",".join(nm for _, nm in fwd)
            if bad:
                i_, nm, want, other = bad[0]
                chk.refuted(rid, f.key, construct, f.loc(c), "%s passes its parameter '%s' as argument %d of %s, whose parameter there is '%s'; %s's own '%s' is argument %d: the two %s arguments are swapped" % (
                    f.name, nm, i_ + 1, cal["name"], other, cal["name"], nm, want + 1, ct[i_]), witness={"input": "any call with %s != %s" % (nm, other)})
            else:
                chk.proved(rid, f.key, construct, f.loc(c), "same-named parameters are forwarded to their own positions")
    # a defaulted parameter left to its default by a caller that has a parameter of the same name and type, while a sibling
    # caller of the same callee forwards its own: the two callers contradict each other on whether the option is passed on
    sites = {}
    for f in sorted(fns, key=lambda x: x.key):
        pn = {p_["name"]: p_.get("ty") for p_ in f.params}
        for c in f.calls():
            cal = c["callee"]
            if not cal.get("inrepo") or not cal.get("key"):
                continue
            cp = cal.get("pnames") or []
            ct = cal.get("ptypes") or []
            for i_, a in enumerate(f.args(c)):
                if a is None or i_ >= len(cp) or i_ >= len(ct) or cp[i_] not in pn or pn[cp[i_]] != ct[i_]:
                    continue
                a_ = strip(a) if a["k"] != "CXXDefaultArgExpr" else a
                if a["k"] == "CXXDefaultArgExpr":
                    sites.setdefault((cal["key"], i_), []).append((f, c, "omit"))
                elif a_ is not None and a_["k"] == "DeclRefExpr" and a_["decl"]["kind"] == "param" and a_["decl"]["name"] == cp[i_]:
                    sites.setdefault((cal["key"], i_), []).append((f, c, "fwd"))
    for (ck, i_), lst in sorted(sites.items()):
        fw = [x for x in lst if x[2] == "fwd" ]
        for f, c, how in lst:
            if how != "omit":
                continue
            cal = c["callee"]
            nm = cal["pnames"][i_]
            construct = "forward-default:%s->%s:%s" % (f.name, cal["name"], nm)
            if fw and fw[0][0].key != f.key:
                chk.refuted(rid, f.key, construct, f.loc(c), "%s has its own parameter '%s' but calls %s without it, so %s's default is used whatever the caller asked for; %s forwards its '%s' to the same callee (%s)" % (
                    f.name, nm, cal["name"], cal["name"], fw[0][0].name, nm, fw[0][0].loc(fw[0][1])), witness={"input": "a call of %s with '%s' different from the default of %s" % (f.name, nm, cal["name"])})
    chk.floor(rid, "forwarding calls with same-named parameters", n, minimum)
