"""C07 Vector reductions match their definitions and are overflow-safe in log space (structural clauses).

 D1 index discipline (E2) of every VectorTools / NumTools template (instantiated for double), the vector operators and StatTools:
    empty inputs and size mismatches reach a throwing guard (own or a callee's) before any element access
 D2 forwarded arguments keep their meaning: a parameter handed on to a callee that has a parameter of the same name lands in
    that position (swapped flags of the same type compile silently)
 D3 log-domain discipline: every exp() inside the log-domain reductions is taken of 'element - shift' where the shift is the
    maximum of the same vector (NumTools::logsum: the larger operand), the shift is added back, and a shift that may be infinite
    is tested before it is subtracted (inf - inf)
 D4 rank-based FDR: the divisor is the rank derived from the position in the sorted array, oriented like the comparator
 D5 order statistics are read from a fully sorted container (median)
 D6 extrema: empty input throws EmptyVectorException first, the running value starts at the first element, the comparison has
    the direction of the function, position and value are updated together
 D7 documented exceptions: a '@throw X' in the comment of a VectorTools function is backed by a throw of X in the function or
    its direct callees
"""
import re, os
from .facts import kids, strip, walk, is_call, render, local_inits, AnalysisBroken
from . import e1, umbrella

NEEDS_VT = True
EXPLANATION = ("Static analysis of structural clauses of C07 on VectorTools.h/.cpp, NumTools.h and StatTools.cpp (120 function templates instantiated for double through a generated umbrella unit): "
               "D1 symbolic index bounds (E2) with callee post-conditions (a callee that returned normally passed its throwing guards), unsigned wrap of 'size() - 1' bounds and forward-cursor idioms; "
               "D2 argument/parameter name agreement at forwarding calls; D3 shape of the max-shifted exponent sums and of the pairwise log-sum incl. the test that must precede a possibly infinite shift; "
               "D4 the FDR divisor is a rank from the sorted position and agrees with the comparator's orientation; D5 reads of order statistics are dominated by a full std::sort of the same container; "
               "D6 shape of the extremum searches; D7 documented exception types are thrown. NOT decided: the numerical values of sums, moments, entropies, correlation, equivariance and bounds of the log-domain "
               "results as real-number statements, stability of sorts, FDR values.")
VT = "bpp::VectorTools"
NT = "bpp::NumTools"
ST = "bpp::StatTools"
DONE = []


def instantiations(fb, headers):
    hs = ["Bpp/Numeric/VectorTools.h", "Bpp/Numeric/NumTools.h"]
    ts = umbrella.list_templates(fb.scratch, fb.src, hs)
    table = dict(umbrella.TABLE_DEFAULT, C="double")
    t1, d1 = umbrella.instantiate_function_templates(ts, VT, table)
    t2, d2 = umbrella.instantiate_function_templates(ts, None, table)
    t3, d3 = umbrella.instantiate_function_templates(ts, NT, table)
    DONE[:] = d1 + d2 + d3
    return t1 + t2 + t3


def _kernels(fb):
    return [f for f in fb.concrete_fns() if f.body is not None and f.cfg is not None and (
        ((f.cls in (VT, NT) or (f.cls is None and f.qname.startswith("bpp::operator"))) and f.rec.get("inst")) or
        (f.cls in (VT, ST) and not f.rec.get("inst") and f.name != "test"))]


def _short(f):
    return f.qname.replace("bpp::", "")


# ------------------------------------------------------------------------------------------------ D1

def _d1(chk, fb):
    from . import e2
    ks = _kernels(fb)
    chk.floor("D1", "instantiated VectorTools/NumTools/operator/StatTools functions", len(ks), 110)
    total = 0
    for f in sorted(ks, key=lambda x: x.key):
        seen = set()
        for c, ctext, itext, dimk, verdict, detail, wit in e2.analyse(fb, f):
            total += 1
            construct = "%s(%s):%s" % (ctext, itext, dimk)
            if (construct, verdict) in seen:
                continue
            seen.add((construct, verdict))
            if verdict == "PROVED":
                chk.proved("D1", f.key, construct, f.loc(c), detail)
            elif verdict == "REFUTED":
                chk.refuted("D1", f.key, construct, f.loc(c), "%s: index '%s' of %s is not covered by a size test on an input the guards let through (%s): out-of-range access instead of the documented exception" % (
                    _short(f), itext, ctext, detail), witness={"sizes": wit})
            else:
                chk.unknown("D1", f.key, construct, f.loc(c), detail)
    chk.floor("D1", "element accesses", total, 180)


# ------------------------------------------------------------------------------------------------ D2

def _d2(chk, fb):
    n = 0
    for f in sorted(_kernels(fb), key=lambda x: x.key):
        pn = {p_["name"]: (i_, p_.get("ty")) for i_, p_ in enumerate(f.params)}
        for c in f.calls():
            cal = c["callee"]
            if not cal.get("inrepo"):
                continue
            cp = cal.get("pnames") or []
            ct = cal.get("ptypes") or []
            args = f.args(c)
            fwd = []
            for i_, a in enumerate(args):
                a_ = strip(a)
                if a_ is not None and a_["k"] == "DeclRefExpr" and a_["decl"]["kind"] == "param" and i_ < len(cp):
                    fwd.append((i_, a_["decl"]["name"]))
            if not fwd:
                continue
            bad = []
            for i_, nm in fwd:
                if nm in cp and cp[i_] != nm and cp.index(nm) < len(ct) and i_ < len(ct) and ct[cp.index(nm)] == ct[i_]:
                    # the callee has a parameter of this name elsewhere, of the same type: is the one that belongs here forwarded too?
                    other = cp[i_]
                    if other in pn:
                        bad.append((i_, nm, cp.index(nm), other))
            named = [x for x in fwd if x[1] in cp]
            if not named:
                continue
            n += 1
            construct = "forward:%s->%s" % (f.name, cal["name"]) + ":" + ",".join(nm for _, nm in fwd)
            if bad:
                i_, nm, want, other = bad[0]
                chk.refuted("D2", f.key, construct, f.loc(c), "%s passes its parameter '%s' as argument %d of %s, whose parameter there is '%s'; %s's own '%s' is argument %d: the two %s arguments are swapped" % (
                    _short(f), nm, i_ + 1, cal["name"], other, cal["name"], nm, want + 1, ct[i_]), witness={"input": "any call with %s != %s" % (nm, other)})
            else:
                chk.proved("D2", f.key, construct, f.loc(c), "same-named parameters are forwarded to their own positions")
    chk.floor("D2", "forwarding calls with same-named parameters", n, 10)


# ------------------------------------------------------------------------------------------------ D3b

def _d3b(chk, fb):
    """every element enters a reduction once: an accumulator seeded with a term of element 0 of the vector is completed by a
    traversal that starts at element 1 (index loop from 1, std::accumulate from next(begin()) / begin() + 1); an accumulator
    seeded with a constant by a traversal of the whole vector (index 0, range-for, begin()).  Seed from element 0 plus a whole
    traversal counts element 0 twice; constant seed plus a traversal from 1 drops it.  Other shapes are not judged"""
    n = 0
    for f in sorted(_kernels(fb), key=lambda x: x.key):
        if f.cls != VT or f.body is None:
            continue
        vecs = [p_["name"] for p_ in f.params if "vector" in (p_.get("ty") or "")]
        if not vecs:
            continue

        def seed_of(expr):
            """('elem0', vec) | ('const', None) | None"""
            t = render(expr)
            for v in vecs:
                if ("%s[0]" % v) in t or ("%s.front()" % v) in t or ("*%s.begin()" % v) in t:
                    return ("elem0", v)
            e0 = strip(expr)
            while e0 is not None and e0["k"] in ("CXXConstructExpr", "CXXFunctionalCastExpr", "CStyleCastExpr", "CXXStaticCastExpr", "InitListExpr") and len(kids(e0)) == 1:
                e0 = strip(kids(e0)[0])
            if e0 is not None and e0["k"] in ("IntegerLiteral", "FloatingLiteral"):
                return ("const", None)
            return None

        def start_of_iter(expr):
            """0 | 1 | None for an iterator expression over a vector parameter: (start, vec)"""
            t = render(expr).replace("std::", "")
            for v in vecs:
                if t in ("%s.begin()" % v, "%s.cbegin()" % v):
                    return 0, v
                if t in ("next(%s.begin())" % v, "next(%s.begin(), 1)" % v, "(%s.begin() + 1)" % v, "++%s.begin()" % v, "next(%s.cbegin())" % v):
                    return 1, v
            return None, None
        verdicts = []
        # (a) std::accumulate(first, last, init, ...)
        for c in f.calls():
            if c["callee"]["name"] == "accumulate" and len(f.args(c)) >= 3:
                st, v = start_of_iter(f.args(c)[0])
                sd = seed_of(f.args(c)[2])
                if st is None or sd is None or (sd[0] == "elem0" and sd[1] != v):
                    continue
                verdicts.append((c, sd[0], st, v))
        # (b) accumulator local + loop
        for dn in [x for x in f.all_nodes() if x["k"] == "DeclStmt"]:
            for d in dn["decls"]:
                if d.get("init") is None or is_call(strip(d["init"])) and strip(d["init"])["callee"]["name"] == "accumulate":
                    continue
                sd = seed_of(d["init"])
                if sd is None:
                    continue
                adds = [x for x in f.all_nodes() if x["k"] == "CompoundAssignOperator" and x.get("op") == "+=" and strip(kids(x)[0])["k"] == "DeclRefExpr" and strip(kids(x)[0])["decl"]["id"] == d["id"]]
                loops = {}
                for a in adds:
                    lp = f.enclosing(a, ("ForStmt", "CXXForRangeStmt", "WhileStmt"))
                    if lp is not None:
                        loops[lp["id"]] = lp
                if len(loops) != 1:
                    continue
                lp = list(loops.values())[0]
                st = v = None
                if lp["k"] == "CXXForRangeStmt" and "rangeinit" in lp:
                    ri = f.nodes.get(lp["rangeinit"]) if isinstance(lp["rangeinit"], int) else lp["rangeinit"]
                    rt = render(ri).lstrip("*&(").rstrip(")") if ri is not None else ""
                    if rt in vecs:
                        st, v = 0, rt
                elif lp["k"] == "ForStmt" and lp.get("init") is not None and "cond" in lp:
                    ini = f.nodes.get(lp["init"])
                    ct = render(f.nodes[lp["cond"]], local_inits(f))
                    for vv in vecs:
                        if ("%s.size()" % vv) in ct:
                            v = vv
                    if ini is not None and ini["k"] == "DeclStmt" and len(ini["decls"]) == 1 and ini["decls"][0].get("init") is not None:
                        i0 = strip(ini["decls"][0]["init"])
                        if i0["k"] == "IntegerLiteral":
                            st = int(i0["val"])
                        else:
                            s2, v2 = start_of_iter(ini["decls"][0]["init"])
                            if s2 is not None:
                                st, v = s2, v2
                if st is None or v is None or st not in (0, 1) or (sd[0] == "elem0" and sd[1] != v):
                    continue
                # the loop must read the traversed vector at the loop variable (not some other vector)
                verdicts.append((dn, sd[0], st, v))
        for node, seed, st, v in verdicts:
            n += 1
            con = "each-element-once:%s@%s" % (v, node.get("l"))
            if (seed == "elem0") == (st == 1):
                chk.proved("D3b", f.key, con, f.loc(node), "seed %s, traversal of %s from element %d" % ("= term of element 0" if seed == "elem0" else "constant", v, st))
            elif seed == "elem0":
                chk.refuted("D3b", f.key, con, f.loc(node), "%s: the accumulator starts with the term of %s[0] and the traversal visits %s from element 0 again: the first element is counted twice" % (f.name, v, v),
                            witness={"input": "%s = {0, 0}: two equal terms give three" % v})
            else:
                chk.refuted("D3b", f.key, con, f.loc(node), "%s: the accumulator starts from a constant and the traversal of %s starts at element 1: the first element never enters the result" % (f.name, v),
                            witness={"input": "%s = {5, 0}" % v})
    chk.floor("D3b", "seeded reductions over a vector parameter", n, 5)


# ------------------------------------------------------------------------------------------------ D3

LOGFAMILY = ("logSumExp", "logMeanExp", "sumExp", "logNorm")


def _d3(chk, fb):
    n_exp = 0
    for f in sorted(_kernels(fb), key=lambda x: x.key):
        if f.cls != VT or f.name not in LOGFAMILY:
            continue
        subs = local_inits(f)
        cfg = f.cfg
        # the shift variable: a local initialised from max(<vector parameter>)
        shifts = {}
        for nn in walk(f.body):
            if nn["k"] == "DeclStmt":
                for d in nn["decls"]:
                    if d.get("init") is not None:
                        i0 = strip(d["init"])
                        if is_call(i0) and i0["callee"]["name"] == "max" and f.args(i0):
                            shifts[d["id"]] = (d["name"], render(f.args(i0)[0]), nn)
        exps = [c for c in f.all_nodes() if is_call(c) and c["callee"]["name"] == "exp" and not c["callee"].get("inrepo") and len(f.args(c)) == 1]
        for e in exps:
            a = strip(f.args(e)[0])
            n_exp += 1
            construct = "exp:" + render(a)
            if a["k"] == "BinaryOperator" and a["op"] == "-":
                l, r = strip(kids(a)[0]), strip(kids(a)[1])
                if r["k"] == "DeclRefExpr" and r["decl"]["id"] in shifts:
                    nm, vec, dn = shifts[r["decl"]["id"]]
                    src = render(l)
                    # element of the same vector (v1[i], the accumulate lambda's element parameter is accepted for v1)
                    same = src.startswith(vec + "[") or (l["k"] == "DeclRefExpr" and l["decl"]["kind"] == "param" and f.enclosing(e, ("LambdaExpr",)) is not None)
                    # the element variable of a range-for over the same vector, or a dereferenced iterator of it
                    rfv = e1.rangefor_vars(f)
                    if l["k"] == "DeclRefExpr" and l["decl"]["id"] in rfv:
                        same = render(rfv[l["decl"]["id"]]).lstrip("*&(").startswith(vec)
                        other_vec = not same
                    else:
                        other_vec = any(src.startswith(p_["name"] + "[") for p_ in f.params if p_["name"] != vec)
                    if same:
                        chk.proved("D3", f.key, construct, f.loc(e), "exponent shifted by %s = max(%s)" % (nm, vec))
                    elif not other_vec:
                        chk.unknown("D3", f.key, construct, f.loc(e), "what '%s' is an element of is not resolved" % src)
                    else:
                        chk.refuted("D3", f.key, construct, f.loc(e), "%s: exp(%s) subtracts the maximum of %s from an element of a different vector: the shift no longer bounds the exponent, large inputs overflow" % (f.name, render(a), vec),
                                    witness={"input": "v1 = {800, 801}"})
                    continue
            if a["k"] == "DeclRefExpr" and a["decl"]["id"] in shifts:
                # exp(M): undoing the shift in sumExp
                chk.proved("D3", f.key, construct, f.loc(e), "shift undone by multiplying with exp(%s)" % render(a))
                continue
            # unshifted exponent: allowed only on the single-element shortcut
            iff = f.enclosing(e, ("IfStmt",))
            ct = render(f.nodes[iff["cond"]]) if iff is not None else ""

            def single(facts):
                for t_, tr_, nd_ in facts:
                    tt = render(nd_, subs) if nd_ is not None else t_
                    if (re.search(r"size\(\) == 1\)?$", tt) or re.search(r"^\(?\w+ == 1\)?$", tt)) and tr_ is True:
                        return True
                    if (re.search(r"size\(\) != 1\)?$", tt) or re.search(r"^\(?\w+ != 1\)?$", tt)) and tr_ is False:
                        return True
                return False
            eb = cfg.stmt_block(e)
            if re.search(r"size\(\) == 1\)", ct) or re.search(r"\(size == 1\)", ct) or (eb is not None and e1.guarded_by(cfg, eb, single)[0]):
                chk.proved("D3", f.key, construct, f.loc(e), "unshifted exponent only for a single element (%s)" % ct)
            else:
                chk.refuted("D3", f.key, construct, f.loc(e), "%s takes exp(%s) without subtracting the maximum: the sum overflows where the shifted formula stays finite" % (f.name, render(a)),
                            witness={"input": "v1 = {800, 801}"})
        # a log-domain result must not be obtained as the logarithm of a sum taken back to the linear domain: sumExp multiplies
        # the shift back in (x * exp(M)), which is exactly the overflow/underflow the shifted formula avoids
        if f.name in ("logSumExp", "logMeanExp"):
            for c in f.all_nodes():
                if is_call(c) and c["callee"]["name"] == "log" and not c["callee"].get("inrepo") and f.args(c):
                    inner = [x for x in walk(f.args(c)[0]) if is_call(x) and x["callee"]["name"] in ("sumExp",)]
                    if inner:
                        chk.refuted("D3", f.key, "log-of-linear-sum", f.loc(c), "%s returns log(%s): the sum is formed in the linear domain (sumExp multiplies exp(max) back in), so it overflows to +inf / underflows to 0 for |max| above ~709 where the log-domain value is finite" % (
                            f.name, render(inner[0])[:60]), witness={"input": "v1 = {800, 801}, v2 = {1, 1}"})
        # every shift that is subtracted must have been tested for infinity first, and must be added back
        for sid, (nm, vec, dn) in shifts.items():
            uses = [e for e in exps if any(x["k"] == "DeclRefExpr" and x["decl"]["id"] == sid for x in walk(f.args(e)[0])) and strip(f.args(e)[0])["k"] == "BinaryOperator"]
            if not uses:
                continue
            tests = [c for c in f.all_nodes() if is_call(c) and c["callee"]["name"] in ("isinf", "isfinite") and f.args(c) and render(f.args(c)[0]) == nm]
            ok = False
            for t in tests:
                iff = f.enclosing(t, ("IfStmt",))
                if iff is None:
                    continue
                hb = cfg.stmt_block(f.nodes[iff["cond"]])
                # the infinite branch leaves the function
                thenb = f.nodes[iff["then"]]
                leaves = any(x["k"] in ("ReturnStmt", "CXXThrowExpr") for x in walk(thenb))
                if leaves and all(cfg.dominates(hb, cfg.stmt_block(u)) for u in uses):
                    ok = True
            construct = "inf-test:" + nm
            if ok:
                chk.proved("D3", f.key, construct, f.loc(dn), "isinf(%s) leaves the function before %s is subtracted" % (nm, nm))
            else:
                chk.refuted("D3", f.key, construct, f.loc(dn), "%s subtracts the maximum %s without first handling an infinite maximum: all-log-zero input gives (-inf) - (-inf) = NaN" % (f.name, nm),
                            witness={"input": "v1 = {-inf, -inf}"})
            # added back / multiplied back on the returned expression
            rets = [r for r in walk(f.body) if r["k"] == "ReturnStmt" and kids(r) and f.enclosing(r, ("LambdaExpr",)) is None]
            fin = [r for r in rets if f.enclosing(r, ("IfStmt",)) is None]
            back = [r for r in fin if re.search(r"\+ %s\)?$" % re.escape(nm), render(kids(r)[0])) or ("exp(%s)" % nm) in render(kids(r)[0])]
            construct = "shift-undone:" + nm
            if fin and len(back) == len(fin):
                chk.proved("D3", f.key, construct, f.loc(fin[0]), render(kids(fin[0])[0]))
            elif fin:
                chk.refuted("D3", f.key, construct, f.loc(fin[0]), "%s returns '%s': the shift by %s is not undone" % (f.name, render(kids(fin[0])[0]), nm), witness={"input": "v1 = {1, 2}"})
    chk.floor("D3", "exp() calls in the log-domain reductions", n_exp, 8)
    logsum_rule(chk, fb, "D3")


def logsum_rule(chk, fb, RID):
    """NumTools::logsum: exp() only of (smaller - larger); equal / infinite operands tested first"""
    # pairwise log-sum
    ls = [f for f in fb.concrete_fns() if f.cls == NT and f.name == "logsum" and f.body is not None and f.key.endswith("(double, double)")]
    if len(ls) != 1:
        raise AnalysisBroken("anchor vanished: NumTools::logsum<double>")
    f = ls[0]
    a, b = [p_["name"] for p_ in f.params]
    conds = [n for n in f.all_nodes() if n["k"] == "ConditionalOperator"] + [n for n in f.all_nodes() if n["k"] == "IfStmt"]
    exps = [c for c in f.all_nodes() if is_call(c) and c["callee"]["name"] == "exp" and len(f.args(c)) == 1]
    chk.floor(RID, "exp() calls in logsum", len(exps), 1)
    sub = local_inits(f)

    def selected(n):
        """for a local initialised as 'c ? x : y' with c an ordering test of the two operands: ('max'|'min') when it selects the
        larger / smaller operand"""
        n = strip(n)
        if n["k"] != "DeclRefExpr" or n["decl"]["id"] not in sub:
            return None
        init = strip(sub[n["decl"]["id"]])
        if init["k"] == "CXXFunctionalCastExpr" or init["k"] == "ImplicitCastExpr":
            init = strip(kids(init)[0])
        if is_call(init) and init["callee"]["name"] in ("max", "min") and len(f.args(init)) == 2 and {render(x) for x in f.args(init)} == {a, b}:
            return init["callee"]["name"]
        if init["k"] != "ConditionalOperator":
            return None
        c_, t_, e_ = kids(init)
        c_ = strip(c_)
        if c_["k"] == "DeclRefExpr" and c_["decl"]["id"] in sub:
            c_ = strip(sub[c_["decl"]["id"]])
        if c_["k"] != "BinaryOperator" or c_["op"] not in ("<", "<=", ">", ">="):
            return None
        l, r = render(kids(c_)[0]), render(kids(c_)[1])
        if {l, r} != {a, b}:
            return None
        lo, hi = (l, r) if c_["op"] in ("<", "<=") else (r, l)     # when the test is true: lo <= hi
        tv, ev = render(t_), render(e_)
        if tv == hi and ev == lo:
            return "max"
        if tv == lo and ev == hi:
            return "min"
        return None
    for e in exps:
        arg = strip(f.args(e)[0])
        construct = "logsum-exp:" + render(arg)
        if not (arg["k"] == "BinaryOperator" and arg["op"] == "-"):
            chk.unknown(RID, f.key, construct, f.loc(e), "exponent is not a difference")
            continue
        sl, sr = selected(kids(arg)[0]), selected(kids(arg)[1])
        if sl == "min" and sr == "max":
            chk.proved(RID, f.key, construct, f.loc(e), "exp(smaller - larger): operands selected by an ordering test")
            continue
        if sl == "max" and sr == "min":
            chk.refuted(RID, f.key, construct, f.loc(e), "logsum takes exp(larger - smaller): it shifts by the smaller operand, and a gap above ~709 overflows to +inf where ln(x+y) is finite", witness={"input": "logsum(0, 1000)"})
            continue
        small, large = render(kids(arg)[0]), render(kids(arg)[1])
        # path condition of this exp: walk up conditional operators / ifs
        facts = []
        for an in f.ancestors(e):
            if an["k"] == "ConditionalOperator":
                c_, t_, f_ = kids(an)
                if f.contains(t_, e):
                    facts.append((strip(c_), True))
                elif f.contains(f_, e):
                    facts.append((strip(c_), False))
            if an["k"] == "IfStmt":
                if f.contains(f.nodes[an["then"]], e):
                    facts.append((strip(f.nodes[an["cond"]]), True))
                elif "else" in an and f.contains(f.nodes[an["else"]], e):
                    facts.append((strip(f.nodes[an["cond"]]), False))
        # does some fact establish small <= large ?
        est = None
        for c_, tr in facts:
            if c_["k"] == "BinaryOperator" and c_["op"] in ("<", "<=", ">", ">="):
                l, r = render(kids(c_)[0]), render(kids(c_)[1])
                op = c_["op"]
                if not tr:
                    op = {"<": ">=", "<=": ">", ">": "<=", ">=": "<"}[op]
                lo, hi = (l, r) if op in ("<", "<=") else (r, l)
                if {lo, hi} == {small, large}:
                    est = (lo == small)
        if est is True:
            chk.proved(RID, f.key, construct, f.loc(e), "exp(%s - %s) is taken where %s <= %s: the exponent is never positive" % (small, large, small, large))
        elif est is False:
            chk.refuted(RID, f.key, construct, f.loc(e), "logsum takes exp(%s - %s) on the branch where %s is the larger operand: it shifts by the smaller value, and a gap above ~709 overflows to +inf where ln(x+y) is finite" % (
                small, large, small), witness={"input": "logsum(0, 1000)"})
        elif not facts and {small, large} == {a, b}:
            chk.refuted(RID, f.key, construct, f.loc(e), "logsum takes exp(%s - %s) without having compared the operands: whenever %s exceeds %s by more than ~709 the exponential overflows to +inf although ln(x+y) is finite" % (
                small, large, small, large), witness={"input": "logsum(%s)" % ("0, 1000" if small == b else "1000, 0")})
        else:
            chk.unknown(RID, f.key, construct, f.loc(e), "no ordering of the operands established on this branch")
    # two log-zeros: the difference of the operands needs a test before it is formed
    guard = [c for c in f.all_nodes() if is_call(c) and c["callee"]["name"] in ("isinf", "isfinite")] + \
            [n for n in f.all_nodes() if n["k"] == "BinaryOperator" and n["op"] == "==" and {render(kids(n)[0]), render(kids(n)[1])} == {a, b}]
    if guard:
        g = guard[0]
        chk.proved(RID, f.key, "logsum-inf", f.loc(g), "equal / infinite operands are tested (%s) before their difference is formed" % render(g))
    else:
        chk.refuted(RID, f.key, "logsum-inf", f.loc(), "logsum forms %s - %s (or the reverse) without testing for two equal infinities: logsum(-inf, -inf) is (-inf) + log(1 + exp(NaN)) = NaN instead of -inf (log-zero)" % (a, b),
                    witness={"input": "logsum(-inf, -inf)"})



# ------------------------------------------------------------------------------------------------ D4

def _d4(chk, fb):
    fs = [f for f in fb.q(ST + "::computeFdr") if f.body is not None]
    if len(fs) != 1:
        raise AnalysisBroken("anchor vanished: StatTools::computeFdr")
    f = fs[0]
    # comparator orientation of the sorted records
    cmpf = [g for g in fb.concrete_fns() if g.qname.startswith(ST + "::PValue_::operator<") and g.body is not None]
    if len(cmpf) != 1:
        raise AnalysisBroken("anchor vanished: StatTools::PValue_::operator<")
    g = cmpf[0]
    r = [n for n in walk(g.body) if n["k"] == "ReturnStmt"]
    ct = strip(kids(r[0])[0]) if r else None
    orient = None
    if ct is not None and ct["k"] == "BinaryOperator" and ct["op"] in ("<", ">"):
        l, rr = strip(kids(ct)[0]), strip(kids(ct)[1])
        lthis = l["k"] == "MemberExpr" and l["member"].get("this")
        rthis = rr["k"] == "MemberExpr" and rr["member"].get("this")
        if lthis != rthis:
            asc = (ct["op"] == "<") == bool(lthis)
            orient = "ascending" if asc else "descending"
    if orient is None:
        chk.unknown("D4", g.key, "comparator", g.loc(), "orientation of PValue_::operator< not readable")
        return
    chk.proved("D4", g.key, "comparator", g.loc(), "std::sort with this operator< orders the p-values %s" % orient)
    sorts = [c for c in f.calls() if c["callee"]["name"] == "sort"]
    if not sorts:
        chk.refuted("D4", f.key, "sorted", f.loc(), "computeFdr no longer sorts the p-values: ranks are undefined")
        return
    divs = [n for n in f.all_nodes() if n["k"] == "BinaryOperator" and n["op"] == "/"]
    asg = [n for n in f.all_nodes() if n["k"] == "BinaryOperator" and n["op"] == "=" and is_call(strip(kids(n)[0])) and strip(kids(n)[0])["callee"]["name"] == "operator[]"]
    tgt = [a for a in asg if any(d for d in divs if f.contains(kids(a)[1], d))]
    if len(tgt) != 1:
        raise AnalysisBroken("anchor vanished: the FDR assignment in computeFdr")
    a = tgt[0]
    lp = f.enclosing(a, ("ForStmt", "CXXForRangeStmt", "WhileStmt"))
    if lp is None:
        raise AnalysisBroken("anchor vanished: loop over the sorted p-values")
    ini = f.nodes.get(lp["init"]) if lp["k"] == "ForStmt" and lp.get("init") is not None else None
    ivar = None
    if ini is not None and ini["k"] == "DeclStmt":
        ivar = ini["decls"][0]["name"]
    else:
        # a range-for (or while) with a position counter: a local started at 0 and incremented once per pass
        incs = [x for x in walk(lp) if x["k"] == "UnaryOperator" and x.get("op") == "++" and strip(kids(x)[0])["k"] == "DeclRefExpr"]
        cands = set()
        for x in incs:
            dcl = strip(kids(x)[0])["decl"]
            for dn in f.all_nodes():
                if dn["k"] == "DeclStmt" and not f.contains(lp, dn):
                    for dd in dn["decls"]:
                        if dd["id"] == dcl["id"] and dd.get("init") is not None and strip(dd["init"])["k"] == "IntegerLiteral" and int(strip(dd["init"])["val"]) == 0:
                            cands.add(dcl["name"])
        if len(cands) == 1 and len(incs) == 1:
            ivar = cands.pop()
    if ivar is None:
        chk.unknown("D4", f.key, "rank", f.loc(a), "position of the p-value in the sorted sequence not recognised (loop form)")
        return
    d = [x for x in divs if f.contains(kids(a)[1], x)][-1]
    # outermost division of the right-hand side
    top = strip(kids(a)[1])
    if top["k"] == "BinaryOperator" and top["op"] == "/":
        d = top
    den = render(kids(d)[1], local_inits(f))
    den_s = re.sub(r"static_cast<double>\(|\(double\)", "(", den)
    uses_pos = re.search(r"\b%s\b" % re.escape(ivar), re.sub(r"\[%s\]" % re.escape(ivar), "[]", den_s)) is not None
    uses_orig = "index_" in den_s
    nname = "n"
    if uses_orig and not uses_pos:
        chk.refuted("D4", f.key, "rank", f.loc(d), "the FDR divisor is '%s': the position the p-value had in the INPUT, not its rank among the sorted p-values (r = p * n / rank)" % den,
                    witness={"input": "p = {0.01, 0.04, 0.03}: expected {0.03, 0.04, 0.045}"})
        return
    if not uses_pos:
        chk.unknown("D4", f.key, "rank", f.loc(d), "divisor '%s' not recognised" % den)
        return
    flat = den_s.replace(" ", "").replace("(", "").replace(")", "")
    if flat in ("%s+1" % ivar, "1+%s" % ivar):
        form = "ascending"
    elif flat in ("%s-%s" % (nname, ivar), "sortedPValues.size-%s" % ivar, "pvalues.size-%s" % ivar):
        form = "descending"
    else:
        chk.unknown("D4", f.key, "rank", f.loc(d), "rank expression '%s' not recognised" % den)
        return
    if form == orient:
        chk.proved("D4", f.key, "rank", f.loc(d), "rank = %s for a %s sort" % (den, orient))
    else:
        chk.refuted("D4", f.key, "rank", f.loc(d), "the p-values are sorted in %s order but the rank is computed as '%s' (the formula for %s order): the smallest p-value gets the largest rank" % (orient, den, form),
                    witness={"input": "p = {0.01, 0.04, 0.03}"})
    # the result is stored at the original position
    tix = render(f.args(strip(kids(a)[0]))[0])
    if "index_" in tix:
        chk.proved("D4", f.key, "stored-at-origin", f.loc(a), "fdr[%s]" % tix)
    else:
        chk.refuted("D4", f.key, "stored-at-origin", f.loc(a), "the adjusted value is stored at '%s' instead of the p-value's original position: the output is permuted relative to the input" % tix,
                    witness={"input": "p = {0.04, 0.01}"})


# ------------------------------------------------------------------------------------------------ D5

def _d5(chk, fb):
    fs = [f for f in _kernels(fb) if f.cls == VT and f.name == "median"]
    chk.floor("D5", "median instantiations", len(fs), 1)
    for f in fs:
        cfg = f.cfg
        vec = f.params[0]["name"]
        reads = [c for c in f.calls() if c["callee"]["name"] == "operator[]" and "obj" in c and render(f.obj(c)) == vec]
        full = []
        partial = []
        for c in f.calls():
            nm = c["callee"]["name"]
            if nm in ("sort", "stable_sort") and len(f.args(c)) >= 2 and render(f.args(c)[0]) == vec + ".begin()" and render(f.args(c)[1]) == vec + ".end()":
                full.append(c)
            elif nm in ("nth_element", "partial_sort", "partial_sort_copy"):
                partial.append(c)
        for r in reads:
            # reads under the single-element shortcut need no order
            iff = f.enclosing(r, ("IfStmt",))
            ct = render(f.nodes[iff["cond"]]) if iff is not None else ""
            idx = render(f.args(r)[0])
            construct = "order-statistic:%s[%s]" % (vec, idx)
            sub_ = local_inits(f)

            def single(facts, vec=vec):
                for tx, tr, nd in facts:
                    t2 = render(nd, sub_).replace(" ", "")
                    if t2 in ("(%s.size()==1)" % vec, "(1==%s.size())" % vec) and tr is True:
                        return True
                    if t2 in ("(%s.size()!=1)" % vec,) and tr is False:
                        return True
                return False
            g1, _p = e1.guarded_by(cfg, cfg.stmt_block(r), single)
            if "size() == 1" in ct or g1:
                chk.proved("D5", f.key, construct, f.loc(r), "single element")
                continue
            if any(cfg.dominates(cfg.stmt_block(s_), cfg.stmt_block(r)) and (cfg.stmt_block(s_) != cfg.stmt_block(r) or e1.earlier_in_block(cfg, s_, r)) for s_ in full):
                chk.proved("D5", f.key, construct, f.loc(r), "read after std::sort(%s.begin(), %s.end())" % (vec, vec))
            elif partial and any(pc["callee"]["name"] == "nth_element" and len(f.args(pc)) >= 3 and render(f.args(pc)[1], local_inits(f)).replace(" ", "") in (
                    "(%s.begin()+%s)" % (vec, render(f.args(r)[0], local_inits(f)).replace(" ", "")),) and cfg.dominates(cfg.stmt_block(pc), cfg.stmt_block(r)) for pc in partial):
                chk.proved("D5", f.key, construct, f.loc(r), "position fixed by nth_element")
            elif partial:
                chk.refuted("D5", f.key, construct, f.loc(r), "median reads %s[%s] after %s only: a partial ordering fixes one position, the other middle element of an even-length input is not the neighbouring order statistic" % (
                    vec, idx, partial[0]["callee"]["name"]), witness={"input": "{5, 1, 4, 2, 3, 0}"})
            else:
                chk.refuted("D5", f.key, construct, f.loc(r), "median reads %s[%s] without a preceding full sort of %s" % (vec, idx, vec), witness={"input": "{3, 1, 2}"})
        # middle positions: size/2 and size/2 - 1 under the even test
        subs = local_inits(f)
        even = [n for n in f.all_nodes() if n["k"] == "IfStmt" and re.search(r"size\(\) % 2\) == 0", render(f.nodes[n["cond"]]))]
        if even:
            iff = even[0]
            tr = [render(f.args(c)[0], subs) for c in reads if f.contains(f.nodes[iff["then"]], c)]
            el = [render(f.args(c)[0], subs) for c in reads if "else" in iff and f.contains(f.nodes[iff["else"]], c)]
            mid = "(%s.size() / 2)" % vec
            if sorted(tr) == sorted([mid, "(%s - 1)" % mid]) and el == [mid]:
                chk.proved("D5", f.key, "middle-positions", f.loc(iff), "even: mean of positions n/2-1 and n/2; odd: position n/2")
            else:
                chk.refuted("D5", f.key, "middle-positions", f.loc(iff), "median takes positions %s (even length) / %s (odd length) instead of n/2-1, n/2 / n/2" % (tr, el), witness={"input": "{1, 2, 3, 4}"})


# ------------------------------------------------------------------------------------------------ D6

def _d6(chk, fb):
    want = {"min": "<", "max": ">", "whichMin": "<", "whichMax": ">"}
    n = 0
    for f in sorted(_kernels(fb), key=lambda x: x.key):
        if f.cls != VT or f.name not in want or len(f.params) != 1:
            continue
        n += 1
        cfg = f.cfg
        v = f.params[0]["name"]
        # empty guard
        thr = [t for t in walk(f.body) if t["k"] == "CXXThrowExpr"]
        reads = [c for c in f.calls() if c["callee"]["name"] == "operator[]" and "obj" in c and render(f.obj(c)) == v]
        g = None
        for t in thr:
            iff = f.enclosing(t, ("IfStmt",))
            if iff is not None and render(f.nodes[iff["cond"]], local_inits(f)).replace(" ", "") in ("(%s.size()==0)" % v, "%s.empty()" % v, "(%s.size()<1)" % v, "(0==%s.size())" % v):
                if "EmptyVectorException" in (str(t.get("thrown")) + render(t)) and all(cfg.dominates(cfg.stmt_block(f.nodes[iff["cond"]]), cfg.stmt_block(r)) for r in reads):
                    g = t
        if g is not None:
            chk.proved("D6", f.key, "empty-guard", f.loc(g), "empty input throws EmptyVectorException before the first read")
        else:
            chk.refuted("D6", f.key, "empty-guard", f.loc(), "%s does not throw EmptyVectorException for an empty vector before reading it" % f.name, witness={"input": "{}"})
        # running value
        run = None
        for nn in walk(f.body):
            if nn["k"] == "DeclStmt":
                for d in nn["decls"]:
                    if d.get("init") is not None and d["ty"] in ("double", "const double"):
                        run = (d, render(d["init"]))
        if run is None:
            chk.unknown("D6", f.key, "start", f.loc(), "running value not found")
            continue
        subs6 = local_inits(f)
        start_txt = render(run[0]["init"], subs6).replace("std::", "")
        i6 = strip(run[0]["init"])
        if run[1] == "%s[0]" % v or start_txt in ("%s[0]" % v, "*%s.begin()" % v, "%s.front()" % v, "*(%s.begin())" % v, "%s.at(0)" % v):
            chk.proved("D6", f.key, "start", f.loc(), "running value starts at %s[0]" % v)
        elif v in start_txt or any(x["k"] == "DeclRefExpr" and x["decl"].get("kind") in ("local", "var") for x in walk(run[0]["init"])):
            chk.unknown("D6", f.key, "start", f.loc(), "running value starts from '%s': not recognised as the first element" % run[1])
        else:
            chk.refuted("D6", f.key, "start", f.loc(), "the running %s starts from '%s' instead of the first element: inputs entirely on the other side of that value give a wrong result" % (
                "minimum" if "in" in f.name else "maximum", run[1]), witness={"input": "{-3, -1}" if want[f.name] == ">" else "{5, 7}"})
        rname = run[0]["name"]
        cmps = []
        for iff in [x for x in f.all_nodes() if x["k"] == "IfStmt"]:
            c = strip(f.nodes[iff["cond"]])
            if c["k"] == "BinaryOperator" and c["op"] in ("<", ">", "<=", ">=") and rname in (render(kids(c)[0]), render(kids(c)[1])):
                cmps.append((iff, c))
        if len(cmps) != 1:
            chk.unknown("D6", f.key, "direction", f.loc(), "%d comparisons with the running value" % len(cmps))
            continue
        iff, c = cmps[0]
        l, r = render(kids(c)[0]), render(kids(c)[1])
        op = c["op"]
        if l == rname:
            op = {"<": ">", ">": "<", "<=": ">=", ">=": "<="}[op]
            l, r = r, l
        strict = op in ("<", ">")
        if op[0] == want[f.name]:
            if strict or not f.name.startswith("which"):
                chk.proved("D6", f.key, "direction", f.loc(iff), "replaced when %s %s %s" % (l, op, r))
            else:
                chk.refuted("D6", f.key, "direction", f.loc(iff), "%s replaces the position on ties (%s %s %s): it returns the last instead of the first position of the extremum" % (f.name, l, op, r), witness={"input": "{2, 2}"})
        else:
            chk.refuted("D6", f.key, "direction", f.loc(iff), "%s replaces its running value when %s %s %s: that is the search for the opposite extremum" % (f.name, l, op, r), witness={"input": "{1, 2}"})
        if f.name.startswith("which"):
            thenb = f.nodes[iff["then"]]
            asg = [render(a) for a in walk(thenb) if a["k"] == "BinaryOperator" and a["op"] == "="]
            val = [a for a in asg if a.startswith("(%s = " % rname)]
            posw = [a for a in asg if not a.startswith("(%s = " % rname)]
            m = re.match(r"\((\w+) = (\w+)\)", posw[0]) if posw else None
            lpv = None
            lp = f.enclosing(iff, ("ForStmt",))
            if lp is not None and f.nodes.get(lp["init"], {}).get("k") == "DeclStmt":
                lpv = f.nodes[lp["init"]]["decls"][0]["name"]
            rets = [render(kids(x)[0]) for x in walk(f.body) if x["k"] == "ReturnStmt" and kids(x)]
            val_r = [render(a, subs6) for a in walk(thenb) if a["k"] == "BinaryOperator" and a["op"] == "=" and render(kids(a)[0]) == rname]
            if val and m and m.group(2) == lpv and rets == [m.group(1)] and (val[0] == "(%s = %s[%s])" % (rname, v, lpv) or (val_r and val_r[0] == "(%s = %s[%s])" % (rname, v, lpv))):
                chk.proved("D6", f.key, "position-with-value", f.loc(iff), "value and position updated together, position returned")
            elif val and posw:
                chk.unknown("D6", f.key, "position-with-value", f.loc(iff), "value and position are both assigned; the forms (%s) are not compared" % asg)
            else:
                chk.refuted("D6", f.key, "position-with-value", f.loc(iff), "%s does not update the running value and the position together (assignments: %s; returned: %s)" % (f.name, asg, rets), witness={"input": "{1, 3, 2}"})
    chk.floor("D6", "extremum searches", n, 4)


# ------------------------------------------------------------------------------------------------ D7

def _doc_throws(path):
    """function name (+ line) -> exception names documented with @throw in the preceding comment block"""
    out = []
    lines = open(path, errors="replace").read().split("\n")
    i = 0
    while i < len(lines):
        if lines[i].strip().startswith("/**"):
            j = i
            ths = []
            while j < len(lines) and "*/" not in lines[j]:
                m = re.search(r"@throws?\s+(\w+)", lines[j])
                if m:
                    ths.append(m.group(1))
                j += 1
            # declaration follows
            k = j + 1
            while k < len(lines) and (lines[k].strip() == "" or lines[k].strip().startswith("template")):
                k += 1
            if ths and k < len(lines):
                m = re.search(r"(\w+)\s*\(", lines[k])
                if m:
                    out.append((m.group(1), k + 1, ths))
            i = j
        i += 1
    return out


def _d7(chk, fb):
    path = os.path.join(fb.src, "Bpp/Numeric/VectorTools.h")
    docs = _doc_throws(path)
    chk.floor("D7", "documented @throw clauses in VectorTools.h", len(docs), 15)
    ks = [f for f in _kernels(fb) if f.rec.get("file", "").endswith("Bpp/Numeric/VectorTools.h") or f.loc().startswith("src/Bpp/Numeric/VectorTools.h")]
    for name, line, ths in docs:
        cands = [f for f in ks if f.name == name and abs(int(f.loc().split(":")[-1]) - line) <= 2]
        if not cands:
            chk.unknown("D7", "%s@%d" % (name, line), "doc-throw", "src/Bpp/Numeric/VectorTools.h:%d" % line, "documented function not among the instantiated ones")
            continue
        f = cands[0]

        def thrown(g, depth=0, seen=None):
            seen = seen if seen is not None else set()
            if g.key in seen:
                return set()
            seen.add(g.key)
            out = set()
            for t in g.all_nodes():
                if t["k"] == "CXXThrowExpr":
                    out.add(str(t.get("thrown")) + " " + render(t))
            if depth < 6:
                for c in g.calls():
                    if c["callee"].get("inrepo"):
                        h = fb.fns.get(c["callee"].get("key"))
                        if h is not None and h.body is not None:
                            out |= thrown(h, depth + 1, seen)
            return out
        th = " ".join(sorted(thrown(f)))
        for t in ths:
            construct = "doc-throw:" + t
            if t in th:
                chk.proved("D7", f.key, construct, f.loc(), "documented %s is thrown" % t)
            elif not th.strip():
                # nothing is thrown at all: whether a size test is needed is D1's question; the comment may simply be inaccurate
                chk.unknown("D7", f.key, construct, f.loc(), "documents %s but throws nothing (index safety is decided by D1)" % t)
            else:
                chk.refuted("D7", f.key, construct, f.loc(), "%s documents '@throw %s' but neither it nor its callees throw it (thrown: %s)" % (_short(f), t, th[:120] or "nothing"),
                            witness={"input": "the documented invalid input"})


def run(chk, fb, tier):
    chk.rule("D1", "E2 symbolic index bounds with callee post-conditions, unsigned loop-bound wrap and forward-cursor idioms; witness sizes required to refute")
    chk.rule("D2", "argument/parameter name agreement at forwarding calls (same-typed parameters must not be swapped)")
    chk.rule("D3", "log-domain reductions: exp(element - max of the same vector), shift undone, isinf(shift) handled before subtracting; logsum shifts by the larger operand and tests equal infinities")
    chk.rule("D4", "FDR divisor is the rank from the sorted position, oriented like PValue_::operator<; result stored at the original position")
    chk.rule("D5", "median reads its order statistics after a full std::sort of the same container, at positions n/2-1, n/2 (even) and n/2 (odd)")
    chk.rule("D6", "min/max/whichMin/whichMax: EmptyVectorException first, start at v[0], comparison direction, position updated with the value")
    chk.rule("D7", "'@throw X' documented for a VectorTools function is thrown by it or its callees")
    _d1(chk, fb)
    _d2(chk, fb)
    _d3(chk, fb)
    chk.rule("D3b", "every element enters a seeded reduction once: seed from element 0 <=> traversal from element 1; constant seed <=> traversal of the whole vector")
    _d3b(chk, fb)
    _d4(chk, fb)
    _d5(chk, fb)
    _d6(chk, fb)
    _d7(chk, fb)
    chk.assume("templates are analysed in their instantiation for double; InputType = OutputType = double")
