"""C13 All HMM likelihood algorithms compute the same, correct probability of the data.

 D1 memo keys (dVariable_, d2Variable_) and lazy flags (back*UpToDate_) are reset by every fireParameterChanged
    sibling on every path that recomputes the forward pass
 D2 lazy-flag coverage: a method that sets a transition matrix's upToDate_ has computed every result a getter returns under it
 D3 the three fireParameterChanged siblings agree on the update protocol (match x3, conditional re-propagation, recompute)
 D5 user-provided copy constructor and operator= of the HMM classes copy the same members
"""
from .facts import kids, strip, walk, is_call, render, AnalysisBroken
from . import e1

EXPLANATION = ("Static analysis of structural clauses of C13 ('answers depend only on the current parameter values, never on the order of earlier queries or updates'): "
               "D1 memo keys of the derivative cache and lazy flags of the backward pass are found structurally and every fireParameterChanged below AbstractHmmLikelihood that "
               "recomputes the forward pass must reset them on the same paths (classes whose derivative kernels unconditionally throw are exempt by that inferred fact); D2 every "
               "method that sets a transition model's upToDate_ flag has written every member some getter returns under that flag; D3 the three likelihood classes implement one update "
               "protocol (same three matchParametersValues, same conditional re-propagation, forward recomputation afterwards); D5 copy constructor and operator= copy the same "
               "members. NOT decided: equality of the three algorithms' values, agreement with path enumeration, derivative values, stochasticity/stationarity of built-in matrices.")

AH = "bpp::AbstractHmmLikelihood"
AT = "bpp::AbstractHmmTransitionMatrix"


def _memo_keys(fb):
    """fields F of AbstractHmmLikelihood that act as memo keys: compared (== / !=) with an argument of a method that assigns F
    from that argument and calls a virtual compute...() on this, in whatever arrangement (guarded block or early return)"""
    keys = {}
    flds = [fl["name"] for fl in fb.need_class(AH)["fields"]]
    for f in fb.concrete_fns():
        if f.cls != AH or f.body is None:
            continue
        for p in f.params:
            for fld in flds:
                compared = False
                for n in f.all_nodes():
                    if n["k"] in ("IfStmt", "ConditionalOperator") and "cond" in n or n["k"] == "ConditionalOperator":
                        cnode = f.nodes[n["cond"]] if "cond" in n and isinstance(n["cond"], int) else kids(n)[0]
                        txt = render(strip(cnode)).replace(" ", "")
                        if txt in ("(%s!=%s)" % (p["name"], fld), "(%s!=%s)" % (fld, p["name"]), "(%s==%s)" % (p["name"], fld), "(%s==%s)" % (fld, p["name"]),
                                   "!(%s==%s)" % (p["name"], fld), "!(%s==%s)" % (fld, p["name"])):
                            compared = True
                if not compared:
                    continue
                assigns = [x for x in f.all_nodes() if is_call(x) and x["callee"]["name"] == "operator=" and "obj" in x and render(f.obj(x)) == fld and render(f.args(x)[0]) == p["name"]] + \
                          [x for x in f.all_nodes() if x["k"] == "BinaryOperator" and x["op"] == "=" and render(kids(x)[0]) == fld and render(kids(x)[1]) == p["name"]]
                computes = [x for x in f.calls() if x["callee"].get("virtual") and x["callee"]["name"].startswith("compute") and ("obj" not in x or strip(f.obj(x))["k"] == "CXXThisExpr")]
                if assigns and computes:
                    keys[fld] = (f, computes[0]["callee"])
    return keys


def _always_throws(fb, f):
    cfg = f.cfg
    if cfg is None:
        return False
    return not any(True for p in e1.normal_exit_preds(cfg) if p in cfg.reachable_from(cfg.entry))


def _lazy_flags(fb, cls):
    """mutable bool fields tested as 'if (!flag)' somewhere in the class"""
    out = []
    c = fb.need_class(cls)
    for fld in c["fields"]:
        if fld["ty"] != "bool" or not fld["mutable"]:
            continue
        used = False
        for m in c["methods"]:
            f = fb.fns.get(m["key"])
            if f is None or f.body is None:
                continue
            for n in walk(f.body):
                if n["k"] == "IfStmt" and render(f.nodes[n["cond"]]) == "!" + fld["name"]:
                    used = True
        if used:
            out.append(fld["name"])
    return out


def _assign_nodes(f, field, value=None):
    out = []
    for n in f.all_nodes():
        if n["k"] == "BinaryOperator" and n["op"] == "=" and render(kids(n)[0]) == field:
            if value is None or render(kids(n)[1]) == value:
                out.append(n)
        if is_call(n) and n["callee"]["name"] == "operator=" and "obj" in n and render(f.obj(n)) == field:
            if value is None or render(f.args(n)[0]) == value or (value == '""' and render(f.args(n)[0]) in ("std::basic_string()", "std::string()", "{}")):
                out.append(n)
        # the empty key spelled key.clear() / key.erase() / key.assign("")
        if value == '""' and is_call(n) and "obj" in n and render(f.obj(n)) == field and (
                (n["callee"]["name"] in ("clear", "erase") and not f.args(n)) or (n["callee"]["name"] == "assign" and [render(a) for a in f.args(n)] == ['""'])):
            out.append(n)
    return out


def _reset_nodes(fb, f, key):
    """statements of f that empty the memo key: directly, or by calling a helper on this object that empties it on every path"""
    out = _assign_nodes(f, key, '""')
    for c in f.calls():
        if "obj" in c and strip(f.obj(c))["k"] != "CXXThisExpr":
            continue
        g = fb.fns.get(c["callee"].get("key"))
        if g is None or g.body is None or g.key == f.key:
            continue
        rs = _assign_nodes(g, key, '""')
        if rs:
            tb = {g.cfg.stmt_block(r) for r in rs}
            if not e1.path_exists(g.cfg, g.cfg.entry, g.cfg.exit, avoid_blocks=tb):
                out.append(c)
    return out


def _covers(cfg, f, through_nodes, target_nodes):
    """every entry->exit path that passes a block of through_nodes also passes a block of target_nodes"""
    tb = {cfg.stmt_block(n) for n in target_nodes}
    for t in through_nodes:
        b = cfg.stmt_block(t)
        if b in tb:
            continue
        # entry -> b avoiding tb, and b -> exit avoiding tb
        if e1.path_exists(cfg, cfg.entry, b, avoid_blocks=tb) and e1.path_exists(cfg, b, cfg.exit, avoid_blocks=tb):
            return False
    return True


def _d1(chk, fb):
    keys = _memo_keys(fb)
    chk.floor("D1", "memo keys of the derivative cache", len(keys), 2)
    subs = [c for c in fb.subclasses(AH) if not fb.classes[c].get("abstract")]
    chk.floor("D1", "concrete likelihood classes", len(subs), 3)
    for cls in sorted(subs):
        fs = fb.q(cls + "::fireParameterChanged")
        if len(fs) != 1:
            chk.fail_broken("anchor vanished: %s::fireParameterChanged" % cls)
            continue
        f = fs[0]
        cfg = f.cfg
        recompute = [n for n in f.calls() if n["callee"]["name"] in ("computeForward_", "computeLikelihood") and ("obj" not in n or strip(f.obj(n))["k"] == "CXXThisExpr")]
        if not recompute:
            chk.refuted("D1", f.key, "recomputes-forward", f.loc(), "fireParameterChanged no longer recomputes the forward pass")
            continue
        for key, (getter, comp) in sorted(keys.items()):
            # exempt: the derivative kernel of this class unconditionally throws (derivative not offered)
            kern = [t for t in [fb.fns.get(k) for k in [comp["key"]] + list(fb.overriders(comp["key"]))] if t is not None and t.cls == cls]
            if kern and _always_throws(fb, kern[0]):
                chk.proved("D1", f.key, "memo-key-reset:" + key, f.loc(), "exempt: %s always throws (derivative not offered by this class)" % kern[0].qname)
                continue
            resets = _reset_nodes(fb, f, key)
            if resets and _covers(cfg, f, recompute, resets):
                chk.proved("D1", f.key, "memo-key-reset:" + key, f.loc(resets[0]), "%s reset on every path that recomputes" % key)
            else:
                chk.refuted("D1", f.key, "memo-key-reset:" + key, f.loc(),
                            "fireParameterChanged recomputes the likelihood but does not reset the memo key '%s' of %s: a derivative requested again for the same variable after an update is served from the stale cache" % (key, getter.qname),
                            witness={"history": "getFirstOrderDerivative(v); setParameterValue(p, x); getFirstOrderDerivative(v)  -> second answer equals the first"})
        for flag in _lazy_flags(fb, cls):
            clears = _assign_nodes(f, flag, "false")
            if clears and _covers(cfg, f, recompute, clears):
                chk.proved("D1", f.key, "lazy-flag-cleared:" + flag, f.loc(clears[0]), "%s = false on every path that recomputes the forward pass" % flag)
            else:
                chk.refuted("D1", f.key, "lazy-flag-cleared:" + flag, f.loc(),
                            "a path recomputes the forward pass without clearing '%s': the backward quantities cached before the update keep being used" % flag,
                            witness={"history": "query posteriors; update a parameter on the uncovered path; query posteriors again"})
        # the flag may only become true inside the function that computes the guarded arrays
        for flag in _lazy_flags(fb, cls):
            for g, n, kind in fb.field_writes(cls + "::" + flag):
                if kind == "assign" and render(kids(n)[1]) == "true":
                    if g.name.startswith("computeBackward"):
                        chk.proved("D1", g.key, "lazy-flag-set-by-compute:" + flag, g.loc(n), "set after the backward pass")
                    else:
                        chk.refuted("D1", g.key, "lazy-flag-set-by-compute:" + flag, g.loc(n), "'%s' is set to true outside the backward computation" % flag)


def _d2(chk, fb):
    subs = [c for c in fb.subclasses(AT) if not fb.classes[c].get("abstract")]
    chk.floor("D2", "concrete transition models", len(subs), 2)
    flag = "upToDate_"
    fb.need_field(AT, flag)
    eff = e1.Effects(fb)
    for cls in sorted(subs):
        c = fb.need_class(cls)
        methods = [fb.fns[m["key"]] for m in c["methods"] if m["key"] in fb.fns and fb.fns[m["key"]].body is not None]
        guarded = {}
        setters = []
        for f in methods:
            ifs = [n for n in walk(f.body) if n["k"] == "IfStmt" and render(f.nodes[n["cond"]]) == "!" + flag]
            rets = [n for n in walk(f.body) if n["k"] == "ReturnStmt" and kids(n)]
            if ifs and rets:
                r = strip(kids(rets[-1])[0])
                if r["k"] == "MemberExpr" and r["member"]["this"]:
                    guarded[r["member"]["name"]] = f
            sets = _assign_nodes(f, flag, "true")
            if sets:
                setters.append((f, sets))
        if not setters:
            continue
        for f, sets in setters:
            cfg = f.cfg
            for s in sets:
                # members written before the flag is set (directly or through callees on this)
                written = set()
                for n in f.all_nodes():
                    if n is s:
                        continue
                    if n["k"] in ("BinaryOperator", "CompoundAssignOperator") and n.get("op", "").endswith("=") and n["op"] not in ("==", "!=", "<=", ">="):
                        r = e1._root_decl(kids(n)[0])
                        if r and r[0] == "f" and e1.before_in_function(cfg, n, s):
                            written.add(r[2])
                    elif is_call(n):
                        if e1.before_in_function(cfg, n, s):
                            for r in eff.call_effect(f, n):
                                if r and r[0] == "f":
                                    written.add(r[2])
                missing = sorted(g for g in guarded if g not in written)
                if missing:
                    g = guarded[missing[0]]
                    chk.refuted("D2", f.key, "flag-covers:" + ",".join(missing), f.loc(s),
                                "sets %s = true after computing %s only, but %s returns '%s' under the same flag: called first, this method makes the other return a never-computed / stale member" % (
                                    flag, sorted(written & set(guarded)) or "nothing", g.qname, missing[0]),
                                witness={"history": "%s(); %s()" % (f.name, g.name)})
                else:
                    chk.proved("D2", f.key, "flag-covers:" + ",".join(sorted(guarded)), f.loc(s), "all members returned under %s are written before it is set" % flag)
        # the notification clears the flag unconditionally
        fs = fb.q(cls + "::fireParameterChanged")
        for f in fs:
            clears = _assign_nodes(f, flag, "false")
            cfg = f.cfg
            if clears and any(cfg.stmt_block(x) in cfg.pdom.get(cfg.entry, set()) for x in clears):
                chk.proved("D2", f.key, "flag-cleared-on-change", f.loc(clears[0]), "%s = false on every path" % flag)
            else:
                chk.refuted("D2", f.key, "flag-cleared-on-change", f.loc(), "a parameter change does not unconditionally clear %s" % flag)


def _protocol(f):
    """set of (guard facts, action) pairs describing the update protocol, memo/flag statements removed"""
    cfg = f.cfg
    out = set()
    order = []
    for n in f.calls():
        c = n["callee"]
        if c["name"] in ("matchParametersValues", "setParametersValues") and "obj" in n:
            tgt = render(f.obj(n))
            arg = render(f.args(n)[0]) if f.args(n) else ""
            arg = arg.replace(f.params[0]["name"], "<pl>")
            # guard: facts dominating the call, with locals resolved to the match call that defined them
            facts = set()
            b = cfg.stmt_block(n)
            for a in cfg.dom.get(b, ()):
                for s in cfg.succ[a]:
                    # the edge a->s holds at b only when it is the one way into s (and s dominates b)
                    if (s in cfg.dom.get(b, ()) or s == b) and set(cfg.pred[s]) == {a}:
                        for t, tr, nd in e1.edge_facts(cfg, a, s):
                            if cfg.dominates(s, b) or s == b:
                                facts.add((t, tr))
            out.add((frozenset(facts), "%s.%s(%s)" % (tgt, c["name"], arg)))
        if c["name"] in ("computeForward_", "computeLikelihood"):
            out.add((frozenset(), "recompute"))
    return out


def _d3(chk, fb):
    subs = sorted(c for c in fb.subclasses(AH) if not fb.classes[c].get("abstract"))
    protos = {}
    locs = {}
    for cls in subs:
        fs = fb.q(cls + "::fireParameterChanged")
        if len(fs) != 1:
            continue
        f = fs[0]
        # resolve flag locals: name of bool local -> which object it came from
        names = {}
        for n in walk(f.body):
            if n["k"] == "DeclStmt":
                for d in n["decls"]:
                    if d.get("init") is not None and d["ty"] in ("bool", "const bool"):
                        names[d["name"]] = render(d["init"]).replace(f.params[0]["name"], "<pl>")
        p = set()
        for facts, act in _protocol(f):
            # a named const flag also yields the fact of its initialiser: both spellings are mapped to the same text
            p.add((frozenset((names.get(t, t).replace(f.params[0]["name"], "<pl>") if t not in names else names[t], tr) for t, tr in facts), act))
        protos[cls] = p
        locs[cls] = f
        # recomputation must follow every match call
        cfg = f.cfg
        rec = [n for n in f.calls() if n["callee"]["name"] in ("computeForward_", "computeLikelihood")]
        ups = [n for n in f.calls() if n["callee"]["name"] in ("matchParametersValues", "setParametersValues")]
        late = [u for u in ups if any(e1.before_in_function(cfg, r, u) for r in rec)]
        if rec and not late:
            chk.proved("D3", f.key, "recompute-after-updates", f.loc(rec[0]), "%d component updates precede the recomputation" % len(ups))
        else:
            chk.refuted("D3", f.key, "recompute-after-updates", f.loc(), "the forward pass is recomputed before a component update at %s" % (f.loc(late[0]) if late else "?"))
    chk.floor("D3", "fireParameterChanged siblings", len(protos), 3)
    # majority protocol
    allp = list(protos.values())
    for cls, p in protos.items():
        others = [q for c2, q in protos.items() if c2 != cls]
        agree = sum(1 for q in others if q == p)
        f = locs[cls]
        if agree == len(others):
            chk.proved("D3", f.key, "protocol-agrees", f.loc(), "%d protocol steps, identical in all %d siblings" % (len(p), len(protos)))
        elif all(q == others[0] for q in others):
            miss = others[0] - p
            extra = p - others[0]
            chk.refuted("D3", f.key, "protocol-agrees", f.loc(),
                        "update protocol differs from its two siblings (which agree): missing %s, extra %s" % (sorted(a for _, a in miss), sorted(a for _, a in extra)))
        else:
            chk.unknown("D3", f.key, "protocol-agrees", f.loc(), "siblings pairwise different")


def _d5(chk, fb):
    n = 0
    for cls in sorted(fb.classes):
        c = fb.classes[cls]
        if "/Hmm/" not in c["file"] or c.get("dependent"):
            continue
        cc = [f for f in fb.q(cls + "::" + cls.split("::")[-1]) if f.rec.get("copyctor")]
        ca = fb.q(cls + "::operator=")
        if not cc or not ca:
            continue
        n += 1
        own = {fl["name"] for fl in c["fields"]}
        src = cc[0].params[0]["name"]
        in_ctor = {i["fname"] for i in cc[0].rec.get("inits", []) if i.get("fname") and i.get("written") and src in render(i["expr"])}
        for fl in own:
            if _assign_nodes(cc[0], fl):
                in_ctor.add(fl)
        f = ca[0]
        src2 = f.params[0]["name"]
        in_assign = set()
        for fl in own:
            for x in _assign_nodes(f, fl):
                in_assign.add(fl)
        only_ctor = sorted((in_ctor & own) - in_assign)
        only_assign = sorted((in_assign & own) - in_ctor)
        if only_ctor:
            chk.refuted("D5", f.key, "assign-copies:" + ",".join(only_ctor), f.loc(),
                        "operator= does not copy member(s) %s that the copy constructor copies: after assignment the object mixes its own old state with the source's" % only_ctor,
                        witness={"history": "a = b with different parameter values, then compare a and b"})
        elif only_assign:
            chk.refuted("D5", cc[0].key, "ctor-copies:" + ",".join(only_assign), cc[0].loc(), "copy constructor does not copy member(s) %s that operator= copies" % only_assign)
        else:
            chk.proved("D5", f.key, "copy-assign-agree", f.loc(), "both copy %s" % sorted(in_ctor & own))
    chk.floor("D5", "HMM classes with user copy constructor and operator=", n, 5)


def _d6(chk, fb):
    """the log-space recursions of LogsumHmmLikelihood rest on NumTools::logsum: same rule as C07 D3 (shift by the larger operand)"""
    from . import c07
    users = [f for f in fb.concrete_fns() if f.body is not None and (f.cls or "").endswith("LogsumHmmLikelihood") and any(c["callee"]["name"] == "logsum" for c in f.calls())]
    chk.floor("D6", "LogsumHmmLikelihood members calling NumTools::logsum", len(users), 1)
    c07.logsum_rule(chk, fb, "D6")


def _d7(chk, fb):
    """reference aliasing at call sites: a callee that updates the elements of a container received by non-const reference while
    it keeps reading a scalar received by const reference must not be handed an element of that same container as the scalar
    (v -= v[k]: once v[k] has been updated to 0 the remaining elements are shifted by 0)"""
    eff = e1.Effects(fb)
    summ = {}

    def shape(t):
        """(index of the written reference parameter, indices of const-reference scalars read inside a loop that writes it)"""
        if t.key in summ:
            return summ[t.key]
        summ[t.key] = None
        if t.body is None or len(t.params) < 2:
            return None
        pt = [p_.get("ty", "") for p_ in t.params]
        wr = [i for i, ty in enumerate(pt) if ty.endswith("&") and not ty.startswith("const ") and "vector" in ty]
        rd = [j for j, ty in enumerate(pt) if ty.startswith("const ") and ty.endswith("&") and "vector" not in ty and "Matrix" not in ty and "basic_string" not in ty]
        if not wr or not rd:
            return None
        out = None
        for lp in [x for x in t.all_nodes() if x["k"] in ("ForStmt", "CXXForRangeStmt", "WhileStmt")]:
            names = {x["decl"]["name"] for x in walk(lp) if x["k"] == "DeclRefExpr" and x["decl"]["kind"] == "param"}
            w_in = [i for i in wr if t.params[i]["name"] in names]
            r_in = [j for j in rd if t.params[j]["name"] in names]
            writes = any(x["k"] in ("CompoundAssignOperator", "BinaryOperator") and x.get("op", "").endswith("=") and x["op"] not in ("==", "!=", "<=", ">=") for x in walk(lp))
            if w_in and r_in and writes:
                out = (w_in[0], r_in)
        if out is None:
            out = (wr[0], [], rd)       # signature of an update-by-scalar helper whose loop does not read the reference itself
        summ[t.key] = out
        return out
    n = 0
    for f in fb.concrete_fns():
        if f.body is None:
            continue
        for c in f.calls():
            if not c["callee"].get("inrepo"):
                continue
            for t in fb.targets(c, static_type_only=True):
                sh = shape(t)
                if sh is None:
                    continue
                args = ([f.obj(c)] if "obj" in c and c["callee"].get("via") != "operator" else []) + f.args(c)
                if len(args) != len(t.params):
                    args = f.args(c)
                if len(args) != len(t.params):
                    continue
                wi, rjs = sh[0], sh[1]
                rootw = e1._root_decl(args[wi])
                for j in (sh[2] if len(sh) > 2 else []):
                    aj = strip(args[j])
                    if is_call(aj) and aj["callee"]["name"] in ("operator[]", "at", "front", "back", "operator*") and rootw is not None and e1._root_decl(aj) == rootw:
                        n += 1
                        chk.proved("D7", f.key, "alias:%s(%s, %s)" % (t.name, render(args[wi])[:20], render(aj)[:40]), f.loc(c),
                                   "an element of the updated container is passed as the scalar, and %s does not read the reference inside its updating loop (it works on a copy)" % t.name)
                for j in rjs:
                    aj = strip(args[j])
                    n += 1
                    con = "alias:%s(%s, %s)" % (t.name, render(args[wi])[:20], render(aj)[:40])
                    elem = is_call(aj) and aj["callee"]["name"] in ("operator[]", "at", "front", "back", "operator*")
                    if rootw is not None and elem and e1._root_decl(aj) == rootw:
                        chk.refuted("D7", f.key, con, f.loc(c),
                                    "'%s' hands %s an element of the very container it updates, by const reference: %s reads the scalar again for every element, and once the aliased element has been updated itself the "
                                    "remaining elements are combined with the new value (v -= v[k] leaves the elements after k unshifted)" % (render(c)[:60], t.name, t.name),
                                    witness={"input": "a vector whose selected element is not the last one"})
                    else:
                        chk.proved("D7", f.key, con, f.loc(c), "the scalar is not an element of the updated container")
    chk.floor("D7", "calls that pass an element of the updated container (or a hazardous helper)", n, 4)


def _d8(chk, fb):
    """the element accessor Pij(i, j) and the matrix view getPij() of one transition model are two implementations of one table:
    the expression stored into pij_(a, b) is the expression returned by Pij(a, b)"""
    import re
    n = 0
    for cls in sorted(fb.classes):
        if not fb.derives_from(cls, "bpp::HmmTransitionMatrix") or fb.classes[cls].get("abstract"):
            continue
        acc = [f for f in fb.q(cls + "::Pij") if len(f.params) == 2 and f.body is not None]
        view = [f for f in fb.q(cls + "::getPij") if f.body is not None]
        if not acc or not view:
            continue
        A, V = acc[0], view[0]
        rets = [x for x in walk(A.body) if x["k"] == "ReturnStmt" and kids(x)]
        stores = []
        for x in walk(V.body):
            if x["k"] == "BinaryOperator" and x["op"] == "=":
                l_ = strip(kids(x)[0])
                if is_call(l_) and l_["callee"]["name"] == "operator()" and "obj" in l_ and render(V.obj(l_)) == "pij_" and len(V.args(l_)) == 2:
                    stores.append((x, l_))
        if len(rets) != 1 or len(stores) != 1:
            chk.unknown("D8", V.key, "view-equals-accessor", V.loc(), "Pij has %d return(s), getPij %d store(s) into pij_: not the one-expression form this rule compares" % (len(rets), len(stores)))
            continue
        n += 1
        pi, pj = A.params[0]["name"], A.params[1]["name"]
        va, vb = render(V.args(stores[0][1])[0]), render(V.args(stores[0][1])[1])

        def canon(t, a, b):
            t = re.sub(r"\b%s\b" % re.escape(a), "@1", t)
            t = re.sub(r"\b%s\b" % re.escape(b), "@2", t) if a != b else t
            return t
        e1_ = canon(render(kids(rets[0])[0]), pi, pj)
        e2_ = canon(render(kids(stores[0][0])[1]), va, vb)
        if e1_ == e2_:
            chk.proved("D8", V.key, "view-equals-accessor", V.loc(stores[0][0]), "pij_(a, b) and Pij(a, b) are the same expression")
            continue
        t1, t2 = re.findall(r"@1|@2|\w+|\S", e1_), re.findall(r"@1|@2|\w+|\S", e2_)
        if len(t1) == len(t2) and all(x == y or {x, y} == {"@1", "@2"} for x, y in zip(t1, t2)):
            k = [i for i, (x, y) in enumerate(zip(t1, t2)) if x != y][0]
            chk.refuted("D8", V.key, "view-equals-accessor", V.loc(stores[0][0]),
                        "getPij() stores '%s' while Pij(%s, %s) returns '%s': the two differ only in which index a term uses, so the matrix handed to the derivative recursions and the sampler is not the table the forward/backward recursions read" % (
                            render(kids(stores[0][0])[1])[:80], pi, pj, render(kids(rets[0])[0])[:80]),
                        witness={"input": "state-specific parameters (rows that differ)"})
        else:
            chk.unknown("D8", V.key, "view-equals-accessor", V.loc(stores[0][0]), "the two expressions differ in form: '%s' / '%s'" % (e1_[:60], e2_[:60]))
    chk.floor("D8", "transition models with an element accessor and a matrix view", n, 2)


def _d9(chk, fb):
    """log-domain vectors are shifted before they are exponentiated: a local vector filled with log-likelihoods and then handed
    to VectorTools::sumExp as the exponent argument is, on every path from the (last) fill to that call, reduced by its maximum
    ('v -= v[whichMax(v)]' / 'v -= max(v)').  Without the shift every exp() underflows to zero once the log-likelihood is below
    about -745, and the ratios built from these sums are 0/0.  A helper that receives the vector by reference is read the same
    way (it fills, shifts, or fills and always shifts).  A path from a fill to the call that passes no shift is refuted"""
    n = 0

    def classify(g, is_v, vname, depth=0):
        """(fill nodes, shift nodes) of g for the vector recognised by is_v"""
        fills, shifts = [], []
        for x in g.all_nodes():
            if x["k"] == "BinaryOperator" and x.get("op") == "=":
                l_ = strip(kids(x)[0])
                if is_call(l_) and l_["callee"]["name"] == "operator[]" and "obj" in l_ and is_v(g.obj(l_)):
                    fills.append(x)
            elif is_call(x) and x["callee"]["name"] == "operator-=":
                tgt, arg = (g.obj(x), g.args(x)[0]) if "obj" in x and g.args(x) else ((g.args(x)[0], g.args(x)[1]) if len(g.args(x)) == 2 else (None, None))
                if tgt is not None and is_v(tgt) and ((vname + "[") in render(arg) or ("max(" + vname) in render(arg)):
                    shifts.append(x)
            elif is_call(x) and "obj" in x and is_v(g.obj(x)) and x["callee"]["name"] in ("operator=", "assign", "push_back"):
                fills.append(x)
            elif is_call(x) and depth < 2 and x["callee"].get("inrepo") and x["callee"]["name"] != "sumExp":
                pt = x["callee"].get("ptypes") or []
                for k_, a_ in enumerate(g.args(x)):
                    if is_v(a_) and k_ < len(pt) and pt[k_].endswith("&") and not pt[k_].startswith("const "):
                        for t in fb.targets(x, static_type_only=True):
                            if t.body is None or k_ >= len(t.params):
                                continue
                            pid, pname = t.params[k_].get("id"), t.params[k_]["name"]
                            tf, ts = classify(t, lambda y, pname=pname: strip(y) is not None and strip(y)["k"] == "DeclRefExpr" and strip(y)["decl"]["name"] == pname, pname, depth + 1)
                            if tf:
                                tsb = {t.cfg.stmt_block(z) for z in ts} - {None}
                                ends_shifted = bool(ts) and all(e1.must_pass(t.cfg, tsb, start=t.cfg.stmt_block(z))[0] or t.cfg.stmt_block(z) in tsb for z in tf)
                                # (a fill and a shift in one block: the shift has to come later)
                                if ends_shifted:
                                    shifts.append(x)
                                else:
                                    fills.append(x)
                            elif ts:
                                shifts.append(x)
        return fills, shifts
    for f in fb.concrete_fns():
        if f.body is None or not f.relfile.endswith("Hmm/LogsumHmmLikelihood.cpp"):
            continue
        cfg = f.cfg
        calls = [c for c in f.calls() if c["callee"]["name"] == "sumExp" and f.args(c) and strip(f.args(c)[0])["k"] == "DeclRefExpr"]
        byvar = {}
        for c in calls:
            d_ = strip(f.args(c)[0])["decl"]
            if any(p_["name"] == d_["name"] for p_ in f.params):
                continue
            byvar.setdefault(d_["id"], []).append(c)
        for vid, cs in sorted(byvar.items()):
            vname = strip(f.args(cs[0])[0])["decl"]["name"]

            def is_v(x):
                x = strip(x)
                return x is not None and x["k"] == "DeclRefExpr" and x["decl"]["id"] == vid
            fills, shifts = classify(f, is_v, vname)
            if not fills and not shifts:
                continue
            sblocks = {cfg.stmt_block(x) for x in shifts} - {None}
            for c in cs:
                n += 1
                cb = cfg.stmt_block(c)
                con = "shifted-before-exp:%s@%s" % (vname, c.get("l"))
                bad = None
                for fl in fills:
                    fbk = cfg.stmt_block(fl)
                    if fbk is None or cb is None:
                        continue
                    if fbk == cb:
                        inb = [x for x in shifts if cfg.stmt_block(x) == cb and e1.earlier_in_block(cfg, fl, x) and e1.earlier_in_block(cfg, x, c)]
                        if e1.earlier_in_block(cfg, fl, c) and not inb:
                            bad = fl
                        continue
                    if cb in sblocks and any(cfg.stmt_block(x) == cb and e1.earlier_in_block(cfg, x, c) for x in shifts):
                        continue
                    if e1.path_exists(cfg, fbk, cb, avoid_blocks=sblocks - {fbk}):
                        bad = fl
                if bad is not None:
                    chk.refuted("D9", f.key, con, f.loc(c),
                                "'%s' is filled with log-likelihoods at line %s and reaches VectorTools::sumExp(%s, ...) at line %s along a path without the shift by its maximum: for a log-likelihood below about -745 every exp() underflows to 0 and the quotient of the two sums is 0/0 (NaN)" % (
                                    vname, bad.get("l"), vname, c.get("l")),
                                witness={"input": "a sequence long enough (or emissions small enough) for the total log-likelihood to fall below -745; query the derivative"})
                else:
                    chk.proved("D9", f.key, con, f.loc(c), "every path from a fill of '%s' to this sumExp passes '%s -= max'" % (vname, vname))
    chk.floor("D9", "sumExp calls on a local log-domain vector", n, 6)


def _d10(chk, fb):
    """positional tables keep their order: the per-segment tables of the likelihood classes (partialLogLikelihoods_ and its
    derivative siblings) are read by segment position by the posterior / per-site queries, so a permuting algorithm (sort,
    reverse, partition, shuffle ...) may only run on a copy.  A call whose range is the member itself, or a reference local bound
    to it, is refuted when another member function indexes that member; a call on a value copy is proved"""
    PERM = ("sort", "stable_sort", "reverse", "partition", "stable_partition", "rotate", "random_shuffle", "shuffle", "nth_element", "partial_sort", "unique")
    n = 0
    fns = [f for f in fb.concrete_fns() if f.body is not None and "/Numeric/Hmm/" in f.relfile and f.cls]
    indexed = {}
    for g in fns:
        for x in g.calls():
            if x["callee"]["name"] in ("operator[]", "at", "begin", "cbegin", "front", "back") and "obj" in x:
                o = strip(g.obj(x))
                if o is not None and o["k"] == "MemberExpr" and o["member"].get("this"):
                    indexed.setdefault(o["member"]["qname"], set()).add(g.key)
    for f in fns:
        decls = {}
        for x in f.all_nodes():
            if x["k"] == "DeclStmt":
                for d in x["decls"]:
                    decls[d["id"]] = d
        for c in f.calls():
            if c["callee"]["name"] not in PERM or not (c["callee"].get("qname") or "").startswith("std::") or not f.args(c):
                continue
            a0 = strip(f.args(c)[0])
            if not (is_call(a0) and a0["callee"]["name"] in ("begin", "rbegin") and "obj" in a0):
                continue
            o = strip(f.obj(a0))
            hops = 0
            while o is not None and o["k"] == "DeclRefExpr" and o["decl"]["id"] in decls and (decls[o["decl"]["id"]].get("ty") or "").endswith("&") and decls[o["decl"]["id"]].get("init") is not None and hops < 3:
                o = strip(decls[o["decl"]["id"]]["init"])
                hops += 1
            n += 1
            con = "permutes:" + render(f.args(c)[0])[:40]
            if o is not None and o["k"] == "MemberExpr" and o["member"].get("this"):
                q = o["member"]["qname"]
                others = sorted(indexed.get(q, set()) - {f.key})
                if others:
                    chk.refuted("D10", f.key, con, f.loc(c),
                                "std::%s reorders the member '%s' itself%s, which %s read(s) by position: after this call the entry of a segment is no longer at the segment's index" % (
                                    c["callee"]["name"], o["member"]["name"], " (through a reference local)" if hops else "", others[0].split("(")[0]),
                                witness={"history": "two or more break points with different segment likelihoods; compute, then query the posterior / per-site likelihoods"})
                else:
                    chk.unknown("D10", f.key, con, f.loc(c), "std::%s on member '%s', which no other member function reads by position" % (c["callee"]["name"], o["member"]["name"]))
            elif o is not None and o["k"] == "DeclRefExpr" and o["decl"]["id"] in decls and not (decls[o["decl"]["id"]].get("ty") or "").endswith(("&", "*")):
                chk.proved("D10", f.key, con, f.loc(c), "std::%s runs on the local copy '%s'" % (c["callee"]["name"], o["decl"]["name"]))
            else:
                chk.unknown("D10", f.key, con, f.loc(c), "range of std::%s not resolved to a member or a local copy" % c["callee"]["name"])
    chk.floor("D10", "permuting algorithm calls in the HMM units", n, 2)


def _member_writes(f):
    """members of this written by f: name -> list of (node, how) with how in '=', '+=', 'clear', 'resize', 'push_back', ..."""
    out = {}
    for x in f.all_nodes():
        if x["k"] in ("BinaryOperator", "CompoundAssignOperator") and x.get("op", "").endswith("=") and x["op"] not in ("==", "!=", "<=", ">="):
            l = strip(kids(x)[0])
            while l is not None and is_call(l) and l["callee"]["name"] in ("operator[]", "at") and "obj" in l:
                l = strip(f.obj(l))
            if l is not None and l["k"] == "MemberExpr" and l["member"].get("this"):
                out.setdefault(l["member"]["name"], []).append((x, x["op"]))
        elif is_call(x) and "obj" in x and not x["callee"].get("const") and x["callee"]["name"] in ("clear", "resize", "push_back", "emplace_back", "assign", "erase", "pop_back"):
            o = strip(f.obj(x))
            while o is not None and is_call(o) and o["callee"]["name"] in ("operator[]", "at") and "obj" in o:
                o = strip(f.obj(o))
            if o is not None and o["k"] == "MemberExpr" and o["member"].get("this"):
                out.setdefault(o["member"]["name"], []).append((x, x["callee"]["name"]))
    return out


def _d11(chk, fb):
    """the two derivative passes own their results: getFirstOrderDerivative / getSecondOrderDerivative memoise on the variable name
    and call computeDForward_ / computeD2Forward_ only when the name changes, so what one pass has produced must survive the
    other.  (a) no member is written by both passes of one class; (b) a member accumulated with '+=' inside a loop of a pass is
    assigned (reset) in that pass on every path before the loop - otherwise the next query adds to the previous answer.
    Both are instances of 'answers depend only on the current parameter values, never on the order of earlier queries'"""
    n = 0
    for cls in sorted(set(fb.subclasses("bpp::AbstractHmmLikelihood")) | {"bpp::AbstractHmmLikelihood"}):
        d1 = [f for f in fb.q(cls + "::computeDForward_") if f.body is not None]
        d2 = [f for f in fb.q(cls + "::computeD2Forward_") if f.body is not None]
        passes = [(f, "first") for f in d1] + [(f, "second") for f in d2] + [(f, "forward") for f in fb.q(cls + "::computeForward_") if f.body is not None]
        if d1 and d2:
            w1, w2 = _member_writes(d1[0]), _member_writes(d2[0])
            for m in sorted(set(w1) | set(w2)):
                n += 1
                con = "pass-owns:" + m
                if m in w1 and m in w2:
                    node, how = w2[m][0]
                    chk.refuted("D11", d2[0].key, con, d2[0].loc(node),
                                "computeD2Forward_ writes '%s' (%s), a result of computeDForward_: the first-derivative answers are memoised on the variable name and are not recomputed after a second-derivative query, so they are served from the overwritten member" % (m, render(node)[:50]),
                                witness={"history": "getFirstOrderDerivative(v); getSecondOrderDerivative(v); getFirstOrderDerivative(v) - the third answer differs from the first"})
                else:
                    own = d1[0] if m in w1 else d2[0]
                    chk.proved("D11", own.key, con, own.loc(), "written by the %s-derivative pass only" % ("first" if m in w1 else "second"))
        # (c) a second-derivative pass that reads what the first-derivative pass produced first makes it current for its own
        # variable (the two memo keys are independent: the first-order state may belong to another variable, or to none)
        if d1 and d2:
            f2 = d2[0]
            reads = [x for x in f2.all_nodes() if x["k"] == "MemberExpr" and x["member"].get("this") and x["member"]["name"] in w1 and x["member"]["name"] not in w2]
            if reads:
                n += 1
                ens = [c for c in f2.calls() if c["callee"]["name"] in ("getFirstOrderDerivative", "computeDLikelihood_", "computeDForward_") and ("obj" not in c or strip(f2.obj(c))["k"] == "CXXThisExpr")]
                ens_ok = [c for c in ens if c["callee"]["name"] != "getFirstOrderDerivative" or (f2.args(c) and render(f2.args(c)[0]).replace("this.", "") == "d2Variable_")]
                cfg2 = f2.cfg
                first = min(reads, key=lambda x: (x.get("l") or 0, x.get("c") or 0))
                dom = [c for c in ens_ok if all(cfg2.stmt_block(c) is not None and cfg2.stmt_block(r) is not None and (cfg2.dominates(cfg2.stmt_block(c), cfg2.stmt_block(r))) for r in reads)]
                con = "first-order-state-current"
                if dom:
                    chk.proved("D11", f2.key, con, f2.loc(dom[0]), "'%s' dominates every read of %s" % (render(dom[0])[:50], sorted({r["member"]["name"] for r in reads})))
                elif ens:
                    chk.unknown("D11", f2.key, con, f2.loc(ens[0]), "a first-derivative pass is called, but not recognisably for d2Variable_ in front of every read")
                else:
                    chk.refuted("D11", f2.key, con, f2.loc(first),
                                "computeD2Forward_ reads %s, which only computeDForward_ writes, without first bringing them up to date for its own variable (no call of getFirstOrderDerivative(d2Variable_)): the second derivative is computed from the first-order state of whatever variable was asked last - or from empty tables" % sorted({r["member"]["name"] for r in reads}),
                                witness={"history": "getSecondOrderDerivative(v) on a fresh object (empty tables), or getFirstOrderDerivative(u); getSecondOrderDerivative(v) with u != v"})
        for f, kind in passes:
            cfg = f.cfg
            w = _member_writes(f)
            for m, lst in sorted(w.items()):
                acc = [x for x, how in lst if how == "+=" and strip(kids(x)[0])["k"] == "MemberExpr" and f.enclosing(x, ("ForStmt", "WhileStmt", "CXXForRangeStmt")) is not None]
                if not acc:
                    continue
                n += 1
                con = "accumulator-reset:" + m
                resets = [x for x, how in lst if how == "=" and strip(kids(x)[0])["k"] == "MemberExpr"]
                ab = cfg.stmt_block(acc[0])
                ok = any(cfg.stmt_block(r) is not None and ab is not None and cfg.dominates(cfg.stmt_block(r), ab) and cfg.stmt_block(r) != ab for r in resets)
                if ok:
                    chk.proved("D11", f.key, con, f.loc(acc[0]), "'%s' is assigned before the loop that accumulates into it" % m)
                else:
                    chk.refuted("D11", f.key, con, f.loc(acc[0]),
                                "%s accumulates into the member '%s' ('%s') without assigning it first: every call of this pass adds to what the previous call left, so the answer depends on how many queries were made before" % (f.name, m, render(acc[0])[:50]),
                                witness={"history": "two second-derivative queries for different variables: the second answer contains the first"})
    chk.floor("D11", "members written by the derivative passes", n, 10)


def _d12(chk, fb):
    """fireParameterChanged is not the only way to invalidate the forward tables: any other method of a likelihood class that
    re-runs the forward pass (setBreakPoints) changes what the derivatives are, so it owes the same memo-key resets (D1)"""
    keys = _memo_keys(fb)
    subs = [c for c in fb.subclasses(AH) if not fb.classes[c].get("abstract")]
    n = 0
    for cls in sorted(subs):
        for f in fb.concrete_fns():
            if f.cls != cls or f.body is None or f.name in ("fireParameterChanged", cls.split("::")[-1]) or f.name.startswith(("compute", "~", "operator")):
                continue
            recompute = [c for c in f.calls() if c["callee"]["name"] in ("computeForward_", "computeLikelihood") and ("obj" not in c or strip(f.obj(c))["k"] == "CXXThisExpr")]
            if not recompute:
                continue
            n += 1
            cfg = f.cfg
            for key, (getter, comp) in sorted(keys.items()):
                kern = [t for t in [fb.fns.get(k) for k in [comp["key"]] + list(fb.overriders(comp["key"]))] if t is not None and t.cls == cls]
                if kern and _always_throws(fb, kern[0]):
                    chk.proved("D12", f.key, "memo-key-reset:" + key, f.loc(), "exempt: %s always throws (derivative not offered by this class)" % kern[0].qname)
                    continue
                resets = _reset_nodes(fb, f, key)
                if resets and _covers(cfg, f, recompute, resets):
                    chk.proved("D12", f.key, "memo-key-reset:" + key, f.loc(resets[0]), "%s reset on every path that re-runs the forward pass" % key)
                else:
                    chk.refuted("D12", f.key, "memo-key-reset:" + key, f.loc(recompute[0]),
                                "%s re-runs the forward pass but leaves the memo key '%s' of %s in place: a derivative requested again for the same variable is served from the tables computed before the call" % (f.name, key, getter.qname),
                                witness={"history": "getFirstOrderDerivative(v); %s(...); getFirstOrderDerivative(v)  -> the second answer equals the first although the likelihood changed" % f.name})
    chk.floor("D12", "methods other than fireParameterChanged that re-run the forward pass", n, 3)


def _outer_kind(f, x):
    p = f.parent.get(x["id"])
    while p is not None and p["k"] in ("ImplicitCastExpr", "ParenExpr", "ExprWithCleanups", "MaterializeTemporaryExpr"):
        p = f.parent.get(p["id"])
    return p["k"] if p is not None else None


def _d13(chk, fb):
    """the stationary vector a built-in transition model serves depends on its parameters: the member getEquilibriumFrequencies()
    returns must be stored by some member function that can run after an update, not by the constructors alone"""
    TM = "bpp::AbstractHmmTransitionMatrix"
    n = 0
    for cls in sorted(fb.subclasses(TM)):
        if fb.classes[cls].get("abstract"):
            continue
        gs = fb.q(cls + "::getEquilibriumFrequencies")
        if len(gs) != 1 or gs[0].body is None:
            chk.fail_broken("anchor vanished: %s::getEquilibriumFrequencies" % cls)
            continue
        g = gs[0]
        rets = [strip(kids(r)[0]) for r in g.all_nodes() if r["k"] == "ReturnStmt" and kids(r)]
        served = {render(r).replace("this.", "") for r in rets if r is not None and r["k"] == "MemberExpr"}
        if len(served) != 1:
            chk.unknown("D13", g.key, "stationary-vector-recomputed", g.loc(), "the getter does not return one member")
            continue
        m = list(served)[0]
        n += 1
        short = cls.split("::")[-1]
        later, ctor = [], []
        for f in fb.concrete_fns():
            if f.cls != cls or f.body is None:
                continue
            for w in f.all_nodes():
                if w["k"] in ("BinaryOperator", "CompoundAssignOperator") and w.get("op", "").endswith("=") and w["op"] not in ("==", "!=", "<=", ">="):
                    l_ = render(kids(w)[0]).replace("this.", "")
                    if l_ == m or l_.startswith(m + "["):
                        (ctor if f.name == short else later).append((f, w))
                elif is_call(w) and w["callee"]["name"] in ("operator=", "assign", "swap") and "obj" in w and render(f.obj(w)).replace("this.", "") == m and f.name != "operator=":
                    (ctor if f.name == short else later).append((f, w))
        if later:
            chk.proved("D13", g.key, "stationary-vector-recomputed:" + m, later[0][0].loc(later[0][1]), "'%s' is stored by %s, which runs after updates" % (m, later[0][0].name))
        elif ctor and any(x["k"] == "MemberExpr" and x["member"]["name"] == m and _outer_kind(f2, x) != "ReturnStmt"
                          for f2 in fb.concrete_fns() if f2.cls == cls and f2.body is not None and f2.name != short for x in f2.all_nodes()):
            chk.unknown("D13", g.key, "stationary-vector-recomputed:" + m, g.loc(), "'%s' is used outside the constructor in a form that is not read as a store: not decided" % m)
        elif ctor:
            chk.refuted("D13", g.key, "stationary-vector-recomputed:" + m, g.loc(),
                        "getEquilibriumFrequencies serves '%s', which only the constructor of %s stores (%s): after any parameter update the vector is not the stationary distribution of the current matrix"
                        % (m, short, ctor[0][0].loc(ctor[0][1])), witness={"history": "construct with 3 states; set lambda1 = 0.5, lambda2 = 0.9; compare eq.P with eq"})
        else:
            chk.unknown("D13", g.key, "stationary-vector-recomputed:" + m, g.loc(), "no store of '%s' found in %s" % (m, short))
    chk.floor("D13", "built-in transition models serving a stationary vector", n, 2)


def run(chk, fb, tier):
    chk.rule("D1", "every fireParameterChanged below AbstractHmmLikelihood resets the derivative memo keys and clears the backward lazy flags on every path that recomputes the forward pass")
    chk.rule("D2", "a method setting upToDate_ = true has written every member that some getter returns under 'if (!upToDate_)'; fireParameterChanged clears the flag unconditionally")
    chk.rule("D3", "the three fireParameterChanged siblings perform the same guarded component updates and recompute afterwards")
    chk.rule("D5", "user-provided copy constructor and operator= copy the same members")
    chk.rule("D6", "NumTools::logsum, on which the log-space forward/backward recursions rest, takes exp() only of (smaller - larger) and tests equal infinities first")
    _d1(chk, fb)
    _d2(chk, fb)
    _d3(chk, fb)
    _d5(chk, fb)
    _d6(chk, fb)
    chk.rule("D7", "no call in the HMM units hands a helper that updates a vector element by element (by non-const reference) an element of that same vector as the const-reference scalar it keeps reading")
    _d7(chk, fb)
    chk.rule("D8", "Pij(i, j) and the entry getPij() stores at (i, j) are the same expression in every built-in transition model")
    _d8(chk, fb)
    chk.rule("D9", "a local vector of log-likelihoods handed to VectorTools::sumExp as exponents is reduced by its maximum on every path from its last fill to the call")
    _d9(chk, fb)
    chk.rule("D10", "permuting std algorithms in the HMM likelihood classes run on value copies, never on a member table (directly or through a reference local) that other members read by position")
    _d10(chk, fb)
    chk.rule("D11", "the first- and second-derivative passes of a likelihood class write disjoint members, and a member accumulated with += in a loop of a pass is assigned in that pass before the loop")
    _d11(chk, fb)
    chk.rule("D12", "every method other than fireParameterChanged that re-runs the forward pass on this object (setBreakPoints) resets the derivative memo keys on every such path")
    _d12(chk, fb)
    chk.rule("D13", "the member getEquilibriumFrequencies() serves is stored by a member function that runs after parameter updates (not by the constructor alone) in every built-in transition model")
    _d13(chk, fb)
    from . import argswap as _argswap
    chk.rule("DA", "argument/parameter name agreement at forwarding calls in the anchored units (same-typed parameters must not be swapped)")
    _af = ('src/Bpp/Numeric/Hmm/HmmLikelihood.h', 'src/Bpp/Numeric/Hmm/HmmLikelihood.cpp', 'src/Bpp/Numeric/Hmm/RescaledHmmLikelihood.cpp', 'src/Bpp/Numeric/Hmm/LowMemoryRescaledHmmLikelihood.cpp', 'src/Bpp/Numeric/Hmm/LogsumHmmLikelihood.cpp', 'src/Bpp/Numeric/Hmm/AbstractHmmTransitionMatrix.cpp', 'src/Bpp/Numeric/Hmm/FullHmmTransitionMatrix.cpp', 'src/Bpp/Numeric/Hmm/AutoCorrelationTransitionMatrix.cpp', 'src/Bpp/Numeric/NumTools.h')
    _argswap.check(chk, fb, "DA", [f_ for f_ in fb.concrete_fns() if f_.body is not None and any(f_.relfile.endswith(x_) for x_ in _af)], 1)
    chk.assume("memo keys are compared with variable names; the empty string is never a variable name")
