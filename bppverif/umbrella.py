"""Generates the umbrella translation unit: includes headers under src/Bpp and forces template
instantiation so that rules can run on resolved (non-dependent) bodies."""
import os, re, json, subprocess
from .facts import run_bppx, AnalysisBroken, REPO


def all_headers(src):
    out = []
    for root, _, files in os.walk(os.path.join(src, "Bpp")):
        for f in files:
            if f.endswith(".h"):
                out.append(os.path.relpath(os.path.join(root, f), src))
    return sorted(out)


def includes(headers):
    return "".join('#include "%s"\n' % h for h in headers)


# type table for explicit instantiation of function templates by textual substitution
MATRIX = "bpp::RowMatrix<double>"
TABLE_DEFAULT = {
    "Matrix": MATRIX, "MatrixA": MATRIX, "MatrixB": MATRIX, "MatrixO": MATRIX, "MatrixI": MATRIX,
    "Scalar": "double", "Real": "double", "T": "double", "InputType": "double", "OutputType": "double",
    "ResultType": "double", "Type": "double", "V": "double", "U": "double",
}


def list_templates(fb_scratch, src, headers):
    """ask bppx for every function template defined in the given headers"""
    up = os.path.join(fb_scratch, "listtpl.cpp")
    open(up, "w").write(includes(headers))
    out = up + ".json"
    rc, err = run_bppx(up, out, src, main_only=False, list_templates=True)
    if rc != 0:
        raise AnalysisBroken("template listing failed: " + err[-2000:])
    d = json.load(open(out))
    os.unlink(out)
    if d.get("errors"):
        raise AnalysisBroken("template listing: parse errors: " + err[-2000:])
    hs = {os.path.join(src, h) for h in headers}
    return [t for t in d["templates"] if t["file"] in hs]


def subst(text, table):
    for k, v in table.items():
        text = re.sub(r"\b%s\b" % re.escape(k), v, text)
    return text


def instantiate_function_templates(templates, cls, table, skip=()):
    """explicit instantiation definitions for the static function templates of class `cls`"""
    lines = []
    done = []
    for t in templates:
        if t.get("cls") != cls or not t["tparams"] or t.get("cls_is_template"):
            continue
        if cls is None and not t["qname"].startswith("bpp::"):
            continue
        name = t["qname"].split("::")[-1]
        if name in skip:
            continue
        tb = {k: v for k, v in table.items() if k in t["tparams"]}
        ret = subst(t["ret"], tb)
        ps = ", ".join(subst(p, tb) for p in t["ptypes"])
        targs = ", ".join(table.get(p, "double") for p in t["tparams"])
        lines.append("template %s %s<%s>(%s)%s;" % (ret, t["qname"], targs, ps, " const" if t.get("const") else ""))
        done.append(t["key"])
    return "\n".join(lines) + "\n", done


def instantiate_class_members(templates, cls, alias, table, skip=()):
    """explicit instantiation of every member function of class template `cls` (qualified name without
    arguments) one by one, for classes where `template class X<...>;` fails because a few members do
    not compile. `alias` names the instantiated type; `table` substitutes template parameter names
    and dependent typedef names textually; `skip` lists (name, substring of the parameter list) to omit."""
    lines, done, skipped = [], [], []
    short = cls.split("::")[-1]
    for t in templates:
        if t.get("cls") != cls:
            continue
        name = t["qname"].split("::")[-1]
        ps = ", ".join(t["ptypes"])
        if any(name == s[0] and s[1] in ps for s in skip):
            skipped.append("%s(%s)" % (name, ps))
            continue
        if t["tparams"]:
            skipped.append("%s(%s) [member template]" % (name, ps))
            continue
        def sub(x):
            x = x.replace("typename ", "").replace(cls + "::", "")
            x = re.sub(r"(bpp::)?%s<[^<>]*>" % re.escape(short), alias, x)
            return subst(x, table)
        psub = ", ".join(sub(p) for p in t["ptypes"])
        cq = " const" if t.get("const") else ""
        if t["ctor"]:
            lines.append("template %s::%s(%s);" % (alias, short, psub))
        elif t["dtor"]:
            lines.append("template %s::~%s();" % (alias, short))
        else:
            lines.append("template %s %s::%s(%s)%s;" % (sub(t["ret"]), alias, name, psub, cq))
        done.append("%s(%s)" % (name, ps))
    return "\n".join(lines) + "\n", done, skipped
