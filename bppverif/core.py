"""Check driver: three-valued site results, floors, known findings, evidence, exit codes."""
import json, os, sys, time
from .facts import VERIF, AnalysisBroken

PROVED, REFUTED, UNKNOWN = "PROVED", "REFUTED", "UNKNOWN"


class Check:
    def __init__(self, pid, tier, explanation):
        self.pid = pid
        self.tier = tier
        self.t0 = time.time()
        self.sites = []          # dicts
        self.broken = []         # analysis-broken messages
        self.explanation = explanation
        self.assumptions = []
        self.rules = {}          # rule id -> text
        self.notes = []
        self.units = []
        self.n_functions = 0
        self.extra = {}
        kf = json.load(open(os.path.join(VERIF, "known_findings.json")))
        self.known = [k for k in kf.get("findings", []) if k["property"] == pid]
        self.known_hit = set()

    def rule(self, rid, text):
        self.rules[rid] = text

    def assume(self, text):
        if text not in self.assumptions:
            self.assumptions.append(text)

    def note(self, text):
        self.notes.append(text)

    def site(self, rule, function, construct, verdict, loc, detail="", witness=None):
        """one rule instance. `construct` is a line-number-free descriptor used for matching
        known findings; `loc` is file:line for the reader."""
        self.sites.append(dict(rule=rule, function=function, construct=construct, verdict=verdict,
                               loc=loc, detail=detail, witness=witness))

    def proved(self, rule, function, construct, loc, detail=""):
        self.site(rule, function, construct, PROVED, loc, detail)

    def refuted(self, rule, function, construct, loc, detail="", witness=None):
        self.site(rule, function, construct, REFUTED, loc, detail, witness)

    def unknown(self, rule, function, construct, loc, detail=""):
        self.site(rule, function, construct, UNKNOWN, loc, detail)

    def floor(self, rule, what, count, minimum):
        """a rule matching fewer instances than confirmed by hand is analysis-broken, not a pass"""
        # the confirmed count is what today's tree has; a behaviour-preserving refactoring may merge or split a few instances,
        # so the alarm threshold is half of it (never below one: a rule matching nothing must not pass vacuously)
        confirmed = minimum
        minimum = max(1, (minimum + 1) // 2)
        if count < minimum:
            self.broken.append("rule %s: %s matched %d instance(s), confirmed floor is %d" % (rule, what, count, minimum))

    def fail_broken(self, msg):
        self.broken.append(msg)

    @staticmethod
    def _norm_construct(c):
        """construct descriptor without the spelling of index expressions: 'v((j - 1)):size' and 'v(col):size' name the same
        finding (container and dimension); a renamed local must not turn a recorded finding into a new alarm"""
        import re
        m = re.match(r"^([\w\.\*\[\]]+)\(.*\):(\w+)$", c)
        return "%s:%s" % (m.group(1), m.group(2)) if m else c

    def _is_known(self, s):
        for i, k in enumerate(self.known):
            if k["rule"] == s["rule"] and k["function"] == s["function"] and (k["construct"] == s["construct"] or
                                                                             self._norm_construct(k["construct"]) == self._norm_construct(s["construct"])):
                self.known_hit.add(i)
                return k
        return None

    def finish(self):
        wall = time.time() - self.t0
        refuted = [s for s in self.sites if s["verdict"] == REFUTED]
        new, known = [], []
        for s in refuted:
            k = self._is_known(s)
            (known if k else new).append((s, k))
        n_proved = sum(1 for s in self.sites if s["verdict"] == PROVED)
        n_unknown = sum(1 for s in self.sites if s["verdict"] == UNKNOWN)
        distinct = len({(s["rule"], s["function"], s["construct"]) for s in self.sites})
        per_rule = {}
        for s in self.sites:
            r = per_rule.setdefault(s["rule"], {PROVED: 0, REFUTED: 0, UNKNOWN: 0})
            r[s["verdict"]] += 1
        samples = []
        seen_rules = {}
        for s in self.sites:
            if seen_rules.get(s["rule"], 0) < 3:
                seen_rules[s["rule"]] = seen_rules.get(s["rule"], 0) + 1
                samples.append({k: v for k, v in s.items() if v not in (None, "")})
        ev = {
            "property_id": self.pid,
            "tier": self.tier,
            "seed": int(os.environ.get("VERIF_SEED", "0") or 0),
            "level": "other",
            "coverage": {
                "explanation": self.explanation,
                "rule": "; ".join("%s: %s" % kv for kv in sorted(self.rules.items())),
                "evaluations": len(self.sites),
                "distinct_nontrivial": distinct,
                "obligations": len(self.sites),
                "discharged": n_proved,
                "refuted": len(refuted),
                "unknown": n_unknown,
                "known_findings_matched": len(known),
                "per_rule": per_rule,
                "units_parsed": self.units,
                "functions_analysed": self.n_functions,
                "samples": samples,
                "unknown_sites": [dict(rule=s["rule"], function=s["function"], construct=s["construct"], loc=s["loc"], detail=s["detail"]) for s in self.sites if s["verdict"] == UNKNOWN][:60],
                "notes": self.notes,
                "exhaustive": False,
                "trusted_base": ["clang 14 parser/overload resolution/CFG builder", "bppx export of them", "rule modules' oracles and idiom tables"],
                "checker_cmd": "./check %s --tier %s" % (self.pid, self.tier),
            },
            "assumptions": self.assumptions,
            "wall_s": round(wall, 3),
            "violations": len(new),
        }
        ev["coverage"].update(self.extra)
        EVD = os.environ.get("BPPVERIF_EVIDENCE", os.path.join(VERIF, "evidence"))
        os.makedirs(EVD, exist_ok=True)
        if self.broken:
            ev["coverage"]["analysis_broken"] = self.broken
        rd0 = os.path.join(EVD, "replay")
        if os.path.isdir(rd0):
            for fn in os.listdir(rd0):
                if fn.startswith(self.pid + "-"):
                    os.remove(os.path.join(rd0, fn))
        with open(os.path.join(EVD, self.pid + ".json"), "w") as f:
            json.dump(ev, f, indent=1)
        print("%s [%s]: %d sites: %d proved, %d refuted (%d known), %d unknown; %d units, %d functions; %.1fs" % (
            self.pid, self.tier, len(self.sites), n_proved, len(refuted), len(known), n_unknown, len(self.units), self.n_functions, wall))
        for r, c in sorted(per_rule.items()):
            print("  rule %-8s proved=%d refuted=%d unknown=%d" % (r, c[PROVED], c[REFUTED], c[UNKNOWN]))
        for s, k in known:
            print("KNOWN-FINDING: property=%s %s %s [%s] %s: %s" % (self.pid, s["rule"], s["function"], s["construct"], s["loc"], k.get("what", s["detail"])))
        if self.broken:
            for b in self.broken:
                print("ANALYSIS-BROKEN: property=%s %s" % (self.pid, b))
            if not new:
                return 2
            # a definite refutation is reported even when another rule could not be evaluated
        if new:
            rd = os.path.join(EVD, "replay")
            os.makedirs(rd, exist_ok=True)
            for i, (s, _) in enumerate(new):
                path = os.path.join(rd, "%s-%d.json" % (self.pid, i))
                with open(path, "w") as f:
                    json.dump(dict(property=self.pid, **s, rule_text=self.rules.get(s["rule"], "")), f, indent=1)
                print("  %s %s %s [%s]: %s%s" % (s["rule"], s["loc"], s["function"], s["construct"], s["detail"],
                                                (" witness: %s" % json.dumps(s["witness"])) if s["witness"] else ""))
                print("VIOLATION property=%s replay=%s" % (self.pid, path))
            return 1
        return 0
