"""Fact base: runs the bppx extractor on /repo's current working tree and indexes the result.

Nothing is cached between runs: every check re-extracts from the sources it needs into a
scratch directory that is removed before exit.
"""
import json, os, re, shutil, subprocess, sys, tempfile, atexit
from concurrent.futures import ThreadPoolExecutor

VERIF = os.path.dirname(os.path.dirname(os.path.abspath(__file__)))
REPO = os.environ.get("BPPVERIF_REPO", "/repo")
BPPX = os.path.join(VERIF, "build", "bppx")
STD = "-std=c++14"


class AnalysisBroken(Exception):
    """anchor vanished / source does not parse / engine met something it cannot interpret"""


def _scratch():
    d = tempfile.mkdtemp(prefix="bppverif-")
    atexit.register(lambda: shutil.rmtree(d, ignore_errors=True))
    return d


def ensure_tool():
    if not os.path.exists(BPPX) or os.path.getmtime(BPPX) < os.path.getmtime(os.path.join(VERIF, "tool", "bppx.cc")):
        r = subprocess.run(["make", "-C", os.path.join(VERIF, "tool")], capture_output=True, text=True)
        if r.returncode != 0:
            raise AnalysisBroken("cannot build bppx: " + r.stderr[-2000:])


def library_units(src=None):
    """the units of CPP_FILES in src/CMakeLists.txt, cross-checked with the file system"""
    src = src or os.path.join(REPO, "src")
    txt = open(os.path.join(src, "CMakeLists.txt")).read()
    m = re.search(r"set\s*\(CPP_FILES(.*?)\)", txt, re.S)
    listed = [l.strip() for l in m.group(1).split() if l.strip().endswith(".cpp")]
    found = []
    for root, _, files in os.walk(src):
        for f in files:
            if f.endswith(".cpp"):
                found.append(os.path.relpath(os.path.join(root, f), src))
    return sorted(listed), sorted(set(found) - set(listed)), sorted(set(listed) - set(found))


def run_bppx(path, out, src, main_only=True, list_templates=False, extra_flags=()):
    cmd = [BPPX, "--root=" + src, "--out=" + out]
    if main_only:
        cmd.append("--main-only")
    if list_templates:
        cmd.append("--list-templates")
    cmd += [path, "--", STD, "-I" + src, "-UNDEBUG", "-Wno-everything"] + list(extra_flags)
    r = subprocess.run(cmd, capture_output=True, text=True)
    return r.returncode, r.stderr


# ---------------------------------------------------------------------------------------------
# syntax-tree helpers (nodes are the dicts written by bppx)

TRANSPARENT = {"ImplicitCastExpr", "ParenExpr", "MaterializeTemporaryExpr", "CXXBindTemporaryExpr",
               "ExprWithCleanups", "ConstantExpr", "SubstNonTypeTemplateParmExpr", "CXXDefaultArgExpr"}


def kids(n):
    if n is None:
        return []
    if n.get("k") == "DeclStmt":
        return [d["init"] for d in n.get("decls", []) if d.get("init")]
    return [c for c in n.get("kids", []) if c]


def walk(n):
    """pre-order"""
    if n is None:
        return
    stack = [n]
    while stack:
        x = stack.pop()
        yield x
        ks = kids(x)
        for c in reversed(ks):
            stack.append(c)


def strip(n):
    """skip value-preserving wrappers (implicit casts that do not change the value class are kept
    visible through the 'cast' attribute by callers that need them)"""
    while n is not None:
        k = n.get("k")
        if k in TRANSPARENT and kids(n):
            n = kids(n)[0]
            continue
        if k in ("CXXFunctionalCastExpr", "CXXStaticCastExpr", "CStyleCastExpr") and n.get("cast") in ("NoOp", "ConstructorConversion") and kids(n):
            n = kids(n)[0]
            continue
        # elidable copy construction T(x) of the same type
        if k == "CXXConstructExpr" and len(n.get("args", [])) == 1 and kids(n) and _is_copy_ctor(n):
            n = kids(n)[0]
            continue
        break
    return n


def _is_copy_ctor(n):
    c = n["callee"]
    pt = c["ptypes"]
    if len(pt) != 1:
        return False
    t = pt[0].replace("const ", "").rstrip("&").strip()
    if pt[0].endswith("&&") and not n.get("elidable"):
        return False
    return t == n.get("ty", "").replace("const ", "").strip()


def is_call(n):
    return n is not None and "callee" in n


def callee_q(n):
    return n["callee"]["qname"] if is_call(n) else None


def callee_name(n):
    return n["callee"]["name"] if is_call(n) else None


SMARTPTR = re.compile(r"^std::(__shared_ptr|shared_ptr|unique_ptr|__shared_ptr_access|auto_ptr)\b")


def is_smart_deref(n):
    """call of shared_ptr::operator-> / operator* / get()"""
    if not is_call(n):
        return False
    c = n["callee"]
    return bool(SMARTPTR.match(c["qname"])) and c["name"] in ("operator->", "operator*", "get")


def is_smart_bool(n):
    if not is_call(n):
        return False
    c = n["callee"]
    return bool(SMARTPTR.match(c["qname"])) and c["name"] == "operator bool"


class Fn:
    """one function definition with indexed tree and CFG"""

    def __init__(self, rec, unit):
        self.rec = rec
        self.unit = unit
        self.key = rec["key"]
        self.qname = rec["qname"]
        self.name = rec["name"]
        self.cls = rec.get("cls")
        self.file = rec["file"]
        self.line = rec["line"]
        self.body = rec.get("body")
        self.params = rec.get("params", [])
        self.nodes = {}
        self.parent = {}
        roots = []
        for i in rec.get("inits", []):
            if i.get("expr"):
                roots.append(i["expr"])
        if self.body:
            roots.append(self.body)
        for r in roots:
            for n in walk(r):
                self.nodes[n["id"]] = n
                for c in kids(n):
                    self.parent[c["id"]] = n
        self._cfg = None

    def __repr__(self):
        return "<Fn %s>" % self.key

    @property
    def relfile(self):
        return os.path.relpath(self.file, REPO) if self.file.startswith(REPO) else self.file

    def loc(self, n=None):
        return "%s:%d" % (self.relfile, n["l"] if n else self.line)

    def all_nodes(self):
        for i in self.rec.get("inits", []):
            if i.get("expr"):
                yield from walk(i["expr"])
        yield from walk(self.body)

    def calls(self):
        return [n for n in self.all_nodes() if is_call(n)]

    def node(self, i):
        return self.nodes.get(i)

    def ancestors(self, n):
        while n["id"] in self.parent:
            n = self.parent[n["id"]]
            yield n

    def enclosing(self, n, kinds):
        for a in self.ancestors(n):
            if a["k"] in kinds:
                return a
        return None

    def contains(self, outer, inner):
        if outer is inner:
            return True
        for a in self.ancestors(inner):
            if a is outer:
                return True
        return False

    def arg(self, call, i):
        a = call.get("args", [])
        return self.nodes.get(a[i]) if i < len(a) else None

    def args(self, call):
        return [self.nodes.get(i) for i in call.get("args", [])]

    def obj(self, call):
        return self.nodes.get(call["obj"]) if "obj" in call else None

    @property
    def cfg(self):
        if self._cfg is None and self.rec.get("cfg"):
            self._cfg = CFG(self)
        return self._cfg

    def is_public(self):
        return self.rec.get("access", 0) == 0


class CFG:
    def __init__(self, fn):
        self.fn = fn
        c = fn.rec["cfg"]
        self.entry = c["entry"]
        self.exit = c["exit"]
        self.blocks = {b["id"]: b for b in c["blocks"]}
        self.succ = {b: [s for s in self.blocks[b]["succ"] if s is not None] for b in self.blocks}
        # a try-dispatch block's edge to the exit block is the 'no handler matches' exceptional exit: not a normal exit
        self.exc_exit = set()
        for b, blk in self.blocks.items():
            if blk.get("termk") == "CXXTryStmt" and self.exit in self.succ[b]:
                self.succ[b] = [s for s in self.succ[b] if s != self.exit]
                self.exc_exit.add(b)
        # synthetic exception edges: try-body blocks containing a call/throw -> dispatch block
        self.block_of = {}
        for b in self.blocks.values():
            for e in b["el"]:
                if e >= 0:
                    self.block_of.setdefault(e, b["id"])
        self.synthetic = set()
        for b in self.blocks.values():
            if b.get("termk") == "CXXTryStmt":
                tr = fn.nodes.get(b["term"])
                if not tr:
                    continue
                body = kids(tr)[0] if kids(tr) else None
                inner = set()
                for n in walk(body):
                    if is_call(n) or n["k"] in ("CXXThrowExpr", "CXXNewExpr"):
                        blk = self.block_of.get(n["id"])
                        if blk is not None:
                            inner.add(blk)
                for blk in inner:
                    if b["id"] not in self.succ[blk]:
                        self.succ[blk] = self.succ[blk] + [b["id"]]
                        self.synthetic.add((blk, b["id"]))
        self.pred = {b: [] for b in self.blocks}
        for b, ss in self.succ.items():
            for s in ss:
                self.pred[s].append(b)
        self._dom = None
        self._pdom = None

    def stmt_block(self, n):
        """block containing the statement (or its nearest enclosing statement that is a CFG element)"""
        if n["id"] in self.block_of:
            return self.block_of[n["id"]]
        if n["k"] in ("ExprWithCleanups", "ImplicitCastExpr", "ParenExpr", "MaterializeTemporaryExpr", "CXXBindTemporaryExpr", "ConstantExpr"):
            # wrappers are not CFG elements themselves: the wrapped expression is (last evaluated = root of the subtree)
            for c in kids(n):
                b = self.stmt_block(c) if c["id"] in self.block_of or c["k"] in ("ExprWithCleanups", "ImplicitCastExpr", "ParenExpr", "MaterializeTemporaryExpr", "CXXBindTemporaryExpr", "ConstantExpr") else None
                if b is not None:
                    return b
        x = self.fn.parent.get(n["id"])
        while x is not None:
            if x["id"] in self.block_of:
                return self.block_of[x["id"]]
            x = self.fn.parent.get(x["id"])
        return None

    def reachable_from(self, b, avoid=()):
        seen = set()
        st = [b]
        while st:
            x = st.pop()
            if x in seen or x in avoid:
                continue
            seen.add(x)
            st.extend(self.succ[x])
        return seen

    def _dominators(self, entry, succ, pred):
        nodes = [n for n in self.blocks]
        reach = set()
        st = [entry]
        while st:
            x = st.pop()
            if x in reach:
                continue
            reach.add(x)
            st.extend(succ[x])
        dom = {n: set(reach) for n in reach}
        dom[entry] = {entry}
        changed = True
        while changed:
            changed = False
            for n in reach:
                if n == entry:
                    continue
                ps = [p for p in pred[n] if p in reach]
                new = set.intersection(*[dom[p] for p in ps]) if ps else set()
                new = new | {n}
                if new != dom[n]:
                    dom[n] = new
                    changed = True
        return dom

    @property
    def dom(self):
        if self._dom is None:
            self._dom = self._dominators(self.entry, self.succ, self.pred)
        return self._dom

    @property
    def pdom(self):
        if self._pdom is None:
            self._pdom = self._dominators(self.exit, self.pred, self.succ)
        return self._pdom

    def dominates(self, a, b):
        return b in self.dom and a in self.dom[b]

    def is_throw_block(self, b):
        """block ends in a throw (noreturn) - its only successor is exit / dispatch"""
        blk = self.blocks[b]
        for e in blk["el"]:
            n = self.fn.nodes.get(e)
            if n and n["k"] == "CXXThrowExpr":
                return True
        return False

    def order_in_block(self, b):
        return [e for e in self.blocks[b]["el"]]

    def edge_cond(self, a, b):
        """(cond node, sense) if a->b is a two-way branch edge on a condition"""
        blk = self.blocks[a]
        ss = blk["succ"]
        if "termcond" not in blk or len(ss) != 2:
            return None
        if blk.get("termk") in ("CXXTryStmt", "SwitchStmt", "CXXForRangeStmt"):
            return None
        cond = self.fn.nodes.get(blk["termcond"])
        if cond is None:
            return None
        # clang reports the whole 'A && B' as the condition of the block that evaluates B (reached
        # only once A is decided): the branch is on the right-most operand
        # ... but only when this block is entered solely through the 'keep evaluating' edge of that
        # operator; when the short-circuit edge joins here too (operands with temporaries), the branch
        # is on the value of the whole expression
        cur = a
        while True:
            c2 = cond
            while c2["k"] in ("ParenExpr", "ExprWithCleanups") and kids(c2):
                c2 = kids(c2)[0]
            if c2["k"] == "BinaryOperator" and c2["op"] in ("&&", "||"):
                want = 0 if c2["op"] == "&&" else 1
                preds = self.pred.get(cur, [])
                ok = bool(preds)
                for p in preds:
                    pb = self.blocks[p]
                    ps = pb["succ"]
                    if pb.get("term") != c2["id"] or len(ps) != 2 or ps[want] != cur or ps[1 - want] == cur:
                        ok = False
                if ok:
                    cond = kids(c2)[1]
                    continue
            break
        if ss[0] == b and ss[1] != b:
            return (cond, True)
        if ss[1] == b and ss[0] != b:
            return (cond, False)
        return None


# ---------------------------------------------------------------------------------------------

def local_inits(fn):
    """locals defined exactly once (declaration with initialiser, never written afterwards):
    decl id -> initialiser node. Used to compare expressions across statements."""
    inits = {}
    for n in walk(fn.body):
        if n["k"] == "DeclStmt":
            for d in n["decls"]:
                if d.get("init") is not None:
                    inits[d["id"]] = d["init"]
    written = set()
    for n in walk(fn.body):
        k = n["k"]
        tgt = None
        if k in ("BinaryOperator", "CompoundAssignOperator") and n.get("op", "").endswith("=") and n["op"] not in ("==", "!=", "<=", ">="):
            tgt = strip(kids(n)[0])
        elif k == "UnaryOperator" and n["op"] in ("++", "--"):
            tgt = strip(kids(n)[0])
        elif is_call(n) and n["callee"]["via"] == "operator" and n.get("op") in ("=", "++", "--", "+=", "-="):
            for x in walk(n):
                if x["id"] == n.get("obj"):
                    tgt = strip(x)
        if tgt is not None and tgt["k"] == "DeclRefExpr":
            written.add(tgt["decl"]["id"])
    return {i: e for i, e in inits.items() if i not in written}


def render(n, subst=None):
    """canonical text of an expression tree: used for reports and structural equality of
    expressions (names resolved by declaration, wrappers removed). `subst` maps local decl ids to
    initialiser nodes that are rendered in place of the local's name."""
    n = strip(n)
    if n is None:
        return "?"
    k = n["k"]
    ks = kids(n)
    if subst is not None:
        _r = render
        def render_(x, _s=subst):
            return _r(x, _s)
    else:
        render_ = render
    if k == "DeclRefExpr":
        d = n["decl"]
        if subst is not None and d["id"] in subst:
            return render_(subst[d["id"]])
        return d.get("qname") if d["kind"] in ("global", "staticmember", "enumconst", "function") and d.get("qname") else d["name"]
    if k == "MemberExpr":
        m = n["member"]
        if m["this"]:
            return m["name"]
        return render_(ks[0]) + ("->" if m["arrow"] else ".") + m["name"]
    if k == "CXXThisExpr":
        return "this"
    if k in ("IntegerLiteral", "FloatingLiteral", "CharacterLiteral"):
        return repr(n.get("val"))
    if k == "CXXBoolLiteralExpr":
        return "true" if n.get("val") else "false"
    if k == "StringLiteral":
        return json.dumps(n.get("val"))
    if k in ("BinaryOperator", "CompoundAssignOperator"):
        return "(" + render_(ks[0]) + " " + n["op"] + " " + render_(ks[1]) + ")"
    if k == "UnaryOperator":
        return ("%s%s" % (render_(ks[0]), n["op"])) if n.get("postfix") else ("%s%s" % (n["op"], render_(ks[0])))
    if k == "ConditionalOperator":
        return "(" + render_(ks[0]) + " ? " + render_(ks[1]) + " : " + render_(ks[2]) + ")"
    if k == "ArraySubscriptExpr":
        return render_(ks[0]) + "[" + render_(ks[1]) + "]"
    if is_call(n):
        c = n["callee"]
        byid = {x["id"]: x for x in ks}
        # children hold obj/args; find them by id through a local search
        def find(i):
            for x in walk(n):
                if x["id"] == i:
                    return x
            return None
        args = [render_(find(i)) for i in n.get("args", [])]
        if "obj" in n:
            o = render_(find(n["obj"]))
            if is_smart_deref(n):
                return o
            if is_smart_bool(n):
                return o
            if c["via"] == "operator":
                op = n.get("op", "")
                if op == "[]":
                    return o + "[" + ", ".join(args) + "]"
                if op == "()":
                    return o + "(" + ", ".join(args) + ")"
                if len(args) == 1:
                    return "(" + o + " " + op + " " + args[0] + ")"
                if len(args) == 0:
                    return op + o
            return o + "." + c["name"] + "(" + ", ".join(args) + ")"
        if c["via"] == "operator" and len(args) == 2:
            return "(" + args[0] + " " + n.get("op", "") + " " + args[1] + ")"
        if c["via"] == "operator" and len(args) == 1:
            return n.get("op", "") + args[0]
        if c["via"] == "ctor":
            return c["cls"].split("<")[0] + "(" + ", ".join(args) + ")"
        return c["qname"] + "(" + ", ".join(args) + ")"
    if k in ("CXXStaticCastExpr", "CStyleCastExpr", "CXXFunctionalCastExpr", "CXXDynamicCastExpr", "CXXReinterpretCastExpr", "CXXConstCastExpr"):
        return "(" + n.get("toty", n.get("ty", "")) + ")" + render_(ks[0] if ks else None)
    if k == "CXXNewExpr":
        return "new " + n.get("newty", "") + "(" + ", ".join(render_(x) for x in ks) + ")"
    if k == "CXXThrowExpr":
        return "throw " + (render_(ks[0]) if ks else "")
    if k == "CXXNullPtrLiteralExpr" or k == "GNUNullExpr":
        return "nullptr"
    if k == "CXXDefaultArgExpr":
        return "<default>"
    if k == "InitListExpr":
        return "{" + ", ".join(render_(x) for x in ks) + "}"
    if k == "CXXScalarValueInitExpr":
        return "0"
    return k + "(" + ", ".join(render_(x) for x in ks) + ")"


# ---------------------------------------------------------------------------------------------

class FactBase:
    def __init__(self, src=None):
        self.src = src or os.path.join(REPO, "src")
        self.fns = {}          # key -> Fn
        self.by_qname = {}     # qname -> [Fn]
        self.classes = {}      # qname -> record
        self.units = []        # unit paths analysed
        self.unit_errors = {}
        self.scratch = _scratch()
        self._subclasses = None
        self._overriders = None

    # ---- extraction
    def extract(self, units=(), umbrella=None, jobs=16):
        """units: paths relative to src (library .cpp files, main-file definitions only);
        umbrella: source text of a generated unit (all definitions under src are emitted)"""
        ensure_tool()
        tasks = []
        for u in units:
            p = os.path.join(self.src, u)
            if not os.path.exists(p):
                raise AnalysisBroken("anchor vanished: unit %s does not exist" % u)
            out = os.path.join(self.scratch, u.replace("/", "_") + ".json")
            tasks.append((p, out, True, u))
        if umbrella is not None:
            up = os.path.join(self.scratch, "umbrella_%d.cpp" % len(self.units))
            open(up, "w").write(umbrella)
            tasks.append((up, up + ".json", False, "<umbrella>"))

        def work(t):
            p, out, mo, u = t
            rc, err = run_bppx(p, out, self.src, main_only=mo)
            return t, rc, err
        with ThreadPoolExecutor(max_workers=jobs) as ex:
            results = list(ex.map(work, tasks))
        for (p, out, mo, u), rc, err in results:
            if rc != 0 or not os.path.exists(out):
                raise AnalysisBroken("unit %s does not parse: %s" % (u, err[-3000:]))
            d = json.load(open(out))
            os.unlink(out)
            if d.get("errors"):
                raise AnalysisBroken("unit %s: %d parse errors: %s" % (u, d["errors"], err[-3000:]))
            self.units.append(u)
            self.add(d, u)
        return self

    def add(self, d, unit):
        for c in d.get("classes", []):
            old = self.classes.get(c["qname"])
            if old is None or (old.get("dependent") and not c.get("dependent")):
                self.classes[c["qname"]] = c
        for f in d.get("functions", []):
            if f["key"] in self.fns:
                continue
            fn = Fn(f, unit)
            self.fns[fn.key] = fn
            self.by_qname.setdefault(fn.qname, []).append(fn)
        self._subclasses = None
        self._overriders = None

    # ---- lookup
    def fn(self, key):
        f = self.fns.get(key)
        if f is None:
            raise AnalysisBroken("anchor vanished: function %s" % key)
        return f

    def q(self, qname, concrete=True):
        fs = self.by_qname.get(qname, [])
        if concrete:
            fs = [f for f in fs if not f.rec["dependent"]]
        return fs

    def q1(self, qname):
        fs = self.q(qname)
        if len(fs) != 1:
            raise AnalysisBroken("anchor %s: expected one definition, found %d" % (qname, len(fs)))
        return fs[0]

    def need_class(self, qname):
        c = self.classes.get(qname)
        if c is None:
            raise AnalysisBroken("anchor vanished: class %s" % qname)
        return c

    def need_field(self, cls, name):
        c = self.need_class(cls)
        for f in c["fields"]:
            if f["name"] == name:
                return f
        raise AnalysisBroken("anchor vanished: field %s::%s" % (cls, name))

    def concrete_fns(self):
        return [f for f in self.fns.values() if not f.rec["dependent"]]

    # ---- class hierarchy
    def bases(self, cls, transitive=True):
        out = []
        c = self.classes.get(cls)
        if not c:
            return out
        for b in c["bases"]:
            q = b["ty"]
            out.append(q)
            if transitive:
                out.extend(self.bases(q))
        return out

    def derives_from(self, cls, base):
        return cls == base or base in self.bases(cls)

    def subclasses(self, base):
        return [c for c in self.classes if base in self.bases(c)]

    def overriders(self, key):
        """all function keys (defined or not) that override `key`, transitively, from class records"""
        if self._overriders is None:
            direct = {}
            for c in self.classes.values():
                for m in c["methods"]:
                    for o in m["overrides"]:
                        direct.setdefault(o, set()).add(m["key"])
            self._overriders = direct
        out = set()
        st = [key]
        while st:
            k = st.pop()
            for o in self._overriders.get(k, ()):
                if o not in out:
                    out.add(o)
                    st.append(o)
        return out

    def targets(self, call, static_type_only=False):
        """possible definitions invoked by a call node: static callee + overriders if virtual"""
        c = call["callee"]
        keys = [c["key"]]
        if c.get("virtual") and not call.get("qualified") and not static_type_only:
            keys += list(self.overriders(c["key"]))
        return [self.fns[k] for k in keys if k in self.fns]

    # ---- writers of a field
    def field_writes(self, field_qname, fns=None):
        """every syntactic store to the field: assignment, compound assignment, ++/--,
        mem-initialiser, and non-const uses (bound to non-const reference parameter or non-const
        method called on it). Returns (fn, node, kind)"""
        out = []
        for f in (fns or self.concrete_fns()):
            for i in f.rec.get("inits", []):
                if i.get("field") == field_qname:
                    out.append((f, i["expr"], "init" if i.get("written") else "default-init"))
            for n in walk(f.body):
                k = n["k"]
                if k in ("BinaryOperator", "CompoundAssignOperator") and n["op"] in ("=", "+=", "-=", "*=", "/=", "%=", "|=", "&=", "^=", "<<=", ">>="):
                    l = strip(kids(n)[0])
                    if l and l["k"] == "MemberExpr" and l["member"]["qname"] == field_qname:
                        out.append((f, n, "assign"))
                elif k == "UnaryOperator" and n["op"] in ("++", "--"):
                    l = strip(kids(n)[0])
                    if l and l["k"] == "MemberExpr" and l["member"]["qname"] == field_qname:
                        out.append((f, n, "incdec"))
                elif is_call(n):
                    o = f.obj(n)
                    if o is not None:
                        so = strip(o)
                        if so and so["k"] == "MemberExpr" and so["member"]["qname"] == field_qname:
                            c = n["callee"]
                            if not c.get("const") and not c.get("static"):
                                out.append((f, n, "method:" + c["name"]))
                    for idx, a in enumerate(f.args(n)):
                        sa = strip(a)
                        if sa and sa["k"] == "MemberExpr" and sa["member"]["qname"] == field_qname:
                            pt = n["callee"]["ptypes"]
                            if idx < len(pt) and pt[idx].endswith("&") and not pt[idx].endswith("&&") and not pt[idx].startswith("const "):
                                out.append((f, n, "byref:" + n["callee"]["name"]))
        return out
