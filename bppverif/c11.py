"""C11 Constraint-removing reparametrisation is a faithful change of variables.

 D1 formula agreement (E7): for RTransformedParameter (4 guard valuations) and IntervalTransformedParameter (2): the inverse pair
    getOriginalValue(setOriginalValue(v)) = v, and d/dx, d2/dx2 of getOriginalValue against getFirst/SecondOrderDerivative
 D2 chain rule shape of the derivable wrappers
 D3 the eight bound configurations each get exactly one transform of the right kind, orientation and (nudged) bounds
 D4 both coordinate systems stay in sync: fireParameterChanged, setParameters, getValue, constructor
"""
import itertools
from .facts import kids, strip, walk, is_call, render, local_inits, AnalysisBroken
from . import e1

NEEDS_VT = True
EXPLANATION = ("Static analysis of structural clauses of C11: D1 the closed-form members of RTransformedParameter and IntervalTransformedParameter are extracted per guard valuation as expression "
               "trees and compared as sibling formulas with a computer-algebra normaliser (sympy): inverse pair, first and second derivative pair; PROVED when the difference simplifies to zero, "
               "REFUTED only with a rational witness point inside the guard's region at which the two extracted formulas differ; D2 the wrappers' derivative accessors have the chain-rule shape; "
               "D3 the if-chain of init_ is evaluated over the eight bound configurations: exactly one transform, interval transform for two finite bounds, half-line transform with the right orientation "
               "otherwise, strict bounds nudged inwards; D4 fireParameterChanged copies every back-transformed value, setParameters always forwards to the wrapped function, getValue delegates, the constructor "
               "does not touch the wrapped function. NOT decided: rounding near bounds (the +-TINY nudges), numerical monotonicity, continuity of the half-line formula at non-unit scale.")

RT = "bpp::RTransformedParameter"
IT = "bpp::IntervalTransformedParameter"
W = "bpp::ReparametrizationFunctionWrapper"


def _sym():
    import sympy
    return sympy


FB = []          # fact base of the current run (for helper inlining)


class Formula:
    """symbolic evaluation of a small member function for one valuation of its boolean flags / branch choices"""

    def __init__(self, f, flags, branch, symbols):
        self.f = f
        self.flags = flags        # field name -> bool
        self.branch = branch      # 'neg' | 'nonneg' | None : truth of the x-side / value-side region
        self.S = symbols
        self.env = {}
        self.cenv = {}            # boolean parameters of an inlined helper
        self.depth = 0
        self.sets = []            # values handed to setValue
        self.ret = None
        self.threw = False

    def cond(self, n):
        """truth of a condition under the valuation; None if undetermined"""
        sp = _sym()
        n = strip(n)
        k = n["k"]
        if k == "UnaryOperator" and n["op"] == "!":
            c = self.cond(kids(n)[0])
            return None if c is None else (not c)
        if k == "MemberExpr" and n["member"]["name"] in self.flags:
            return self.flags[n["member"]["name"]]
        if k == "DeclRefExpr" and n["decl"]["id"] in self.cenv:
            return self.cenv[n["decl"]["id"]]
        if k == "BinaryOperator" and n["op"] in ("&", "&&"):
            a, b = self.cond(kids(n)[0]), self.cond(kids(n)[1])
            if a is False or b is False:
                return False
            if a is True and b is True:
                return True
            return None
        if k == "BinaryOperator" and n["op"] in ("||", "|"):
            a, b = self.cond(kids(n)[0]), self.cond(kids(n)[1])
            if a is True or b is True:
                return True
            if a is False and b is False:
                return False
            return None
        if k == "ConditionalOperator":
            c = self.cond(kids(n)[0])
            if c is None:
                return None
            return self.cond(kids(n)[1] if c else kids(n)[2])
        if k == "BinaryOperator" and n["op"] in ("<", "<=", ">", ">="):
            # region tests: decided by the branch choice through the rule table
            return self.region(n)
        if is_call(n) and n["callee"].get("inrepo") and self.depth <= 1 and FB:
            # a predicate member extracted from the guards: evaluate its returned condition under the same valuation
            g = FB[0].fns.get(n["callee"].get("key"))
            if g is not None and g.body is not None:
                rets = [x for x in walk(g.body) if x["k"] == "ReturnStmt" and kids(x)]
                if len(rets) == 1 and len([x for x in kids(g.body)]) == 1:
                    sub = Formula(g, self.flags, self.branch, self.S)
                    sub.depth = self.depth + 1
                    for p_, a in zip(g.params, self.f.args(n)):
                        if (p_.get("ty") or "") in ("bool", "const bool"):
                            sub.cenv[p_["id"]] = self.cond(a)
                        elif render(a) != p_.get("name"):
                            return None       # the rule table reads the guards by their text: a renamed argument is not followed
                    return sub.cond(kids(rets[0])[0])
        return None

    def region(self, n):
        """x < 0  |  value < 1 + bound_ (positive)  |  value > -1 + bound_ (negative)  <->  'neg' branch;
        domain tests value <= bound_ / value >= bound_ / outside-interval tests are false inside the domain"""
        t = render(n, {k_: v_ for k_, v_ in local_inits(self.f).items() if not (is_call(strip(v_)) and strip(v_)["callee"]["name"] in ("getValue",))})
        if t in ("(x < 0)", "(this.getValue() < 0)", "(getValue() < 0)"):
            return self.branch == "neg"
        import re as _re
        m = _re.match(r"^\(value (<|<=|>|>=) \((1|-1) \+ bound_\)\)$", t)
        if m:
            # the seam between the logarithmic and the linear piece sits at bound_ + 1 (positive orientation) / bound_ - 1
            # (negative); three regions along the value axis: log side ('neg'), the seam itself, linear side ('nonneg')
            op, sgn = m.group(1), m.group(2)
            if sgn == "1":
                table = {"<": ("neg",), "<=": ("neg", "seam"), ">": ("nonneg",), ">=": ("seam", "nonneg")}
            else:
                table = {">": ("neg",), ">=": ("neg", "seam"), "<": ("nonneg",), "<=": ("seam", "nonneg")}
            return self.branch in table[op]
        if t in ("(value <= bound_)", "(value >= bound_)", "(value <= lowerBound_)", "(value >= upperBound_)"):
            return False          # inside the domain
        raise AnalysisBroken("E7: region test '%s' is not in the rule table (%s)" % (t, self.f.key))

    def expr(self, n):
        sp = _sym()
        n = strip(n)
        k = n["k"]
        if k in ("IntegerLiteral", "FloatingLiteral"):
            return sp.nsimplify(n["val"])
        if k == "DeclRefExpr":
            if n["decl"]["id"] in self.env:
                return self.env[n["decl"]["id"]]
            if n["decl"]["name"] in self.S:
                return self.S[n["decl"]["name"]]
            raise AnalysisBroken("E7: unknown variable %s in %s" % (n["decl"]["name"], self.f.key))
        if k == "MemberExpr":
            if n["member"]["name"] in self.S:
                return self.S[n["member"]["name"]]
            raise AnalysisBroken("E7: unknown member %s" % n["member"]["name"])
        if k == "UnaryOperator" and n["op"] == "-":
            return -self.expr(kids(n)[0])
        if k == "UnaryOperator" and n["op"] == "+":
            return self.expr(kids(n)[0])
        if k == "BinaryOperator" and n["op"] in ("+", "-", "*", "/"):
            a, b = self.expr(kids(n)[0]), self.expr(kids(n)[1])
            return {"+": a + b, "-": a - b, "*": a * b, "/": a / b}[n["op"]]
        if k == "ConditionalOperator":
            c = self.cond(kids(n)[0])
            if c is None:
                raise AnalysisBroken("E7: undetermined conditional in %s" % self.f.key)
            return self.expr(kids(n)[1] if c else kids(n)[2])
        if is_call(n):
            q = n["callee"]["qname"]
            nm = n["callee"]["name"]
            if n["callee"].get("inrepo") and nm not in ("getValue", "PI") and q != "bpp::NumConstants::PI":
                v = self.inline(n)
                if v is not None:
                    return v
            args = [self.expr(a) for a in self.f.args(n)]
            fn = {"exp": sp.exp, "log": sp.log, "tanh": sp.tanh, "atanh": sp.atanh, "tan": sp.tan, "atan": sp.atan, "cosh": sp.cosh, "sinh": sp.sinh, "sqrt": sp.sqrt}
            if nm in fn and len(args) == 1:
                return fn[nm](args[0])
            if nm == "pow" and len(args) == 2:
                return args[0] ** args[1]
            if q == "bpp::NumConstants::PI":
                return sp.pi
            if nm == "getValue" and not args:
                return self.S["x"]
            raise AnalysisBroken("E7: call %s not in the formula subset (%s)" % (q, self.f.key))
        raise AnalysisBroken("E7: node %s not in the formula subset (%s)" % (k, self.f.key))

    def inline(self, n):
        """value of a call to an in-repository helper whose body is a formula of its arguments (one level)"""
        g = FB[0].fns.get(n["callee"].get("key")) if FB else None
        if g is None or g.body is None or self.depth > 1:
            return None
        sub = Formula(g, self.flags, self.branch, self.S)
        sub.depth = self.depth + 1
        for p_, a in zip(g.params, self.f.args(n)):
            if (p_.get("ty") or "") in ("bool", "const bool"):
                sub.cenv[p_["id"]] = self.cond(a)
            else:
                sub.env[p_["id"]] = self.expr(a)
        sub.run(g.body)
        return sub.ret

    def _unused(self, n, k):
        raise AnalysisBroken("E7: node %s not in the formula subset (%s)" % (k, self.f.key))

    def run(self, n):
        if n is None or self.ret is not None or self.threw:
            return
        k = n["k"]
        if k == "CompoundStmt":
            for c in kids(n):
                self.run(c)
        elif k == "DeclStmt":
            for d in n["decls"]:
                if d.get("init") is not None:
                    if (d.get("ty") or "") in ("bool", "const bool"):
                        self.cenv[d["id"]] = self.cond(d["init"])      # a named test ('const bool inLogPart = (x < 0);')
                    else:
                        self.env[d["id"]] = self.expr(d["init"])
        elif k == "IfStmt":
            c = self.cond(self.f.nodes[n["cond"]])
            if c is None:
                raise AnalysisBroken("E7: undetermined branch '%s' in %s" % (render(self.f.nodes[n["cond"]]), self.f.key))
            if c:
                self.run(self.f.nodes[n["then"]])
            elif "else" in n:
                self.run(self.f.nodes[n["else"]])
        elif k == "ReturnStmt":
            self.ret = self.expr(kids(n)[0])
        elif k in ("ExprWithCleanups",):
            self.run(kids(n)[0])
        elif k == "CXXThrowExpr":
            self.threw = True
        elif is_call(n) and n["callee"]["name"] == "setValue":
            self.sets.append(self.expr(self.f.args(n)[0]))
        elif k in ("ImplicitCastExpr", "ParenExpr"):
            self.run(kids(n)[0])


def _witness(sp, diff, syms, region):
    """a rational point of the region at which diff is not (numerically) zero"""
    from fractions import Fraction
    grids = {"x": region.get("x", [Fraction(-3, 2), Fraction(-1, 3), Fraction(1, 2), Fraction(2)]),
             "v": region.get("v", []), "s": [Fraction(1), Fraction(2), Fraction(1, 2)], "b": [Fraction(0), Fraction(3, 2)],
             "lb": [Fraction(-1), Fraction(0)], "ub": [Fraction(2), Fraction(5)]}
    fsyms = sorted(diff.free_symbols, key=str)
    names = [str(s) for s in fsyms]
    for pt in itertools.product(*[grids.get(nm, [Fraction(1)]) for nm in names]):
        sub = {sy: sp.Rational(p.numerator, p.denominator) for sy, p in zip(fsyms, pt)}
        try:
            ok = all(c(dict(zip(names, pt))) for c in region.get("constraints", []))
            if not ok:
                continue
            val = complex(diff.subs(sub).evalf())
        except Exception:
            continue
        if abs(val) > 1e-9:
            return {nm: str(p) for nm, p in zip(names, pt)}, val
    return None, None


def _principal(sp, e):
    """atan(tan(u)) = u and atanh(tanh(u)) = u on the principal branch (u stays in (-pi/2, pi/2) inside the guard's region)"""
    u = sp.Wild("u")
    e = e.replace(sp.atan(sp.tan(u)), u)
    e = e.replace(sp.atanh(sp.tanh(u)), u)
    e = e.replace(sp.atan(sp.cot(u)), sp.pi / 2 - u)       # u in (0, pi)
    return e


def _compare(chk, sp, rule, f, construct, lhs, rhs, region, what):
    lhs = _principal(sp, sp.together(lhs)) if lhs.has(sp.atan) or lhs.has(sp.atanh) else lhs
    diff = sp.simplify(lhs - rhs)
    if diff != 0 and (diff.has(sp.atan) or diff.has(sp.atanh)):
        diff = sp.simplify(_principal(sp, diff))
    if diff == 0:
        chk.proved(rule, f.key, construct, f.loc(), "%s: difference simplifies to 0" % what)
        return
    pt, val = _witness(sp, diff, None, region)
    if pt is not None:
        chk.refuted(rule, f.key, construct, f.loc(), "%s fails: the extracted formulas differ by %s at %s (lhs %s, rhs %s)" % (what, sp.N(val.real, 6), pt, sp.simplify(lhs), sp.simplify(rhs)), witness={"point": pt})
    else:
        chk.unknown(rule, f.key, construct, f.loc(), "%s: difference %s neither simplifies to zero nor has a witness on the grid" % (what, diff))


def _d1(chk, fb):
    FB[:] = [fb]
    sp = _sym()
    x, v = sp.Symbol("x", real=True), sp.Symbol("v", real=True)
    s, b = sp.Symbol("s", positive=True), sp.Symbol("b", real=True)
    lb, ub = sp.Symbol("lb", real=True), sp.Symbol("ub", real=True)
    from fractions import Fraction as Fr
    n = 0
    # ---- half-line transform
    get, setv, d1, d2 = [fb.q1(RT + "::" + m) for m in ("getOriginalValue", "setOriginalValue", "getFirstOrderDerivative", "getSecondOrderDerivative")]
    for positive in (True, False):
        for branch in ("neg", "nonneg"):
            S = {"x": x, "value": v, "scale_": s, "bound_": b}
            tag = "%s,%s" % ("positive" if positive else "negative", "x<0" if branch == "neg" else "x>=0")
            fg = Formula(get, {"positive_": positive}, branch, S)
            fg.run(get.body)
            fs = Formula(setv, {"positive_": positive}, branch, S)
            fs.run(setv.body)
            f1 = Formula(d1, {"positive_": positive}, branch, S)
            f1.run(d1.body)
            f2 = Formula(d2, {"positive_": positive}, branch, S)
            f2.run(d2.body)
            if fg.ret is None or f1.ret is None or f2.ret is None or len(fs.sets) != 1:
                raise AnalysisBroken("E7: could not extract one formula per member for RTransformedParameter [%s] (sets: %d)" % (tag, len(fs.sets)))
            n += 3
            xs = [Fr(-3, 2), Fr(-1, 3)] if branch == "neg" else [Fr(1, 2), Fr(2)]
            # inverse pair: value region of this branch
            if positive:
                vs = [Fr(1, 4), Fr(3, 4)] if branch == "neg" else [Fr(3, 2), Fr(4)]
            else:
                vs = [Fr(-1, 4), Fr(-3, 4)] if branch == "neg" else [Fr(-3, 2), Fr(-4)]
            inv = fg.ret.subs(x, fs.sets[0])
            # unit scale for the inverse (the documented half-line formula is continuous only at unit scale); bound folded into v
            reg_v = {"v": vs, "constraints": [lambda p: p.get("s", 1) == 1 and p.get("b", 0) == 0]}
            _compare(chk, sp, "D1", get, "R-inverse[%s]" % tag, inv.subs({s: 1, b: 0}), v, reg_v, "getOriginalValue(setOriginalValue(v)) = v at unit scale")
            reg_x = {"x": xs}
            _compare(chk, sp, "D1", d1, "R-d1[%s]" % tag, sp.diff(fg.ret, x), f1.ret, reg_x, "d/dx getOriginalValue = getFirstOrderDerivative")
            _compare(chk, sp, "D1", d2, "R-d2[%s]" % tag, sp.diff(fg.ret, x, 2), f2.ret, reg_x, "d2/dx2 getOriginalValue = getSecondOrderDerivative")
            # monotone orientation: the back-transform increases with x
            der = sp.simplify(sp.diff(fg.ret, x))
            pt_bad = None
            for xv in xs:
                val = der.subs({x: sp.Rational(xv.numerator, xv.denominator), s: 1, b: 0})
                if val <= 0 and positive:
                    pt_bad = xv
            n += 1
    # the seam value itself (bound_ + 1 / bound_ - 1) must be mapped, by exactly one piece, to the coordinate 0
    for positive in (True, False):
        S = {"x": x, "value": v, "scale_": s, "bound_": b}
        fs = Formula(setv, {"positive_": positive}, "seam", S)
        fs.run(setv.body)
        tag = "positive" if positive else "negative"
        seam = b + 1 if positive else b - 1
        n += 1
        if len(fs.sets) != 1:
            chk.refuted("D1", setv.key, "R-seam[%s]" % tag, setv.loc(), "setOriginalValue: the value exactly at the seam between the logarithmic and the linear piece (bound_ %s 1) is handled by %d of the pieces: %s" % (
                "+" if positive else "-", len(fs.sets), "the transformed coordinate keeps its previous value" if not fs.sets else "two assignments"), witness={"input": "value = bound %s 1" % ("+" if positive else "-")})
        else:
            at = sp.simplify(fs.sets[0].subs({v: seam}).subs({s: 1}))
            if at == 0:
                chk.proved("D1", setv.key, "R-seam[%s]" % tag, setv.loc(), "value = bound_ %s 1 maps to the coordinate 0" % ("+" if positive else "-"))
            else:
                chk.refuted("D1", setv.key, "R-seam[%s]" % tag, setv.loc(), "setOriginalValue maps the seam value bound_ %s 1 to %s instead of 0 (unit scale)" % ("+" if positive else "-", at), witness={"input": "value = bound %s 1" % ("+" if positive else "-")})
    # ---- interval transform
    get, setv, d1, d2 = [fb.q1(IT + "::" + m) for m in ("getOriginalValue", "setOriginalValue", "getFirstOrderDerivative", "getSecondOrderDerivative")]
    ctor = [c for c in fb.q(IT + "::IntervalTransformedParameter") if not c.rec.get("copyctor")][0]
    for hyper in (True, False):
        S = {"x": x, "value": v, "scale_": s, "lowerBound_": lb, "upperBound_": ub, "lowerBound": lb, "upperBound": ub, "scale": s}
        tag = "hyper" if hyper else "tangent"
        fg = Formula(get, {"hyper_": hyper}, None, S)
        fg.run(get.body)
        fs = Formula(setv, {"hyper_": hyper}, None, S)
        fs.run(setv.body)
        f1 = Formula(d1, {"hyper_": hyper}, None, S)
        f1.run(d1.body)
        f2 = Formula(d2, {"hyper_": hyper}, None, S)
        f2.run(d2.body)
        if fg.ret is None or f1.ret is None or f2.ret is None or len(fs.sets) != 1:
            raise AnalysisBroken("E7: could not extract one formula per member for IntervalTransformedParameter [%s]" % tag)
        n += 4
        reg = {"x": [Fr(-3, 2), Fr(-1, 3), Fr(1, 2), Fr(2)], "v": [Fr(1, 2), Fr(3, 2)],
               "constraints": [lambda p: p.get("lb", -1) < p.get("v", 0) < p.get("ub", 2) if "v" in p else True]}
        inv = fg.ret.subs(x, fs.sets[0])
        _compare(chk, sp, "D1", get, "I-inverse[%s]" % tag, inv, v, dict(reg, v=[Fr(1, 2), Fr(3, 2)], constraints=[lambda p: p.get("lb", -1) < p.get("v", 0) < p.get("ub", 2)]), "getOriginalValue(setOriginalValue(v)) = v")
        _compare(chk, sp, "D1", d1, "I-d1[%s]" % tag, sp.diff(fg.ret, x), f1.ret, reg, "d/dx getOriginalValue = getFirstOrderDerivative")
        _compare(chk, sp, "D1", d2, "I-d2[%s]" % tag, sp.diff(fg.ret, x, 2), f2.ret, reg, "d2/dx2 getOriginalValue = getSecondOrderDerivative")
        # the constructor's initial coordinate is the same formula as setOriginalValue
        base = [i for i in ctor.rec.get("inits", []) if i.get("base") == "bpp::TransformedParameter"]
        if base:
            call = strip(base[0]["expr"])
            fc = Formula(ctor, {"hyper": hyper, "hyper_": hyper}, None, S)
            fc.flags["hyper"] = hyper
            # the flag is a constructor parameter here
            orig_cond = fc.cond

            def cond2(nn, fc=fc, orig=orig_cond, hyper=hyper):
                sn = strip(nn)
                if sn["k"] == "DeclRefExpr" and sn["decl"]["name"] == "hyper":
                    return hyper
                return orig(nn)
            fc.cond = cond2
            init_x = fc.expr(ctor.args(call)[1])
            _compare(chk, sp, "D1", ctor, "I-ctor[%s]" % tag, init_x, fs.sets[0], dict(reg, constraints=[lambda p: p.get("lb", -1) < p.get("v", 0) < p.get("ub", 2)]), "constructor and setOriginalValue compute the same coordinate")
    chk.floor("D1", "formula identities", n, 20)


class _NotPoly(Exception):
    pass


def _d2(chk, fb):
    sp = _sym()
    F1, F2, F12 = sp.Symbol("F1"), sp.Symbol("F2"), sp.Symbol("F12")
    T1, T2 = sp.Function("T1"), sp.Function("T2")

    def atom(f, n):
        """symbol for a call in the accessor: inner-function derivative or transform derivative of a variable"""
        nm = n["callee"]["name"]
        sub = local_inits(f)
        objt = render(f.obj(n), sub) if "obj" in n else ""
        var = [render(a) for a in f.args(n)]
        inner = "function_" in objt
        if inner and nm == "getFirstOrderDerivative":
            return F1
        if inner and nm == "getSecondOrderDerivative" and len(var) == 1:
            return F2
        if inner and nm == "getSecondOrderDerivative" and len(var) == 2:
            return F12
        own = "obj" not in n or strip(f.obj(n))["k"] == "CXXThisExpr"
        if own and nm == "getFirstOrderDerivative" and len(var) == 1:
            # the wrapper's own first derivative (virtual call on this): already carries the transform's factor
            return F1 * T1(sp.Symbol(var[0]))
        if own and nm == "getSecondOrderDerivative" and len(var) == 1:
            return F2 * T1(sp.Symbol(var[0])) ** 2 + F1 * T2(sp.Symbol(var[0]))
        if not inner and nm in ("getFirstOrderDerivative", "getSecondOrderDerivative") and not var:
            # transform of which variable? the parameter looked up inside the object expression
            onode = strip(f.obj(n))
            hops = 0
            while onode["k"] == "DeclRefExpr" and onode["decl"]["kind"] == "local" and onode["decl"]["id"] in sub and hops < 4:
                onode = strip(sub[onode["decl"]["id"]])
                hops += 1
            names = [x["decl"]["name"] for x in walk(onode) if x["k"] == "DeclRefExpr" and x["decl"]["kind"] == "param"]
            v = sp.Symbol(names[0]) if names else sp.Symbol("?")
            return (T1 if nm == "getFirstOrderDerivative" else T2)(v)
        return None

    def tr(f, n):
        n = strip(n)
        sub = local_inits(f)
        hops = 0
        while n["k"] == "DeclRefExpr" and n["decl"]["kind"] == "local" and n["decl"]["id"] in sub and hops < 4:
            n = strip(sub[n["decl"]["id"]])
            hops += 1
        if n["k"] == "BinaryOperator" and n["op"] in ("+", "-", "*", "/"):
            a, b = tr(f, kids(n)[0]), tr(f, kids(n)[1])
            return {"+": a + b, "-": a - b, "*": a * b, "/": a / b}[n["op"]]
        if n["k"] == "UnaryOperator" and n["op"] in ("-", "+") and not n.get("postfix"):
            a = tr(f, kids(n)[0])
            return -a if n["op"] == "-" else a
        if n["k"] in ("IntegerLiteral", "FloatingLiteral"):
            return sp.nsimplify(n["val"])
        if is_call(n):
            if n["callee"]["name"] == "pow" and len(f.args(n)) == 2:
                return tr(f, f.args(n)[0]) ** tr(f, f.args(n)[1])
            a = atom(f, n)
            if a is not None:
                return a
        raise _NotPoly("expression '%s' is not a polynomial in derivative accessors" % render(n)[:60])
    specs = [("bpp::ReparametrizationDerivableFirstOrderWrapper::getFirstOrderDerivative", 1, lambda v: F1 * T1(v[0])),
             ("bpp::ReparametrizationDerivableSecondOrderWrapper::getSecondOrderDerivative", 1, lambda v: F2 * T1(v[0]) ** 2 + F1 * T2(v[0])),
             ("bpp::ReparametrizationDerivableSecondOrderWrapper::getSecondOrderDerivative", 2, lambda v: F12 * T1(v[0]) * T1(v[1]))]
    for q, np_, want in specs:
        fs = [f for f in fb.q(q) if len(f.params) == np_]
        if len(fs) != 1:
            raise AnalysisBroken("anchor vanished: %s/%d" % (q, np_))
        f = fs[0]
        rets = [n for n in walk(f.body) if n["k"] == "ReturnStmt"]
        try:
            got = tr(f, kids(rets[0])[0])
        except _NotPoly as ex:
            chk.unknown("D2", f.key, "chain-rule", f.loc(), str(ex))
            continue
        vs = [sp.Symbol(p["name"]) for p in f.params]
        exp = want(vs)
        if sp.simplify(sp.expand(got - exp)) == 0:
            chk.proved("D2", f.key, "chain-rule", f.loc(), "returns %s" % got)
        else:
            chk.refuted("D2", f.key, "chain-rule", f.loc(), "the accessor returns %s; the chain rule requires %s (F: wrapped function's derivatives, T1/T2: first/second derivative of the variable's transform)" % (got, exp))


def _d3(chk, fb):
    f = fb.q1(W + "::init_")
    # evaluate the if-chain for each configuration
    configs = []
    for lo in ("closed", "open", "inf"):
        for up in ("closed", "open", "inf"):
            if lo == "inf" and up == "inf":
                continue
            configs.append((lo, up))
    n = 0
    for lo, up in configs:
        val = {"finiteLowerBound": lo != "inf", "finiteUpperBound": up != "inf", "strictLowerBound": lo == "open", "strictUpperBound": up == "open"}
        if lo == "inf":
            val["strictLowerBound"] = None
        if up == "inf":
            val["strictUpperBound"] = None
        env = {}
        reached = []
        unsure = []

        def cond(nn):
            sn = strip(nn)
            k = sn["k"]
            if k == "UnaryOperator" and sn["op"] == "!":
                c = cond(kids(sn)[0])
                return None if c is None else (not c)
            if k == "BinaryOperator" and sn["op"] == "&&":
                a = cond(kids(sn)[0])
                if a is False:
                    return False
                b = cond(kids(sn)[1])
                if b is False:
                    return False
                return True if (a is True and b is True) else None
            if k == "BinaryOperator" and sn["op"] == "||":
                a = cond(kids(sn)[0])
                if a is True:
                    return True
                b = cond(kids(sn)[1])
                if b is True:
                    return True
                return False if (a is False and b is False) else None
            if is_call(sn) and sn["callee"]["name"] in val:
                return val[sn["callee"]["name"]]
            if k == "DeclRefExpr" and sn["decl"]["id"] in env:
                return env[sn["decl"]["id"]]
            if render(sn) == "constraint":
                return True
            if render(sn) == "interval":
                return True
            if is_call(sn) and sn["callee"]["name"] == "operator bool":
                return True
            return "data"     # value-dependent (the TINY nudges): both branches are walked

        def walk_stmt(nn):
            if nn is None:
                return
            k = nn["k"]
            if k == "CompoundStmt":
                for c in kids(nn):
                    walk_stmt(c)
            elif k == "DeclStmt":
                for d in nn["decls"]:
                    if d.get("init") is not None and d["ty"] in ("bool", "const bool"):
                        env[d["id"]] = cond(d["init"])
                    if d.get("init") is not None:
                        for x in walk(d["init"]):
                            if x["k"] == "CXXNewExpr" and "TransformedParameter" in x.get("newty", ""):
                                reached.append(x)
            elif k == "IfStmt":
                c = cond(f.nodes[nn["cond"]])
                if c is True:
                    walk_stmt(f.nodes[nn["then"]])
                elif c is False:
                    if "else" in nn:
                        walk_stmt(f.nodes[nn["else"]])
                elif c == "data":
                    # 'correctedValue' nudges and verbose messages: no transform is created there; a test this walk cannot
                    # evaluate that does guard a transform makes the configuration undecided
                    if any(x["k"] == "CXXNewExpr" and "TransformedParameter" in x.get("newty", "") for x in walk(nn)):
                        unsure.append(render(f.nodes[nn["cond"]])[:60])
                else:
                    raise AnalysisBroken("D3: condition '%s' undetermined for configuration %s/%s" % (render(f.nodes[nn["cond"]])[:60], lo, up))
            elif k == "ForStmt":
                walk_stmt(f.nodes[nn["body"]])
            else:
                for x in walk(nn):
                    if x["k"] == "CXXNewExpr" and "TransformedParameter" in x.get("newty", ""):
                        reached.append(x)
        walk_stmt(f.body)
        n += 1
        tag = "%s-lower/%s-upper" % (lo, up)
        if unsure:
            chk.unknown("D3", f.key, "one-transform[%s]" % tag, f.loc(), "a test guarding a transform is not one this walk evaluates: '%s'" % unsure[0])
            continue
        if len(reached) != 1:
            chk.refuted("D3", f.key, "one-transform[%s]" % tag, f.loc(), "configuration %s creates %d transformed parameters (expected exactly one)" % (tag, len(reached)))
            continue
        nw = reached[0]
        ty = nw["newty"].split("::")[-1]
        ce = [x for x in kids(nw) if x["k"] == "CXXConstructExpr"][0]
        # only numeric locals (const double lower = interval->getLowerBound(); ...) are looked through
        dbl = {d["id"] for dn in f.all_nodes() if dn["k"] == "DeclStmt" for d in dn["decls"] if (d.get("ty") or "") in ("double", "const double")}
        sub_ = {k_: v_ for k_, v_ in local_inits(f).items() if k_ in dbl}
        args = [render(a, sub_) for a in f.args(ce)]
        if lo != "inf" and up != "inf":
            want_lb = "(interval.getLowerBound() + bpp::NumConstants::TINY())" if lo == "open" else "interval.getLowerBound()"
            want_ub = "(interval.getUpperBound() - bpp::NumConstants::TINY())" if up == "open" else "interval.getUpperBound()"
            ok = ty == "IntervalTransformedParameter" and len(args) >= 4 and args[2] == want_lb and args[3] == want_ub
            exp = "IntervalTransformedParameter(name, value, %s, %s)" % (want_lb, want_ub)
        elif up == "inf":
            want_b = "(interval.getLowerBound() + bpp::NumConstants::TINY())" if lo == "open" else "interval.getLowerBound()"
            ok = ty == "RTransformedParameter" and len(args) >= 4 and args[2] == want_b and args[3] == "true"
            exp = "RTransformedParameter(name, value, %s, true)" % want_b
        else:
            want_b = "(interval.getUpperBound() - bpp::NumConstants::TINY())" if up == "open" else "interval.getUpperBound()"
            ok = ty == "RTransformedParameter" and len(args) >= 4 and args[2] == want_b and args[3] == "false"
            exp = "RTransformedParameter(name, value, %s, false)" % want_b
        vocab = {"interval.getLowerBound()", "interval.getUpperBound()", "(interval.getLowerBound() + bpp::NumConstants::TINY())", "(interval.getUpperBound() - bpp::NumConstants::TINY())",
                 "(interval.getLowerBound() - bpp::NumConstants::TINY())", "(interval.getUpperBound() + bpp::NumConstants::TINY())", "true", "false"}
        if ok:
            chk.proved("D3", f.key, "transform[%s]" % tag, f.loc(nw), "%s(%s)" % (ty, ", ".join(args)))
        elif len(args) >= 4 and not all(a_ in vocab for a_ in args[2:4]) and ty in ("IntervalTransformedParameter", "RTransformedParameter"):
            chk.unknown("D3", f.key, "transform[%s]" % tag, f.loc(nw), "bound arguments (%s) not in the recognised vocabulary" % ", ".join(args[2:4]))
        else:
            chk.refuted("D3", f.key, "transform[%s]" % tag, f.loc(nw), "configuration %s creates %s(%s); expected %s (transform kind, orientation, and strict bounds nudged inwards)" % (tag, ty, ", ".join(args), exp),
                        witness={"input": "a parameter with a %s lower and %s upper bound" % (lo, up)})
    chk.floor("D3", "bound configurations", n, 8)


def _d4(chk, fb):
    f = fb.q1(W + "::fireParameterChanged")
    cfg = f.cfg
    sets = [c for c in f.calls() if c["callee"]["name"] == "setValue" and "functionParameters_[" in render(f.obj(c))]
    sub = local_inits(f)
    if sets:
        c = sets[0]
        idx = render(f.obj(c))[len("functionParameters_["):-1]
        src = e1.inline_render(fb, f, f.args(c)[0], sub)
        lp = f.enclosing(c, ("ForStmt", "WhileStmt", "CXXForRangeStmt", "DoStmt"))
        bounds = ("this.getNumberOfParameters()", "getNumberOfParameters()", "functionParameters_.size()")
        whole = None          # True: every index; False: recognisably not every index; None: not a form this rule reads
        if lp is not None and lp["k"] in ("ForStmt", "WhileStmt") and lp.get("cond") is not None:
            ct = render(f.nodes[lp["cond"]], sub)
            start = None
            for dn in f.all_nodes():
                if dn["k"] == "DeclStmt":
                    for d in dn["decls"]:
                        if d["name"] == idx and d.get("init") is not None:
                            start = render(d["init"])
            if ct in tuple("(%s < %s)" % (idx, b_) for b_ in bounds) + tuple("(%s != %s)" % (idx, b_) for b_ in bounds):
                whole = True if start in ("0", "0UL", "0U") else (False if start is not None and start.isdigit() else None)
            elif any(ct == "(%s < (%s - %d))" % (idx, b_, k_) or ct == "((%s + %d) < %s)" % (idx, k_, b_) for b_ in bounds for k_ in (1, 2)):
                whole = False
        ok_src = "getOriginalValue()" in src and "getParameter_(%s)" % idx in src
        bad_src = not ok_src and "getParameter_(" in src and ("getValue()" in src or "getOriginalValue()" in src)
        if whole and ok_src:
            chk.proved("D4", f.key, "sync-all-coordinates", f.loc(c), "functionParameters_[%s].setValue(%s) for every %s" % (idx, src[:60], idx))
        elif whole is False or bad_src:
            chk.refuted("D4", f.key, "sync-all-coordinates", f.loc(c), "fireParameterChanged does not copy getOriginalValue() of parameter i into functionParameters_[i] for every i (loop: %s, source: %s)" % (render(f.nodes[lp["cond"]]) if lp is not None and lp.get("cond") is not None else "none", src[:60]))
        else:
            chk.unknown("D4", f.key, "sync-all-coordinates", f.loc(c), "the loop or the copied value is not in a form this rule reads (loop: %s, source: %s)" % (render(f.nodes[lp["cond"]])[:50] if lp is not None and lp.get("cond") is not None else "none", src[:60]))
    else:
        chk.refuted("D4", f.key, "sync-all-coordinates", f.loc(), "fireParameterChanged no longer updates functionParameters_")
    g = fb.q1(W + "::setParameters")
    cfg = g.cfg
    fw = [c for c in g.calls() if c["callee"]["name"] == "setParameters" and "obj" in c and render(g.obj(c)) == "function_"]
    mt = [c for c in g.calls() if c["callee"]["name"] == "matchParametersValues"]
    if fw and mt:
        ok, path = e1.must_pass(cfg, {cfg.stmt_block(fw[0])})
        order = e1.before_in_function(cfg, mt[0], fw[0])
        arg = render(g.args(fw[0])[0], local_inits(g))
        if ok and order and arg.startswith("functionParameters_.createSubList("):
            chk.proved("D4", g.key, "always-forwards", g.loc(fw[0]), "matchParametersValues, then function_->setParameters(%s) on every path" % arg[:60])
        elif ok and order and "functionParameters_" in arg:
            chk.unknown("D4", g.key, "always-forwards", g.loc(fw[0]), "forwards '%s' on every path: not compared with the sub-list of back-transformed values" % arg[:60])
        else:
            chk.refuted("D4", g.key, "always-forwards", g.loc(fw[0]), "setParameters does not forward the back-transformed values to the wrapped function on every path (an unchanged transformed point must still re-synchronise a function that was modified directly)",
                        witness={"history": "evaluate at P; change the wrapped function directly; evaluate at P again"})
    else:
        chk.refuted("D4", g.key, "always-forwards", g.loc(), "setParameters no longer matches the transformed values and forwards to the wrapped function")
    h = fb.q1(W + "::getValue")
    r = [n for n in walk(h.body) if n["k"] == "ReturnStmt"]
    if r and render(kids(r[0])[0]) == "function_.getValue()":
        chk.proved("D4", h.key, "value-delegates", h.loc(), "returns function_->getValue()")
    else:
        chk.refuted("D4", h.key, "value-delegates", h.loc(), "getValue() is not the wrapped function's value")
    for c in [x for x in fb.q(W + "::ReparametrizationFunctionWrapper") if not x.rec.get("copyctor")]:
        touching = [n for n in c.calls() if "obj" in n and render(c.obj(n)) in ("function_", "function") and not n["callee"].get("const") and n["callee"]["name"] not in ("operator->", "operator*", "get")]
        inits = [n for n in c.calls() if n["callee"]["name"] == "init_"]
        if inits and not touching:
            chk.proved("D4", c.key, "ctor-leaves-function", c.loc(), "constructor calls init_ and makes no non-const call on the wrapped function")
        else:
            chk.refuted("D4", c.key, "ctor-leaves-function", c.loc(), "constructor modifies the wrapped function (%s)" % [render(t)[:40] for t in touching])


def run(chk, fb, tier):
    chk.rule("D1", "sibling formulas agree under every guard valuation: inverse pair (unit scale for the half-line transform), first and second derivative pair, constructor = setOriginalValue (interval transform)")
    chk.rule("D2", "getFirstOrderDerivative = F1*T1; getSecondOrderDerivative(v) = F2*T1^2 + F1*T2; getSecondOrderDerivative(v1,v2) = F12*T1(v1)*T1(v2)")
    chk.rule("D3", "init_: each of the 8 bound configurations reaches exactly one 'new ...TransformedParameter' with the required kind, orientation and nudged bounds")
    chk.rule("D4", "fireParameterChanged syncs every coordinate; setParameters always forwards; getValue delegates; constructor leaves the wrapped function untouched")
    _d1(chk, fb)
    _d2(chk, fb)
    _d3(chk, fb)
    _d4(chk, fb)
    from . import copyrule
    chk.rule("DC", "copy constructor and copy assignment copy the same members; operator= empties a member container before re-populating it; copy functions never assign through a stored shared pointer")
    copyrule.check(chk, fb, "DC", lambda c: c["file"].endswith(("Bpp/Numeric/Function/ReparametrizationFunctionWrapper.h", "Bpp/Numeric/TransformedParameter.h")), floor=1)
    chk.assume("atan(tan(u)) = u: the argument stays on the principal branch for values strictly inside the interval")
    chk.assume("region tests are mapped to x-side regions by the rule table in Formula.region; scale > 0; lower bound < upper bound")
