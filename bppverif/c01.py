"""C01 A constrained parameter never holds a value its constraint rejects.

Decided clauses (DESIGN.md section 5, C01):
 D1 who-writes + guarded write of Parameter::value_ / constraint_ (whole program)
 D2 the value constructor validates the stored value on every path to its normal exit
 D3 a rejected update reaches its throw before any store / notification
 D4 interval algebra decided exactly over all order types (E3 OrderAI)
 D4c AutoParameter's fallback stores the accepted limit of the requested value
 D5 bracket characters written by getDescription and read by readDescription agree
"""
from .facts import kids, strip, walk, is_call, render, AnalysisBroken, local_inits
from . import e1
from .orderai import Interp, Obj, Eps, weak_orders, probes, car, show, NEG_INF, POS_INF, is_car, NotComparisonOnly
import itertools

EXPLANATION = ("Static analysis of structural clauses of C01 over the type-resolved program (clang AST + CFG of every "
               "library unit and every header): D1 every writer of Parameter::value_/constraint_ in the whole program is a checked "
               "write, a pair copy, a guarded constraint install or an unconstrained initialisation; D2 the value constructor "
               "validates; D3 no store or listener notification precedes a rejecting throw; D4 isCorrect/includes/operator&/"
               "operator&=/isEmpty/getLimit/getAcceptedLimit of IntervalConstraint are decided exactly by abstract interpretation "
               "over all weak orders of the bounds (incl. +-inf) x open/closed flags with a probe at every position of the order; "
               "D4c fallback data flow in AutoParameter::setValue; D5 bracket tables. NOT decided: floating-point spacing of "
               "limit+-1e-12 (auto-correcting parameter's 'never raises'), parsing of numeric values in readDescription, constraint objects "
               "mutated after installation through a shared pointer (listed as assumption).")

VALUE = "bpp::Parameter::value_"
CONS = "bpp::Parameter::constraint_"
IC = "bpp::IntervalConstraint"


def _is_iscorrect(n, obj_text=None, arg_text=None):
    if not is_call(n) or n["callee"]["name"] != "isCorrect":
        return False
    return True


def _iscorrect_fact(facts, obj_texts, arg_text):
    """edge establishes: isCorrect(arg) true on one of the objects, or the object is null"""
    for text, truth, node in facts:
        if is_call(node) and node["callee"]["name"] == "isCorrect" and truth:
            nodes = {x["id"]: x for x in walk(node)}
            o = render(nodes[node["obj"]]) if "obj" in node else ""
            a = render(nodes[node["args"][0]]) if node.get("args") else ""
            if o in obj_texts and (arg_text is None or a == arg_text):
                return True
        if text in obj_texts and truth is False:
            return True
        # a test kept as one value ('const bool rejected = constraint_ && !constraint_->isCorrect(v); if (rejected) throw'):
        # '(A && B) is false' is 'A false or B false', '(A || B) is true' is 'A true or B true' - established when every
        # alternative establishes it
        n2 = strip(node) if node is not None else None
        if n2 is not None and n2["k"] == "BinaryOperator" and ((n2.get("op") == "&&" and truth is False) or (n2.get("op") == "||" and truth is True)):
            if all(_iscorrect_fact(e1.cond_facts(k_, truth), obj_texts, arg_text) for k_ in kids(n2)):
                return True
    return False


def run(chk, fb, tier):
    chk.rule("D1", "every store to Parameter::value_ / constraint_ anywhere in the program is classified: checked write (store of X dominated by "
                   "'constraint null or isCorrect(X)'), pair copy (value and constraint copied from the same source), guarded install "
                   "(constraint C installed under 'C null or C->isCorrect(value_)'), null install, or unconstrained initialisation")
    chk.rule("D2", "a constructor that installs a caller-supplied constraint reaches its normal exit only through an isCorrect test of the stored value")
    chk.rule("D3", "in setValue/setConstraint no store to value_/constraint_ and no listener notification can precede a throw")
    chk.rule("D4", "IntervalConstraint membership/intersection/emptiness/limits equal their set-theoretic definitions on every order type (exact)")
    chk.rule("D4c", "AutoParameter::setValue: the value stored after a rejection is constraint_->getAcceptedLimit(requested value)")
    chk.rule("D5", "bracket characters emitted by getDescription and recognised by readDescription are inverse tables")
    fb.need_field("bpp::Parameter", "value_")
    fb.need_field("bpp::Parameter", "constraint_")

    # ---------------- D1
    vw = fb.field_writes(VALUE)
    cw = fb.field_writes(CONS)
    chk.floor("D1", "writers of value_", len(vw), 5)
    chk.floor("D1", "writers of constraint_", len(cw), 6)
    by_fn = {}
    for f, n, kind in vw:
        by_fn.setdefault(f.key, {"fn": f, "v": [], "c": []})["v"].append((n, kind))
    for f, n, kind in cw:
        by_fn.setdefault(f.key, {"fn": f, "v": [], "c": []})["c"].append((n, kind))
    always_validating = set()
    for key, d in sorted(by_fn.items()):
        f = d["fn"]
        if not fb.derives_from(f.cls or "", "bpp::Parameter"):
            chk.refuted("D1", f.key, "writer-outside-hierarchy", f.loc(), "value_/constraint_ written outside bpp::Parameter's hierarchy")
            continue
        if f.rec.get("ctor"):
            _classify_ctor(chk, fb, f, d)
            continue
        if f.rec.get("copyassign"):
            _classify_pair_copy(chk, f, d, "assign")
            continue
        for n, kind in d["v"]:
            _classify_value_store(chk, fb, f, n, kind)
        for n, kind in d["c"]:
            _classify_constraint_store(chk, fb, f, n, kind)

    # ---------------- D3
    for q in ("bpp::Parameter::setValue", "bpp::Parameter::setConstraint"):
        f = fb.q1(q)
        cfg = f.cfg
        throws = [n for n in walk(f.body) if n["k"] == "CXXThrowExpr"]
        effects = []
        for n in walk(f.body):
            if n["k"] in ("BinaryOperator", "CompoundAssignOperator") or is_call(n):
                w = e1.writes_in(f, n)
                if any(x[0] == "f" and x[1] in (VALUE, CONS) for x in w) and n["k"] != "CompoundStmt":
                    # only the innermost store node
                    if not any(any(y[0] == "f" and y[1] in (VALUE, CONS) for y in e1.writes_in(f, c)) for c in kids(n)):
                        effects.append((n, "store"))
            if is_call(n) and n["callee"]["name"].startswith("fireParameter"):
                effects.append((n, "notify"))
        if not throws:
            chk.unknown("D3", f.key, "no-rejecting-path", f.loc(), "no throw left in %s: nothing to order (the missing guard is rule D1's finding)" % q)
        for t in throws:
            bad = [e for e, what in effects if e1.before_in_function(cfg, e, t)]
            if bad:
                chk.refuted("D3", f.key, "effect-before-throw:" + render(bad[0]), f.loc(bad[0]),
                            "store/notification at %s can execute before the rejecting throw at %s" % (f.loc(bad[0]), f.loc(t)))
            else:
                chk.proved("D3", f.key, "throw-before-effects", f.loc(t), "%d effect sites, none reaches the throw" % len(effects))

    # ---------------- D4c
    _d4c(chk, fb)
    # ---------------- D5
    _d5(chk, fb)
    # ---------------- D4
    _d4(chk, fb, tier)
    chk.rule("D6", "half-line constructor of IntervalConstraint: in each arm of the orientation flag the finite end carries the caller's inclusion flag and the infinite end is open")
    _d6(chk, fb)

    chk.rule("D7", "who-writes rule on the two bound members of IntervalConstraint: no member moves a value from one bound into the other (assignment or std::swap): an interval given with lower > upper stays the empty interval it denotes")
    _d7(chk, fb)

    from . import copyrule
    chk.rule("DC", "copy constructor and copy assignment copy the same members; operator= empties a member container before re-populating it; copy functions never assign through a stored shared pointer")
    copyrule.check(chk, fb, "DC", lambda c: c["file"].endswith(("Bpp/Numeric/Parameter.h", "Bpp/Numeric/AutoParameter.h", "Bpp/Numeric/Constraints.h")), floor=2)
    chk.assume("constraint objects are shared and mutable: a constraint mutated after installation (e.g. intMinMax_ of Simple/Constant/"
               "TruncatedExponential distributions via setUpperBound/&=) is outside the who-writes rule")
    chk.assume("E3: totally ordered coordinates without NaN; a lower bound of +inf / an upper bound of -inf is excluded from the emptiness oracle")


def _d7(chk, fb):
    """the bounds are stored as given: in no member of IntervalConstraint does a value travel from lowerBound_ to upperBound_ or
    back (lowerBound_ = upperBound_, std::swap(lowerBound_, upperBound_), a temporary holding one and stored into the other).
    '[3;1]' denotes the empty interval; re-ordering the bounds turns it into [1;3] and values are accepted that the caller excluded"""
    IC = "bpp::IntervalConstraint"
    fns = [f for f in fb.concrete_fns() if f.cls == IC and f.body is not None]
    n = 0
    for f in sorted(fns, key=lambda x: x.key):
        inits = local_inits(f)

        def bounds_in(node, depth=0):
            out = set()
            for x in walk(node):
                if x["k"] == "MemberExpr" and x["member"].get("this") and x["member"]["name"] in ("lowerBound_", "upperBound_"):
                    out.add(x["member"]["name"])
                elif x["k"] == "DeclRefExpr" and x["decl"]["id"] in inits and depth < 2:
                    out |= bounds_in(inits[x["decl"]["id"]], depth + 1)
            return out
        bad = None
        wrote = False
        for x in f.all_nodes():
            if x["k"] == "BinaryOperator" and x.get("op") == "=":
                l = strip(kids(x)[0])
                if l["k"] == "MemberExpr" and l["member"].get("this") and l["member"]["name"] in ("lowerBound_", "upperBound_"):
                    wrote = True
                    other = "upperBound_" if l["member"]["name"] == "lowerBound_" else "lowerBound_"
                    r = kids(x)[1]
                    # the whole right-hand side is the other bound (possibly through a local): a move, not a computation with it
                    rs = strip(r)
                    direct = (rs["k"] == "MemberExpr" and rs["member"].get("this") and rs["member"]["name"] == other) or \
                             (rs["k"] == "DeclRefExpr" and rs["decl"]["id"] in inits and bounds_in(inits[rs["decl"]["id"]]) == {other} and strip(inits[rs["decl"]["id"]])["k"] == "MemberExpr")
                    if direct:
                        bad = x
            elif is_call(x) and x["callee"]["name"] in ("swap", "iter_swap", "exchange"):
                names = set()
                for a in f.args(x):
                    names |= bounds_in(a)
                if names == {"lowerBound_", "upperBound_"}:
                    wrote = True
                    bad = x
        if not wrote:
            continue
        n += 1
        if bad is not None:
            chk.refuted("D7", f.key, "bounds-stored-as-given", f.loc(bad),
                        "%s moves a value between lowerBound_ and upperBound_ ('%s'): an interval written with its lower bound above its upper bound is the empty interval, after the exchange it is a non-empty one and accepts values the description excluded" % (f.name, render(bad)[:60]),
                        witness={"input": "readDescription(\"[3;1]\"): isEmpty() must stay true and isCorrect(2) false"})
        else:
            chk.proved("D7", f.key, "bounds-stored-as-given", f.loc(), "each bound is written from its own source")
    chk.floor("D7", "IntervalConstraint members writing a bound", n, 3)


_HSUM = {}


def _helper_summary(fb, t):
    """pairs (object text, argument text), in the callee's own names, such that every path of t to its normal exit has
    passed 'object null or object->isCorrect(argument)': t returns only when the constraint accepts the value"""
    if t.key in _HSUM:
        return _HSUM[t.key]
    _HSUM[t.key] = out = []
    if t.cfg is None or t.body is None:
        return out
    cands = set()
    for n in t.calls():
        if n["callee"]["name"] == "isCorrect" and "obj" in n and t.args(n):
            cands.add((render(t.obj(n)), render(t.args(n)[0])))
    w = e1.writes_in(t, t.body)
    for o, a in sorted(cands):
        ok, _ = _must_validate(t.cfg, lambda facts: _iscorrect_fact(facts, {o}, a), set())
        if ok and not any(x[0] == "v" for x in w):
            out.append((o, a))
    return out


def _validating_sites(fb, f, obj_texts, arg_text):
    """calls in f of a helper that returns only when one of obj_texts is null or accepts arg_text (None: any value)"""
    sites = []
    for n in f.calls():
        for t in fb.targets(n, static_type_only=True):
            if t.key == f.key or t.name == "isCorrect":
                continue
            summ = _helper_summary(fb, t)
            if not summ:
                continue
            args = f.args(n)
            m = {p["name"]: render(args[i]) for i, p in enumerate(t.params) if i < len(args) and p.get("name")}
            for o, a in summ:
                o2, a2 = m.get(o, o), m.get(a, a)
                # a field name of the callee means the same object only when the helper runs on this
                if (o not in m or a not in m) and "obj" in n and render(f.obj(n)) != "this":
                    continue
                if o2 in obj_texts and (arg_text is None or a2 == arg_text):
                    sites.append(n)
    return sites


def _through(cfg, f, sites, target=None):
    """blocks whose execution establishes the guard; a site in the target's own block counts when it comes first"""
    blocks, same = set(), False
    for n in sites:
        b = cfg.stmt_block(n)
        if target is not None and b == cfg.stmt_block(target):
            same = same or e1.earlier_in_block(cfg, n, target)
        else:
            blocks.add(b)
    return blocks, same


def _d6(chk, fb):
    """half-line constructor IntervalConstraint(isPositive, bound, incl, ...): four member initialisers select on the same flag.
    In each arm the end that receives 'bound' receives 'incl' as its inclusion flag and the infinite end receives 'false'"""
    n = 0
    for f in fb.q(IC + "::IntervalConstraint"):
        if not f.rec.get("ctor") or len(f.params) < 3 or (f.params[0].get("ty") or "") != "bool":
            continue
        flag, bound, incl = f.params[0]["name"], f.params[1]["name"], f.params[2]["name"]
        ini = {}
        for i in f.rec.get("inits", []):
            if i.get("fname") in ("lowerBound_", "upperBound_", "inclLowerBound_", "inclUpperBound_") and i.get("expr") is not None:
                e = strip(f.nodes.get(i["expr"]) if isinstance(i["expr"], int) else i["expr"])
                if e["k"] == "ConditionalOperator" and render(kids(e)[0]) == flag:
                    ini[i["fname"]] = (render(kids(e)[1]), render(kids(e)[2]))
        if len(ini) != 4:
            chk.unknown("D6", f.key, "half-line-arms", f.loc(), "the four initialisers are not conditional expressions on '%s'" % flag)
            n += 1
            continue
        n += 1
        bad = None
        for arm in (0, 1):
            for b_, i_ in (("lowerBound_", "inclLowerBound_"), ("upperBound_", "inclUpperBound_")):
                finite = ini[b_][arm] == bound
                infinite = "INF" in ini[b_][arm] or "infinity" in ini[b_][arm]
                got = ini[i_][arm]
                if finite and got != incl and got in ("false", "true", incl):
                    bad = (arm, b_, i_, got, incl)
                if infinite and got != "false" and got in ("false", "true", incl):
                    bad = (arm, b_, i_, got, "false")
        if bad:
            arm, b_, i_, got, want = bad
            chk.refuted("D6", f.key, "half-line-arms", f.loc(),
                        "for %s == %s, %s is %s but %s is '%s' instead of '%s': the finite end must carry the caller's inclusion flag and the infinite end must be open" % (
                            flag, "true" if arm == 0 else "false", b_, ini[b_][arm], i_, got, want),
                        witness={"input": "IntervalConstraint(%s, b, true): isCorrect(b)" % ("true" if arm == 0 else "false")})
        else:
            chk.proved("D6", f.key, "half-line-arms", f.loc(), "in both arms the finite end gets '%s' and the infinite end 'false'" % incl)
    chk.floor("D6", "half-line constructors", n, 1)


def _init_of(f, field):
    for i in f.rec.get("inits", []):
        if i.get("field") == field:
            return i
    return None


def _classify_ctor(chk, fb, f, d):
    vi = _init_of(f, VALUE)
    ci = _init_of(f, CONS)
    if f.rec.get("copyctor"):
        src = f.params[0]["name"]
        okv = vi and render(vi["expr"]) == src + ".value_"
        okc = ci and render(ci["expr"]) == src + ".constraint_"
        if okv and okc:
            chk.proved("D1", f.key, "pair-copy", f.loc(), "value_ and constraint_ both copied from '%s'" % src)
        else:
            chk.refuted("D1", f.key, "pair-copy", f.loc(), "copy constructor does not copy value_ and constraint_ from the same source (value_: %s, constraint_: %s)" % (
                render(vi["expr"]) if vi else "-", render(ci["expr"]) if ci else "-"))
        return
    cexpr = strip(ci["expr"]) if ci else None
    null_constraint = ci is None or cexpr is None or e1._is_null(cexpr) or (cexpr["k"] == "CXXConstructExpr" and (not cexpr.get("args") or all(e1._is_null(strip(x)) for x in kids(cexpr))))
    if null_constraint:
        chk.proved("D1", f.key, "unconstrained-init", f.loc(), "constraint_ initialised null")
        return
    # constraint supplied by the caller: D2
    chk.proved("D1", f.key, "ctor-with-constraint", f.loc(), "classified; validation is rule D2")
    cfg = f.cfg
    cparam = render(ci["expr"])
    obj_texts = {"constraint_", cparam}
    # blocks that validate: explicit isCorrect guard edges are handled through guarded_by on the exit;
    # calls that always validate (summary) count as pass-through blocks
    def establishes(facts):
        return _iscorrect_fact(facts, obj_texts, None)
    validating_calls = set()
    for n in f.calls():
        for t in fb.targets(n, static_type_only=True):
            if t.qname == "bpp::Parameter::setValue" or t.name in ("setValue",):
                if _always_validates(fb, t):
                    validating_calls.add(cfg.stmt_block(n))
    for n in _validating_sites(fb, f, obj_texts, None):
        validating_calls.add(cfg.stmt_block(n))
    # every path entry -> normal exit must cross an establishing edge or a validating call
    ok, path = _must_validate(cfg, establishes, validating_calls)
    if ok:
        chk.proved("D2", f.key, "ctor-validates", f.loc(), "every path to the normal exit passes an isCorrect test")
        _stored_is_validated(chk, fb, f, obj_texts)
    else:
        calls = [render(n) for n in f.calls() if n["callee"]["name"] == "setValue"]
        chk.refuted("D2", f.key, "ctor-validates", f.loc(),
                    "a path to the normal exit installs the caller's constraint without any isCorrect test of the stored value "
                    "(value_ initialised from %s; %s does not validate when the value equals the stored one within precision/2)" % (
                        render(_init_of(f, VALUE)["expr"]) if _init_of(f, VALUE) else "?", ", ".join(calls) or "no call"),
                    witness={"blocks": path, "input": "Parameter(name, v, c) with v equal to the initialiser of value_ and c rejecting it"})


def _stored_is_validated(chk, fb, f, obj_texts):
    """the value that was tested must be the value that ends up stored: either value_ is initialised from it, or it is
    handed to setValue while precision_ is still the literal 0 (then setValue's 'unchanged within precision/2' branch means
    'equal to the stored value')"""
    cfg = f.cfg
    tested = set()
    for n in f.calls():
        if n["callee"]["name"] == "isCorrect" and "obj" in n and render(f.obj(n)) in obj_texts:
            tested.add(render(f.args(n)[0]))
    for x in {render(a) for n in f.calls() for a in f.args(n)}:
        if _validating_sites(fb, f, obj_texts, x):
            tested.add(x)
    vi = _init_of(f, VALUE)
    if vi and render(vi["expr"]) in tested:
        chk.proved("D2", f.key, "validated-is-stored", f.loc(), "value_ initialised from the tested value")
        return
    sets = [n for n in f.calls() if n["callee"]["name"] == "setValue" and render(f.obj(n)) == "this"]
    ok_calls = [n for n in sets if render(f.args(n)[0]) in tested]
    if not ok_calls:
        chk.refuted("D2", f.key, "validated-is-stored", f.loc(), "the constructor tests %s but stores a different expression" % sorted(tested))
        return
    pi = _init_of(f, "bpp::Parameter::precision_")
    pz = pi is not None and strip(pi["expr"])["k"] in ("IntegerLiteral", "FloatingLiteral") and float(strip(pi["expr"])["val"]) == 0.0
    pw = [n for n in walk(f.body) if any(x[0] == "f" and x[1] == "bpp::Parameter::precision_" for x in e1.writes_in(f, n)) and not kids(n) == []]
    pw = [n for n in f.calls() if n["callee"]["name"] == "setPrecision"] + [n for n in walk(f.body) if n["k"] in ("BinaryOperator", "CompoundAssignOperator") and render(kids(n)[0]) == "precision_" and n["op"].endswith("=") and n["op"] not in ("==", "!=", "<=", ">=")]
    early = [w for w in pw if any(e1.before_in_function(cfg, w, c) for c in ok_calls)]
    if pz and not early:
        chk.proved("D2", f.key, "validated-is-stored", f.loc(ok_calls[0]), "setValue(%s) runs while precision_ is the literal 0: the no-change branch implies equality with the stored value" % render(f.args(ok_calls[0])[0]))
    else:
        chk.refuted("D2", f.key, "validated-is-stored", f.loc(ok_calls[0]),
                    "setValue(%s) runs with a caller-supplied precision while value_ still holds its placeholder %s: a tested value within precision/2 of the placeholder is discarded and the "
                    "untested placeholder stays stored" % (render(f.args(ok_calls[0])[0]), render(vi["expr"]) if vi else "?"),
                    witness={"input": "Parameter(name, v, c, precision) with 0 < |v - placeholder| <= precision/2 and c rejecting the placeholder"})


def _must_validate(cfg, establishes, validating_blocks):
    prev = {cfg.entry: None}
    q = [cfg.entry]
    while q:
        x = q.pop(0)
        if x == cfg.exit:
            path = []
            while x is not None:
                path.append(x)
                x = prev[x]
            return False, list(reversed(path))
        if x in validating_blocks:
            continue
        for s in cfg.succ[x]:
            if s in prev:
                continue
            if s == cfg.exit and cfg.is_throw_block(x):
                continue
            if establishes(e1.edge_facts(cfg, x, s)):
                continue
            prev[s] = x
            q.append(s)
    return True, None


def _always_validates(fb, t):
    """does every path of t to its normal exit pass an isCorrect test (or a null constraint)?"""
    cfg = t.cfg
    if cfg is None:
        return False
    ok, _ = _must_validate(cfg, lambda facts: _iscorrect_fact(facts, {"constraint_"}, None), set())
    return ok


def _classify_pair_copy(chk, f, d, what):
    src = f.params[0]["name"]
    v = [n for n, k in d["v"]]
    c = [n for n, k in d["c"]]
    okv = any(render(kids(n)[1]) == src + ".value_" for n in v if n["k"] == "BinaryOperator")
    okc = False
    for n in c:
        if is_call(n) and n["callee"]["name"] == "operator=":
            a = f.args(n)
            if a and render(a[0]) == src + ".constraint_":
                okc = True
    cfg = f.cfg
    # unconditional, except for the self-assignment test 'if (this == &src) return *this;'
    selfret = set()
    for b_ in cfg.blocks:
        for s_ in cfg.succ[b_]:
            if any("this" in t_ and "&" in t_ and (("==" in t_ and tr_) or ("!=" in t_ and tr_ is False)) for t_, tr_, _ in e1.edge_facts(cfg, b_, s_)):
                selfret.add((b_, s_))

    class _V:
        pass
    view = _V()
    view.entry, view.exit, view.blocks, view.is_throw_block = cfg.entry, cfg.exit, cfg.blocks, cfg.is_throw_block
    view.succ = {b_: [s_ for s_ in cfg.succ[b_] if (b_, s_) not in selfret] for b_ in cfg.succ}
    uncond = all(e1.must_pass(view, {cfg.stmt_block(n)})[0] for n in v + c)
    if okv and okc and uncond and len(v) == 1 and len(c) == 1:
        chk.proved("D1", f.key, "pair-copy", f.loc(), "value_ and constraint_ both assigned unconditionally from '%s'" % src)
    else:
        chk.refuted("D1", f.key, "pair-copy", f.loc(), "assignment does not copy value_ and constraint_ together from the same source")


def _classify_value_store(chk, fb, f, n, kind):
    cfg = f.cfg
    if kind != "assign" or n["k"] != "BinaryOperator" or n["op"] != "=":
        chk.refuted("D1", f.key, "unclassified-value-write:" + kind, f.loc(n), "value_ modified by %s without a constraint test" % render(n))
        return
    x = render(kids(n)[1])
    blk = cfg.stmt_block(n)
    thr, same = _through(cfg, f, _validating_sites(fb, f, {"constraint_"}, x), n)
    ok, path = (True, None) if same else e1.guarded_by(cfg, blk, lambda facts: _iscorrect_fact(facts, {"constraint_"}, x), through=thr)
    # X must not be rewritten between guard and store: X must be a parameter / local never assigned
    w = e1.writes_in(f, f.body)
    rhs_reads = e1.reads_in(kids(n)[1])
    rewritten = [r for r in rhs_reads if r[0] == "v" and r in w]
    if ok and not rewritten:
        chk.proved("D1", f.key, "checked-write", f.loc(n), "store of '%s' dominated by 'constraint_ null or constraint_->isCorrect(%s)'" % (x, x))
    elif not ok:
        chk.refuted("D1", f.key, "checked-write", f.loc(n), "value_ = %s reachable without 'constraint_->isCorrect(%s)' (path through blocks %s)" % (x, x, path),
                    witness={"blocks": path})
    else:
        chk.unknown("D1", f.key, "checked-write", f.loc(n), "stored expression is modified inside the function")


def _classify_constraint_store(chk, fb, f, n, kind):
    cfg = f.cfg
    if is_call(n) and n["callee"]["name"] in ("swap", "reset") and not f.rec.get("ctor"):
        # x.swap(constraint_) / constraint_.swap(x) / constraint_.reset(): a removal when the other side is an empty smart pointer
        other = None
        if n["callee"]["name"] == "reset" and not f.args(n):
            chk.proved("D1", f.key, "null-install", f.loc(n), "constraint removed (reset())")
            return
        if n["callee"]["name"] == "swap" and "obj" in n and f.args(n):
            o, a_ = strip(f.obj(n)), strip(f.args(n)[0])
            other = a_ if "constraint_" in render(o) else o
        if other is not None and other["k"] == "DeclRefExpr" and other["decl"]["kind"] == "local":
            decl = [d for dn in f.all_nodes() if dn["k"] == "DeclStmt" for d in dn["decls"] if d["id"] == other["decl"]["id"]]
            init = decl[0].get("init") if decl else None
            empty = init is None or (strip(init)["k"] in ("CXXConstructExpr", "CXXTemporaryObjectExpr") and not [x for x in f.args(strip(init)) if render(x) != "<default>"])
            writes = [w for w in f.all_nodes() if w is not n and is_call(w) and w["callee"]["name"] in ("operator=", "reset") and "obj" in w and render(f.obj(w)) == other["decl"]["name"]]
            if empty and not writes:
                chk.proved("D1", f.key, "null-install", f.loc(n), "constraint removed (swapped with an empty pointer)")
                return
        chk.unknown("D1", f.key, "unclassified-constraint-write:" + kind, f.loc(n), "constraint_ modified by %s: not a recognised form" % render(n))
        return
    if not (is_call(n) and n["callee"]["name"] == "operator="):
        chk.refuted("D1", f.key, "unclassified-constraint-write:" + kind, f.loc(n), "constraint_ modified by %s" % render(n))
        return
    a = f.args(n)
    if a and e1._is_null(strip(a[0])) or (a and strip(a[0])["k"] == "CXXConstructExpr" and all(e1._is_null(strip(x)) for x in kids(strip(a[0])))):
        chk.proved("D1", f.key, "null-install", f.loc(n), "constraint removed")
        return
    a0 = strip(a[0]) if a else None
    if a0 is not None and is_call(a0) and a0["callee"]["name"] in ("move", "forward") and f.args(a0):
        a0 = strip(f.args(a0)[0])       # constraint_ = std::move(c) installs c
    c = render(a0) if a0 is not None else "?"
    blk = cfg.stmt_block(n)

    def est(facts):
        for text, truth, node in facts:
            if text == c and truth is False:
                return True
            nn = strip(node)
            if nn is not None and nn["k"] == "BinaryOperator" and nn.get("op") == "||" and truth:
                # 'A || B' holds: enough that each alternative on its own establishes the guard
                if all(est(e1.cond_facts(d, True)) for d in kids(nn)):
                    return True
            if nn is not None and nn["k"] == "BinaryOperator" and nn.get("op") == "&&" and truth is False:
                if all(est(e1.cond_facts(d, False)) for d in kids(nn)):
                    return True
            if is_call(node) and node["callee"]["name"] == "isCorrect" and truth:
                nodes = {x["id"]: x for x in walk(node)}
                o = render(nodes[node["obj"]]) if "obj" in node else ""
                ar = render(nodes[node["args"][0]]) if node.get("args") else ""
                if o == c and ar == "value_":
                    return True
        return False
    thr, same = _through(cfg, f, _validating_sites(fb, f, {c}, "value_"), n)
    ok, path = (True, None) if same else e1.guarded_by(cfg, blk, est, through=thr)
    if ok:
        chk.proved("D1", f.key, "guarded-install", f.loc(n), "constraint_ = %s dominated by '%s null or %s->isCorrect(value_)'" % (c, c, c))
    else:
        chk.refuted("D1", f.key, "guarded-install", f.loc(n), "constraint_ = %s reachable without testing %s->isCorrect(value_)" % (c, c), witness={"blocks": path})


def _d4c(chk, fb):
    f = fb.q1("bpp::AutoParameter::setValue")
    req = f.params[0]["name"]
    handlers = [n for n in walk(f.body) if n["k"] == "CXXCatchStmt"]
    chk.floor("D4c", "catch handlers in AutoParameter::setValue", len(handlers), 1)
    if not handlers:
        return
    h = handlers[0]
    cfg = f.cfg
    # the first store attempt after the rejection of the requested value: from the dispatch of the try statement that holds
    # Parameter::setValue(<requested>), the Parameter::setValue calls reached before any other (nested handler or a later
    # statement after a handler that falls through)
    def is_store(n):
        return is_call(n) and n["callee"]["qname"] == "bpp::Parameter::setValue"
    stores = sorted([n for n in walk(f.body) if is_store(n)], key=lambda n: n["id"])
    by_block = {}
    for n in stores:
        by_block.setdefault(cfg.stmt_block(n), []).append(n)
    for b in by_block:
        order = {e: i for i, e in enumerate(cfg.blocks[b]["el"])}
        by_block[b].sort(key=lambda n: order.get(n["id"], 1 << 30))
    attempt = [n for n in stores if render(strip(f.args(n)[0])) == req]
    disp = None
    for b in cfg.blocks.values():
        if b.get("termk") == "CXXTryStmt":
            tr = f.nodes.get(b["term"])
            if tr and kids(tr) and any(x in attempt for x in walk(kids(tr)[0])):
                disp = b["id"]
    if disp is None:
        chk.unknown("D4c", f.key, "fallback-store", f.loc(h), "no try statement around Parameter::setValue(%s): not the form this rule reads" % req)
        return
    firsts, seen, st = [], set(), [disp]
    while st:
        x = st.pop()
        if x in seen:
            continue
        seen.add(x)
        if x != disp and x in by_block:
            firsts.append(by_block[x][0])
            continue
        st.extend(cfg.succ[x])
    if not firsts:
        chk.refuted("D4c", f.key, "fallback-store", f.loc(h), "after the rejection no path stores a value")
        return
    if len(firsts) > 1:
        texts = {render(strip(f.args(n)[0])) for n in firsts}
        if len(texts) > 1:
            chk.unknown("D4c", f.key, "fallback-store", f.loc(firsts[0]), "several first store attempts after the rejection: %s" % sorted(texts))
            return
    first = firsts[0]
    arg = strip(f.args(first)[0])
    src = arg
    if arg["k"] == "DeclRefExpr" and arg["decl"]["kind"] == "local":
        for n in walk(f.body):
            if n["k"] == "DeclStmt":
                for d in n["decls"]:
                    if d["id"] == arg["decl"]["id"] and d.get("init"):
                        src = strip(d["init"])
        # the local must not be reassigned
        if any(x[0] == "v" and x[1] == arg["decl"]["id"] for x in e1.writes_in(f, f.body)):
            chk.unknown("D4c", f.key, "fallback-store", f.loc(first), "fallback local is reassigned")
            return
    text = render(src)
    if is_call(src) and src["callee"]["name"] == "getAcceptedLimit" and text == "constraint_.getAcceptedLimit(%s)" % req:
        chk.proved("D4c", f.key, "fallback-store", f.loc(first), "stores %s" % text)
    else:
        chk.refuted("D4c", f.key, "fallback-store", f.loc(first), "after a rejection the first value stored is '%s', not constraint_->getAcceptedLimit(%s)" % (text, req))
    # every store attempt goes through Parameter::setValue (D1 who-writes covers direct stores)


def _d5(chk, fb):
    g = fb.q1(IC + "::getDescription")
    r = fb.q1(IC + "::readDescription")
    emit = {}
    for n in walk(g.body):
        if n["k"] == "ConditionalOperator":
            c, a, b = kids(n)
            ct = render(c)
            if ct in ("inclLowerBound_", "inclUpperBound_"):
                sa, sb = strip(a), strip(b)
                la = [x for x in walk(a) if x["k"] == "StringLiteral"]
                lb = [x for x in walk(b) if x["k"] == "StringLiteral"]
                if la and lb:
                    emit[ct] = (la[0]["val"].strip(), lb[0]["val"].strip())
    read = {}
    for n in walk(r.body):
        if n["k"] == "BinaryOperator" and n["op"] == "=":
            l = render(kids(n)[0])
            if l in ("inclLowerBound_", "inclUpperBound_"):
                rhs = strip(kids(n)[1])
                if rhs["k"] == "BinaryOperator" and rhs["op"] in ("==", "!="):
                    lits = [x for x in walk(rhs) if x["k"] == "CharacterLiteral"]
                    if lits:
                        read[l] = (chr(lits[0]["val"]), rhs["op"] == "==")
    chk.floor("D5", "bracket table entries", len(emit) + len(read), 4)
    for fld in ("inclLowerBound_", "inclUpperBound_"):
        if fld not in emit or fld not in read:
            continue
        incl_txt, excl_txt = emit[fld]
        ch, eq = read[fld]
        want = incl_txt if eq else excl_txt
        other = excl_txt if eq else incl_txt
        if ch == want and ch != other:
            chk.proved("D5", IC + "::readDescription", "bracket:" + fld, r.loc(), "writer emits %r/%r, reader maps %r to %s" % (incl_txt, excl_txt, ch, "included" if eq else "excluded"))
        else:
            chk.refuted("D5", IC + "::readDescription", "bracket:" + fld, r.loc(),
                        "writer emits %r for an included and %r for an excluded bound, reader treats %r as %s" % (incl_txt, excl_txt, ch, "included" if eq else "excluded"))


# ------------------------------------------------------------------------------------------- D4

def _mk(lb, ub, il, iu):
    return Obj(IC, {"lowerBound_": lb, "upperBound_": ub, "inclLowerBound_": il, "inclUpperBound_": iu, "precision_": Eps(1)})


def _accepts(lb, ub, il, iu, v):
    lo = (v >= lb) if il else (v > lb)
    hi = (v <= ub) if iu else (v < ub)
    return lo and hi


def _d4(chk, fb, tier):
    names = {"isCorrect": IC + "::isCorrect", "includes": IC + "::includes", "and": IC + "::operator&", "andeq": IC + "::operator&=",
             "isEmpty": IC + "::isEmpty", "getLimit": IC + "::getLimit", "getAcceptedLimit": IC + "::getAcceptedLimit"}
    fns = {k: fb.q1(q) for k, q in names.items()}
    consts = {"bpp::NumConstants::MINF": NEG_INF, "bpp::NumConstants::PINF": POS_INF, "bpp::NumConstants::TINY": Eps(1)}

    class PrecInterp(Interp):
        # precision_ values (infinitesimals) may be compared with each other and copied
        def compare(self, op, a, b, n, fn):
            if isinstance(a, Eps) and isinstance(b, Eps):
                return {"<": a.n < b.n, ">": a.n > b.n, "<=": a.n <= b.n, ">=": a.n >= b.n, "==": a.n == b.n, "!=": a.n != b.n}[op]
            return Interp.compare(self, op, a, b, n, fn)
    ip = PrecInterp(fb, consts=consts)
    flags = list(itertools.product([True, False], repeat=2))
    stats = {k: [0, 0] for k in names}   # evaluated, failed
    first_fail = {}

    def rec(k, ok, desc):
        stats[k][0] += 1
        if not ok:
            stats[k][1] += 1
            first_fail.setdefault(k, desc)

    def call(k, this, args):
        ip.steps = 0
        return ip.call(fns[k], this, args)

    def meaningful(lb, ub):
        return lb != POS_INF and ub != NEG_INF

    one = [o for o in weak_orders(["lb", "ub"]) if meaningful(o["lb"], o["ub"])]
    n_abs = 0
    for o in one:
        lb, ub = o["lb"], o["ub"]
        for il, iu in flags:
            n_abs += 1
            ps = probes([lb, ub])
            d = "%s%s; %s%s" % ("[" if il else "]", show(lb), show(ub), "]" if iu else "[")
            acc = [v for v in ps if _accepts(lb, ub, il, iu, v)]
            for v in ps:
                got = call("isCorrect", _mk(lb, ub, il, iu), [v])
                rec("isCorrect", got == _accepts(lb, ub, il, iu, v), "%s isCorrect(%s) = %s" % (d, show(v), got))
            got = call("isEmpty", _mk(lb, ub, il, iu), [])
            rec("isEmpty", got == (len(acc) == 0), "%s isEmpty() = %s but %s" % (d, got, "no real is accepted" if not acc else "%s is accepted" % show(acc[0])))
            for a in ps:
                for b in ps:
                    if a > b:
                        continue
                    got = call("includes", _mk(lb, ub, il, iu), [a, b])
                    want = _accepts(lb, ub, il, iu, a) and _accepts(lb, ub, il, iu, b)
                    rec("includes", got == want, "%s includes(%s,%s) = %s" % (d, show(a), show(b), got))
            if acc:
                for v in ps:
                    for k in ("getLimit", "getAcceptedLimit"):
                        got = call(k, _mk(lb, ub, il, iu), [v])
                        if _accepts(lb, ub, il, iu, v):
                            rec(k, got == v, "%s %s(%s) = %s (accepted value must be returned unchanged)" % (d, k, show(v), show(got)))
                        elif k == "getLimit":
                            want = lb if v <= lb else ub
                            rec(k, got == want, "%s getLimit(%s) = %s, expected the bound %s" % (d, show(v), show(got), show(want)))
                        else:
                            # nearest accepted value: the infimum/supremum of the interval, one precision step inside an open end
                            below = v <= lb
                            want = ((lb if il else (lb[0], lb[1] + 1)) if below else (ub if iu else (ub[0], ub[1] - 1)))
                            okv = is_car(got) and got == want and _accepts(lb, ub, il, iu, got)
                            if not _accepts(lb, ub, il, iu, want):
                                continue   # interval narrower than one precision step: outside the property's quantifier
                            rec(k, okv, "%s getAcceptedLimit(%s) = %s, expected %s" % (d, show(v), show(got), show(want)))
    two = [o for o in weak_orders(["lb1", "ub1", "lb2", "ub2"]) if meaningful(o["lb1"], o["ub1"]) and meaningful(o["lb2"], o["ub2"])]
    for o in two:
        for f4 in itertools.product([True, False], repeat=4):
            n_abs += 1
            a = (o["lb1"], o["ub1"], f4[0], f4[1])
            b = (o["lb2"], o["ub2"], f4[2], f4[3])
            ps = probes([o["lb1"], o["ub1"], o["lb2"], o["ub2"]])
            d = "%s%s; %s%s & %s%s; %s%s" % ("[" if a[2] else "]", show(a[0]), show(a[1]), "]" if a[3] else "[",
                                              "[" if b[2] else "]", show(b[0]), show(b[1]), "]" if b[3] else "[")
            for k in ("and", "andeq"):
                this = _mk(*a)
                res = call(k, this, [_mk(*b)])
                if not isinstance(res, Obj):
                    rec(k, False, "%s returned no interval" % d)
                    continue
                r = res.fields
                bad = None
                for v in ps:
                    want = _accepts(*a, v) and _accepts(*b, v)
                    got = _accepts(r["lowerBound_"], r["upperBound_"], r["inclLowerBound_"], r["inclUpperBound_"], v)
                    if want != got:
                        bad = "%s gives %s%s; %s%s which %s %s" % (d, "[" if r["inclLowerBound_"] else "]", show(r["lowerBound_"]), show(r["upperBound_"]),
                                                                   "]" if r["inclUpperBound_"] else "[", "accepts" if got else "rejects", show(v))
                        break
                rec(k, bad is None, bad)
    chk.floor("D4", "interval functions interpreted", len(fns), 7)
    chk.extra["orderai"] = {"abstract_inputs": n_abs, "one_interval_order_types": len(one), "two_interval_order_types": len(two),
                            "evaluations": {k: v[0] for k, v in stats.items()}, "failures": {k: v[1] for k, v in stats.items()}, "exhaustive_for_clause_D4": True}
    for k in names:
        f = fns[k]
        if stats[k][1] == 0:
            chk.proved("D4", f.key, "order-types", f.loc(), "%d abstract cases, all agree with the set-theoretic definition" % stats[k][0])
        else:
            chk.refuted("D4", f.key, "order-types", f.loc(), "%d of %d abstract cases disagree with the set-theoretic definition; first: %s" % (stats[k][1], stats[k][0], first_fail[k]),
                        witness={"abstract_input": first_fail[k]})
