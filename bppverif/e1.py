"""E1 structural queries over the CFG: guard facts on branch edges, dominance by guards,
must-pass-through, reachability, loop progress."""
from .facts import kids, strip, walk, is_call, render, is_smart_bool

NULLS = ("CXXNullPtrLiteralExpr", "GNUNullExpr")


def _is_null(n):
    n = strip(n)
    if n is None:
        return False
    if n["k"] in NULLS:
        return True
    if n["k"] == "IntegerLiteral" and n.get("val") == 0:
        return True
    return False


def cond_facts(cond, sense):
    """facts (atom_text, truth, atom_node) that hold when `cond` evaluates to `sense`.
    Atoms: innermost non-negated conditions; pointer/smart-pointer tests are normalised to the
    atom '<ptr>' meaning 'non-null'."""
    out = []
    n = cond
    # peel wrappers but keep boolean conversions
    while True:
        s = n
        if s["k"] in ("ParenExpr", "ExprWithCleanups", "MaterializeTemporaryExpr", "CXXBindTemporaryExpr", "ConstantExpr"):
            n = kids(s)[0]
            continue
        if s["k"] == "ImplicitCastExpr":
            if s.get("cast") == "PointerToBoolean":
                out.append((render(kids(s)[0]), sense, kids(s)[0]))
                return out
            n = kids(s)[0]
            continue
        break
    k = n["k"]
    if k == "UnaryOperator" and n["op"] == "!":
        return cond_facts(kids(n)[0], not sense)
    if k == "BinaryOperator" and n["op"] == "&&":
        if sense:
            return cond_facts(kids(n)[0], True) + cond_facts(kids(n)[1], True)
        return [(render(n), False, n)]        # not decomposable: kept as one atom (a rule may inspect its operands)
    if k == "BinaryOperator" and n["op"] == "||":
        if not sense:
            return cond_facts(kids(n)[0], False) + cond_facts(kids(n)[1], False)
        return [(render(n), True, n)]
    if is_smart_bool(n):
        o = [x for x in walk(n) if x["id"] == n["obj"]][0]
        return [(render(o), sense, o)]
    # x == nullptr / x != nullptr (builtin or shared_ptr operator)
    a = b = None
    op = None
    if k == "BinaryOperator" and n["op"] in ("==", "!="):
        a, b = kids(n)
        op = n["op"]
    elif is_call(n) and n["callee"]["via"] == "operator" and n.get("op") in ("==", "!="):
        ids = ([n["obj"]] if "obj" in n else []) + n.get("args", [])
        nodes = {x["id"]: x for x in walk(n)}
        if len(ids) == 2:
            a, b = nodes[ids[0]], nodes[ids[1]]
            op = n["op"]
    if op:
        if _is_null(b):
            return [(render(a), sense == (op == "!="), a)]
        if _is_null(a):
            return [(render(b), sense == (op == "!="), b)]
    out.append((render(n), sense, n))
    # relational atoms also give the negated/flipped form for matching
    return out


def _named_conditions(fn):
    """'const bool ok = <condition>;' locals of fn: decl id -> initialiser (a test stated once and branched on by name)"""
    c = getattr(fn, "_named_conds", None)
    if c is None:
        c = {}
        for n in fn.all_nodes():
            if n["k"] == "DeclStmt":
                for d in n["decls"]:
                    if d.get("init") is not None and d.get("ty") == "const bool":
                        c[d["id"]] = d["init"]
        fn._named_conds = c
    return c


def edge_facts(cfg, a, b):
    ec = cfg.edge_cond(a, b)
    if not ec:
        return []
    out = cond_facts(ec[0], ec[1])
    # a branch on a named condition carries the facts of the condition it names
    named = _named_conditions(cfg.fn)
    if named:
        extra = []
        for text, truth, node in out:
            nn = strip(node)
            if nn is not None and nn["k"] == "DeclRefExpr" and nn["decl"]["id"] in named:
                extra += cond_facts(named[nn["decl"]["id"]], truth)
        out = out + extra
    return out


def guarded_by(cfg, target_block, establishes, entry=None, through=()):
    """True iff every path entry -> target_block crosses an edge for which establishes(facts) is true, or a block of
    'through' (a block whose execution establishes the guard, e.g. a call of a helper that returns only when it holds).
    Returns (ok, unguarded_path) ; path is a list of block ids when not ok"""
    entry = cfg.entry if entry is None else entry
    # BFS avoiding establishing edges
    prev = {entry: None}
    q = [entry]
    while q:
        x = q.pop(0)
        if x == target_block:
            path = []
            while x is not None:
                path.append(x)
                x = prev[x]
            return False, list(reversed(path))
        if x in through:
            continue
        for s in cfg.succ[x]:
            if s in prev:
                continue
            if establishes(edge_facts(cfg, x, s)):
                continue
            prev[s] = x
            q.append(s)
    return True, None


def path_exists(cfg, src, dst, avoid_blocks=(), avoid_edges=()):
    seen = set()
    st = [src]
    while st:
        x = st.pop()
        if x == dst:
            return True
        if x in seen:
            continue
        seen.add(x)
        for s in cfg.succ[x]:
            if s in avoid_blocks or (x, s) in avoid_edges:
                continue
            st.append(s)
    return False


def reach_with_state(fn, cfg, targets, avoid_blocks=(), blocking=None, cap=3, budget=20000):
    """path-sensitive reachability over (block, state): the state holds the literal value of boolean locals and the small
    concrete value (0..cap) of integer locals that are only initialised with a literal and stepped by ++/--/+= literal.  A branch
    on a tracked flag, or a comparison of a tracked counter with a literal, is followed only in the direction its state allows;
    every other branch (data tests) is free.  An edge for which blocking(facts) is true is not taken.
    Returns a list of block ids entry -> a block of `targets` avoiding `avoid_blocks`, or None"""
    TOP = "?"

    def apply(blk, env):
        env = dict(env)
        for e in cfg.blocks[blk]["el"]:
            n = fn.nodes.get(e)
            if n is None:
                continue
            k = n["k"]
            if k == "DeclStmt":
                for d in n["decls"]:
                    ini = strip(d["init"]) if d.get("init") is not None else None
                    ty = (d.get("ty") or "").replace("const ", "")
                    if ty == "bool":
                        env[d["id"]] = bool(ini["val"]) if ini is not None and ini["k"] == "CXXBoolLiteralExpr" else TOP
                    elif ty in ("size_t", "unsigned int", "int", "unsigned long", "long", "std::size_t"):
                        while ini is not None and ini["k"] in ("CXXConstructExpr", "CXXFunctionalCastExpr", "CStyleCastExpr", "CXXStaticCastExpr") and kids(ini):
                            ini = strip(kids(ini)[0])
                        env[d["id"]] = int(ini["val"]) if ini is not None and ini["k"] == "IntegerLiteral" and int(ini["val"]) <= cap else TOP
            elif k in ("BinaryOperator", "CompoundAssignOperator") and n.get("op") in ("=", "+=", "-="):
                l = strip(kids(n)[0])
                if l["k"] == "DeclRefExpr" and l["decl"]["id"] in env:
                    r = strip(kids(n)[1])
                    cur = env[l["decl"]["id"]]
                    if n["op"] == "=" and r["k"] == "CXXBoolLiteralExpr":
                        env[l["decl"]["id"]] = bool(r["val"])
                    elif n["op"] == "=" and r["k"] == "IntegerLiteral" and int(r["val"]) <= cap:
                        env[l["decl"]["id"]] = int(r["val"])
                    elif n["op"] in ("+=", "-=") and r["k"] == "IntegerLiteral" and isinstance(cur, int) and not isinstance(cur, bool):
                        v = cur + int(r["val"]) * (1 if n["op"] == "+=" else -1)
                        env[l["decl"]["id"]] = v if 0 <= v <= cap else TOP
                    else:
                        env[l["decl"]["id"]] = TOP
            elif k == "UnaryOperator" and n.get("op") in ("++", "--"):
                l = strip(kids(n)[0])
                if l["k"] == "DeclRefExpr" and l["decl"]["id"] in env:
                    cur = env[l["decl"]["id"]]
                    if isinstance(cur, int) and not isinstance(cur, bool):
                        v = cur + (1 if n["op"] == "++" else -1)
                        env[l["decl"]["id"]] = v if 0 <= v <= cap else TOP
                    else:
                        env[l["decl"]["id"]] = TOP
            elif is_call(n):
                # a tracked local handed to a callee by non-const reference is no longer known
                pt = n["callee"].get("ptypes") or []
                for idx, a in enumerate(fn.args(n)):
                    sa = strip(a)
                    if sa is not None and sa["k"] == "DeclRefExpr" and sa["decl"]["id"] in env and idx < len(pt) and pt[idx].endswith("&") and not pt[idx].startswith("const "):
                        env[sa["decl"]["id"]] = TOP
        return env

    def allowed(a, b, env):
        facts_ = edge_facts(cfg, a, b)
        if blocking is not None and blocking(facts_):
            return False
        for t, tr, nd in facts_:
            nd = strip(nd)
            if nd is None:
                continue
            if nd["k"] == "DeclRefExpr" and isinstance(env.get(nd["decl"]["id"]), bool) and env[nd["decl"]["id"]] != tr:
                return False
            if nd["k"] == "BinaryOperator" and nd.get("op") in ("==", "!=", "<", ">", "<=", ">="):
                l_, r_ = strip(kids(nd)[0]), strip(kids(nd)[1])
                op = nd["op"]
                if r_["k"] == "DeclRefExpr" and l_["k"] == "IntegerLiteral":
                    l_, r_ = r_, l_
                    op = {"<": ">", ">": "<", "<=": ">=", ">=": "<="}.get(op, op)
                if l_["k"] == "DeclRefExpr" and r_["k"] == "IntegerLiteral":
                    cur = env.get(l_["decl"]["id"])
                    if isinstance(cur, int) and not isinstance(cur, bool):
                        c_ = int(r_["val"])
                        val = {"==": cur == c_, "!=": cur != c_, "<": cur < c_, ">": cur > c_, "<=": cur <= c_, ">=": cur >= c_}[op]
                        if val != tr:
                            return False
        return True

    targets = set(targets)
    start = (cfg.entry, ())
    prev = {start: None}
    q = [start]
    while q and budget > 0:
        budget -= 1
        st = q.pop(0)
        b, envt = st
        if b in targets:
            path = []
            while st is not None:
                path.append(st[0])
                st = prev[st]
            return path[::-1]
        env = apply(b, dict(envt))
        for s_ in cfg.succ[b]:
            if s_ in avoid_blocks and s_ not in targets:
                continue
            if not allowed(b, s_, env):
                continue
            nst = (s_, tuple(sorted(env.items(), key=lambda kv: kv[0])))
            if nst not in prev:
                prev[nst] = st
                q.append(nst)
    return None


def blocks_with(cfg, pred):
    """blocks containing a CFG element satisfying pred(node)"""
    out = set()
    for b in cfg.blocks.values():
        for e in b["el"]:
            n = cfg.fn.nodes.get(e)
            if n is not None and pred(n):
                out.add(b["id"])
                break
    return out


def normal_exit_preds(cfg):
    """predecessor blocks of the exit block that leave normally (not by throw)"""
    return [p for p in cfg.pred[cfg.exit] if not cfg.is_throw_block(p)]


def must_pass(cfg, through_blocks, start=None):
    """every path start -> normal exit passes one of through_blocks.
    Returns (ok, witness path)."""
    start = cfg.entry if start is None else start
    prev = {start: None}
    q = [start]
    if start in through_blocks:
        return True, None
    while q:
        x = q.pop(0)
        if x == cfg.exit:
            path = []
            while x is not None:
                path.append(x)
                x = prev[x]
            return False, list(reversed(path))
        for s in cfg.succ[x]:
            if s in prev or s in through_blocks:
                continue
            if s == cfg.exit and cfg.is_throw_block(x):
                continue
            prev[s] = x
            q.append(s)
    return True, None


def before_in_function(cfg, a, b):
    """statement a can execute before statement b on some path (a's block reaches b's block, or
    same block and a earlier)"""
    ba, bb = cfg.stmt_block(a), cfg.stmt_block(b)
    if ba is None or bb is None:
        return None
    if ba == bb:
        el = cfg.blocks[ba]["el"]
        ia = _elem_index(cfg, el, a)
        ib = _elem_index(cfg, el, b)
        if ia is not None and ib is not None and ia < ib:
            return True
        # same block reachable again through a cycle
        return any(path_exists(cfg, s, ba) for s in cfg.succ[ba])
    return path_exists(cfg, ba, bb)


def earlier_in_block(cfg, a, b):
    """a and b are evaluated in the same basic block and a comes first"""
    ba, bb = cfg.stmt_block(a), cfg.stmt_block(b)
    if ba is None or ba != bb:
        return False
    el = cfg.blocks[ba]["el"]
    ia, ib = _elem_index(cfg, el, a), _elem_index(cfg, el, b)
    return ia is not None and ib is not None and ia < ib


def _elem_index(cfg, el, n):
    x = n
    while x is not None:
        if x["id"] in el:
            return el.index(x["id"])
        x = cfg.fn.parent.get(x["id"])
    return None


def natural_loops(cfg):
    """back edges t->h with h dominating t; returns {h: set(blocks)}"""
    loops = {}
    for t in cfg.blocks:
        for h in cfg.succ[t]:
            if cfg.dominates(h, t):
                body = loops.setdefault(h, {h})
                st = [t]
                while st:
                    x = st.pop()
                    if x in body:
                        continue
                    body.add(x)
                    st.extend(cfg.pred[x])
    return loops


def writes_in(fn, node, fb=None, depth=2, _seen=None):
    """conservative set of written things under `node`: local decl ids ('v', id), fields ('f', qname),
    plus ('obj', render) for non-const method calls / non-const reference arguments."""
    out = set()
    for n in walk(node):
        k = n["k"]
        if k in ("BinaryOperator", "CompoundAssignOperator") and n["op"].endswith("=") and n["op"] not in ("==", "!=", "<=", ">="):
            out |= _lhs(kids(n)[0])
        elif k == "UnaryOperator" and n["op"] in ("++", "--"):
            out |= _lhs(kids(n)[0])
        elif is_call(n):
            c = n["callee"]
            nodes = None
            if "obj" in n and not c.get("const") and not c.get("static"):
                nodes = {x["id"]: x for x in walk(n)}
                out |= _lhs(nodes[n["obj"]])
            pts = c["ptypes"]
            for i, aid in enumerate(n.get("args", [])):
                if i < len(pts) and pts[i].endswith("&") and not pts[i].endswith("&&") and not pts[i].startswith("const "):
                    nodes = nodes or {x["id"]: x for x in walk(n)}
                    out |= _lhs(nodes[aid])
    return out


def _lhs(n):
    n = strip(n)
    out = set()
    if n is None:
        return out
    k = n["k"]
    if k == "DeclRefExpr":
        out.add(("v", n["decl"]["id"], n["decl"]["name"]))
    elif k == "MemberExpr":
        if n["member"]["kind"] == "field":
            out.add(("f", n["member"]["qname"], n["member"]["name"]))
            if not n["member"]["this"]:
                out |= _lhs(kids(n)[0])
    elif k in ("ArraySubscriptExpr",):
        out |= _lhs(kids(n)[0])
    elif k == "UnaryOperator" and n["op"] == "*":
        out |= _lhs(kids(n)[0])
    elif is_call(n) and "obj" in n:
        # element access v[i], *it, it->x : writing through it mutates the object
        for x in walk(n):
            if x["id"] == n["obj"]:
                out |= _lhs(x)
                break
    return out


def reads_in(node):
    out = set()
    for n in walk(node):
        if n["k"] == "DeclRefExpr" and n["decl"]["kind"] in ("local", "param", "staticlocal"):
            out.add(("v", n["decl"]["id"], n["decl"]["name"]))
        elif n["k"] == "MemberExpr" and n["member"]["kind"] == "field":
            out.add(("f", n["member"]["qname"], n["member"]["name"]))
    return out


def loop_facts(cfg, head, body):
    """for every block of a natural loop: the branch facts (text, truth) that hold on every path from
    the loop head to that block within one iteration (forward must-analysis, intersection at joins).
    Handles nested ifs and the 'if (c) continue;' idiom alike."""
    TOP = None
    facts = {b: TOP for b in body}
    facts[head] = frozenset()
    changed = True
    while changed:
        changed = False
        for b in body:
            if b == head:
                continue
            acc = TOP
            for p in cfg.pred[b]:
                if p not in body or facts[p] is TOP:
                    continue
                if b == head:
                    continue
                f = set(facts[p]) | {(t, tr) for t, tr, _ in edge_facts(cfg, p, b)}
                acc = f if acc is TOP else (acc & f)
            if acc is not TOP and (facts[b] is TOP or frozenset(acc) != facts[b]):
                facts[b] = frozenset(acc)
                changed = True
    return {b: (set(f) if f is not TOP else set()) for b, f in facts.items()}


# ---------------------------------------------------------------------------------------------
# effect summaries and loop progress

PURE_STD_FREE = ("std::min", "std::max", "std::abs", "std::operator==", "std::operator!=", "std::operator<", "std::operator+", "std::move", "std::forward",
                 "std::isnan", "std::isinf", "std::log", "std::exp", "std::sqrt", "std::pow", "std::fabs", "std::floor", "std::ceil", "std::get", "std::make_shared",
                 "std::make_pair", "std::distance", "std::to_string", "std::find", "std::count")


# non-const std members that only hand out access (a write through the result is seen at the assignment)
NONMUTATING_STD = {"operator[]", "at", "begin", "end", "rbegin", "rend", "cbegin", "cend", "front", "back", "find", "data", "get", "operator*", "operator->",
                   "lower_bound", "upper_bound", "equal_range", "c_str", "size", "empty", "count", "first", "second", "operator bool", "str", "good", "eof", "fail"}


def _root_decl(n):
    """the variable / field an lvalue expression is rooted at: ('v', id, name) | ('f', qname, name) | ('this',) | None"""
    n = strip(n)
    while n is not None:
        k = n["k"]
        if k == "DeclRefExpr":
            return ("v", n["decl"]["id"], n["decl"]["name"])
        if k == "MemberExpr":
            if n["member"]["kind"] == "field":
                if n["member"]["this"]:
                    return ("f", n["member"]["qname"], n["member"]["name"])
                n = strip(kids(n)[0])
                continue
            n = strip(kids(n)[0]) if kids(n) else None
            continue
        if k == "CXXThisExpr":
            return ("this",)
        if k in ("ArraySubscriptExpr",) or (k == "UnaryOperator" and n["op"] in ("*", "&")):
            n = strip(kids(n)[0])
            continue
        if is_call(n) and "obj" in n:
            nodes = {x["id"]: x for x in walk(n)}
            n = strip(nodes[n["obj"]])
            continue
        return None
    return None


class Effects:
    """may-write summaries of functions: set of roots written ('f', field) / ('this',) / ('p', index) / ('global',)"""

    def __init__(self, fb, depth=3):
        self.fb = fb
        self.depth = depth
        self.memo = {}

    def call_effect(self, f, n, depth=None):
        """roots (in the caller's frame) possibly written by call node n of function f"""
        depth = self.depth if depth is None else depth
        c = n["callee"]
        out = set()
        nodes = None

        def node(i):
            nonlocal nodes
            if nodes is None:
                nodes = {x["id"]: x for x in walk(n)}
            return nodes[i]
        targets = self.fb.targets(n) if c.get("inrepo") else []
        if c.get("inrepo") and targets and depth > 0:
            for t in targets:
                s = self.summary(t, depth - 1)
                for r in s:
                    if r[0] == "this":
                        if "obj" in n:
                            rd = _root_decl(node(n["obj"]))
                            out.add(rd if rd else ("unknown",))
                        else:
                            out.add(("this",))
                    elif r[0] == "f":
                        # field of the callee's object: a write to the caller's object expression; when that object is the
                        # caller's own 'this' the field keeps its name
                        if "obj" in n:
                            rd = _root_decl(node(n["obj"]))
                            out.add(r if rd == ("this",) else (rd if rd else ("unknown",)))
                        else:
                            out.add(r)
                    elif r[0] == "p":
                        a = n.get("args", [])
                        if r[1] < len(a):
                            rd = _root_decl(node(a[r[1]]))
                            if rd:
                                out.add(rd)
                    else:
                        out.add(r)
            return out
        # no body available: const methods and known pure free functions write nothing reachable;
        # non-const methods write their object; non-const reference parameters are written
        if "obj" in n and not c.get("const") and not c.get("static") and c["via"] != "ctor" and not (not c.get("inrepo") and c["name"] in NONMUTATING_STD):
            rd = _root_decl(node(n["obj"]))
            out.add(rd if rd else ("unknown",))
        pts = c["ptypes"]
        for i, aid in enumerate(n.get("args", [])):
            if i < len(pts) and pts[i].endswith("&") and not pts[i].endswith("&&") and not pts[i].startswith("const "):
                rd = _root_decl(node(aid))
                if rd:
                    out.add(rd)
        if c.get("inrepo") and not targets and not c.get("const") and c["via"] == "free":
            out.add(("unknown",))
        return out

    def summary(self, fn, depth):
        key = (fn.key, depth)
        if key in self.memo:
            return self.memo[key]
        self.memo[key] = set()     # recursion guard
        out = set()
        pidx = {p["id"]: i for i, p in enumerate(fn.params)}
        locals_ = set()
        for n in walk(fn.body):
            if n["k"] == "DeclStmt":
                for d in n["decls"]:
                    locals_.add(d["id"])

        # locals that point into something longer-lived: iterators / references / pointers initialised from an expression rooted
        # at a field, a parameter or another such local (auto it = table_.find(k); auto& row = table_[k];)
        into = {}
        for n in walk(fn.body):
            if n["k"] == "DeclStmt":
                for d in n["decls"]:
                    ty = d.get("ty") or ""
                    if d.get("init") is not None and ("iterator" in ty or ty.endswith("&") or ty.endswith("*")) and not ty.startswith("const ") and "const_iterator" not in ty:
                        r0 = _root_decl(d["init"])
                        if r0 is not None and not (r0[0] == "v" and r0[1] == d["id"]):
                            into[d["id"]] = r0
            elif is_call(n) and n["callee"]["name"] == "operator=" and "obj" in n and n.get("args"):
                o = strip(fn.obj(n))
                if o is not None and o["k"] == "DeclRefExpr" and "iterator" in (o["decl"].get("ty") or "") and "const_iterator" not in (o["decl"].get("ty") or ""):
                    r0 = _root_decl(fn.args(n)[0])
                    if r0 is not None and o["decl"]["id"] not in into and not (r0[0] == "v" and r0[1] == o["decl"]["id"]):
                        into[o["decl"]["id"]] = r0

        def add(rd, depth_=0):
            if rd is None:
                return
            if rd[0] == "v" and rd[1] in into and depth_ < 4:
                add(into[rd[1]], depth_ + 1)
                return
            if rd[0] == "v":
                if rd[1] in pidx:
                    pt = fn.params[pidx[rd[1]]]["ty"]
                    if (pt.endswith("&") and not pt.startswith("const ")) or pt.endswith("*"):
                        out.add(("p", pidx[rd[1]]))
                elif rd[1] not in locals_:
                    out.add(("global",))
            else:
                out.add(rd)
        for n in fn.all_nodes():
            k = n["k"]
            if k in ("BinaryOperator", "CompoundAssignOperator") and n.get("op", "").endswith("=") and n["op"] not in ("==", "!=", "<=", ">="):
                add(_root_decl(kids(n)[0]))
            elif k == "UnaryOperator" and n["op"] in ("++", "--"):
                add(_root_decl(kids(n)[0]))
            elif is_call(n):
                for r in self.call_effect(fn, n, depth):
                    add(r)
        if fn.rec.get("ctor"):
            out = {r for r in out if r[0] not in ("f", "this")} | set()
        self.memo[key] = out
        return out


def block_effects(fn, cfg, b, eff, loop_locals):
    """roots written by the statements of block b that outlive one loop iteration"""
    out = set()
    for e in cfg.blocks[b]["el"]:
        n = fn.nodes.get(e)
        if n is None:
            continue
        k = n["k"]
        roots = set()
        if k in ("BinaryOperator", "CompoundAssignOperator") and n.get("op", "").endswith("=") and n["op"] not in ("==", "!=", "<=", ">="):
            roots.add(_root_decl(kids(n)[0]))
        elif k == "UnaryOperator" and n["op"] in ("++", "--"):
            roots.add(_root_decl(kids(n)[0]))
        elif is_call(n):
            roots |= eff.call_effect(fn, n)
        for r in roots:
            if r is None:
                continue
            if r[0] == "v" and r[1] in loop_locals:
                continue
            out.add(r)
    return out


def loop_local_decls(fn, cfg, body):
    """variables declared inside the loop body (they do not carry state round the back edge)"""
    out = set()
    for b in body:
        for e in cfg.blocks[b]["el"]:
            n = fn.nodes.get(e)
            if n is not None and n["k"] == "DeclStmt":
                for d in n["decls"]:
                    out.add(d["id"])
    return out


def _path_feasible(fn, cfg, path):
    """cheap infeasibility filter: boolean locals with a known literal value along the path must agree with the branch taken"""
    env = {}
    snap = {}          # local id -> text of the expression it was initialised with on this path (a snapshot such as X.size())
    for a, b in zip(path, path[1:]):
        for e in cfg.blocks[a]["el"]:
            n = fn.nodes.get(e)
            if n is None:
                continue
            if n["k"] == "DeclStmt":
                for d in n["decls"]:
                    if d.get("ty") in ("bool", "const bool") and d.get("init") is not None and strip(d["init"])["k"] == "CXXBoolLiteralExpr":
                        env[d["id"]] = bool(strip(d["init"])["val"])
                    elif d.get("init") is not None and (d.get("ty") or "").startswith("const ") and any(is_call(x) and x["callee"].get("const") for x in walk(d["init"])):
                        snap[d["id"]] = render(d["init"])
            elif n["k"] == "BinaryOperator" and n["op"] == "=":
                l = strip(kids(n)[0])
                if l["k"] == "DeclRefExpr" and l["decl"].get("ty") in ("bool", "const bool"):
                    r = strip(kids(n)[1])
                    if r["k"] == "CXXBoolLiteralExpr":
                        env[l["decl"]["id"]] = bool(r["val"])
                    else:
                        env.pop(l["decl"]["id"], None)
        for t, tr, nd in edge_facts(cfg, a, b):
            nd = strip(nd)
            if nd["k"] == "DeclRefExpr" and nd["decl"]["id"] in env and env[nd["decl"]["id"]] != tr:
                return False
            # a snapshot compared with the expression it was taken from: the path under test writes nothing that outlives the
            # iteration, so both sides are equal ('X.size() != sizeBefore' is false on it)
            if nd["k"] == "BinaryOperator" and nd.get("op") in ("==", "!=", "<", ">", "<=", ">="):
                l_, r_ = strip(kids(nd)[0]), strip(kids(nd)[1])
                for x_, y_ in ((l_, r_), (r_, l_)):
                    if x_["k"] == "DeclRefExpr" and x_["decl"]["id"] in snap and snap[x_["decl"]["id"]] == render(y_):
                        val = nd["op"] in ("==", "<=", ">=")
                        if val != tr:
                            return False
    return True


def stuck_cycle(fn, cfg, head, body, eff):
    """a feasible cyclic path head -> head inside the loop on which nothing that outlives the iteration is written:
    once taken it repeats forever (definite non-termination). Returns the path or None."""
    ll = loop_local_decls(fn, cfg, body)
    effect = {b: block_effects(fn, cfg, b, eff, ll) for b in body}
    if effect[head]:
        return None
    found = []

    def dfs(x, path, seen, budget=[4000]):
        if found or budget[0] <= 0:
            return
        budget[0] -= 1
        for s_ in cfg.succ[x]:
            if s_ == head:
                p = path + [head]
                if _path_feasible(fn, cfg, p):
                    found.append(p)
                    return
                continue
            if s_ in body and s_ not in seen and not effect.get(s_):
                dfs(s_, path + [s_], seen | {s_})
                if found:
                    return
    dfs(head, [head], {head})
    return found[0] if found else None


def lift_to_call_sites(f, n):
    """a node written inside the body of a local lambda (auto L = [..]{ ... n ... };) executes where L is invoked: the
    operator() calls on L elsewhere in the function; a node outside any lambda is returned as it is.  None when the node sits in
    a lambda that is not bound to a local (passed straight to an algorithm): the caller decides"""
    lam = f.enclosing(n, ("LambdaExpr",))
    if lam is None:
        return [n]
    decl = None
    for d in f.all_nodes():
        if d["k"] == "DeclStmt":
            for x in d["decls"]:
                if x.get("init") is not None and any(y is lam for y in walk(x["init"])):
                    decl = x
    if decl is None:
        return None
    out = []
    for c in f.calls():
        if c["callee"]["name"] == "operator()" and "obj" in c:
            o = strip(f.obj(c))
            if o["k"] == "DeclRefExpr" and o["decl"]["id"] == decl["id"] and f.enclosing(c, ("LambdaExpr",)) is not lam:
                out.append(c)
    return out


def inline_render(fb, f, n, sub=None, depth=2):
    """render(n) with calls of single-return helpers of the library replaced by their returned expression (parameters
    replaced by the argument texts); used to compare what a statement computes after 'extract helper' refactorings"""
    import re as _re
    n0 = strip(n)
    if depth > 0 and is_call(n0) and n0["callee"].get("inrepo") and n0["callee"].get("via") not in ("operator", "ctor"):
        ts = [t for t in fb.targets(n0, static_type_only=True) if t.body is not None]
        if len(ts) == 1:
            t = ts[0]
            stmts = [x for x in kids(t.body)]
            if len(stmts) == 1 and stmts[0]["k"] == "ReturnStmt" and kids(stmts[0]):
                text = inline_render(fb, t, kids(stmts[0])[0], None, depth - 1)
                args = f.args(n0)
                for i, p_ in enumerate(t.params):
                    if i < len(args) and p_.get("name"):
                        text = _re.sub(r"\\b%s\\b" % _re.escape(p_["name"]), inline_render(fb, f, args[i], sub, depth - 1).replace("\\", "\\\\"), text)
                return text
    return render(n0, sub)


def rangefor_vars(f):
    """loop variable of every range-for of f: declaration id -> the expression ranged over"""
    out = {}
    for rf in f.all_nodes():
        if rf["k"] == "CXXForRangeStmt" and "rangeinit" in rf and "loopvar" in rf:
            ri = f.nodes.get(rf["rangeinit"]) if isinstance(rf["rangeinit"], int) else rf["rangeinit"]
            lv = f.nodes.get(rf["loopvar"]) if isinstance(rf["loopvar"], int) else rf["loopvar"]
            if ri is None or lv is None:
                continue
            for d in (lv.get("decls") or [lv]):
                if "id" in d:
                    out[d["id"]] = ri
    return out
