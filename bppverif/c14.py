"""C14 Graph and object-association views stay consistent with a reference model.

 D1 no inserting read: nodeStructure_[k] / edgeStructure_[k] used as a value is dominated by an existence guard on k
 D2 undirected symmetry: unlink undoes under '!directed_' what link does under '!directed_' (mirrored helper calls)
 D3 deletion notifies: every non-private GlobalGraph member that erases a node (edge) entry reaches notifyDeletedNodes (Edges)
 D4 forget in every map: an observer function that removes an object from the object->id map also removes it from the index maps
 D5 observer assignment: members re-populated by insertion are cleared first; the old graph is unsubscribed before subjectGraph_ changes
 D6 inverse maps: paired writes to (object->id, id->object) and (object->index, index->object) are mutually inverse
"""
import re
from .facts import kids, strip, walk, is_call, render, local_inits, AnalysisBroken
from . import e1

EXPLANATION = ("Static analysis of structural clauses of C14 on GlobalGraph.cpp and the instantiated AssociationGraphImplObserver: D1 operator[] on the node/edge tables used as a value "
               "(which inserts a phantom entry when the key is absent) is dominated by nodeMustExist_/edgeMustExist_ or a checked find on the same key; D2 link and unlink perform mirrored helper "
               "calls under the same '!directed_' guard; D3 each non-private member erasing from nodeStructure_ / edgeStructure_ (directly or through a private helper) reaches the matching observer "
               "notification afterwards; D4 observer functions dropping an object from NToGraphid_/EToGraphid_ also drop it from the index maps; D5 operator= clears what it refills and unsubscribes from the "
               "previous graph; D6 writes to the paired inverse maps agree (same key/value pair). NOT decided: agreement with a reference multigraph over histories, iterator contents, "
               "unchecked find() results on absent nodes in protected members (undefined behaviour that libstdc++ tolerates: reported as UNKNOWN).")

G = "bpp::GlobalGraph"
OBS = "bpp::AssociationGraphImplObserver<NN, EE, bpp::GlobalGraph>"
INVERSE = {"linkInNodeStructure_": "unlinkInNodeStructure_", "linkInEdgeStructure_": "unlinkInEdgeStructure_"}
PAIRS = [("NToGraphid_", "graphidToN_"), ("EToGraphid_", "graphidToE_"), ("NToIndex_", "indexToN_"), ("EToIndex_", "indexToE_")]


def instantiations(fb, headers):
    return ("struct NN { int x; }; struct EE { int y; };\n"
            "template class bpp::AssociationGraphImplObserver<NN, EE, bpp::GlobalGraph>;\n")


def _graph_fns(fb):
    return [f for f in fb.concrete_fns() if f.cls == G and f.body is not None and f.cfg is not None]


def _d1(chk, fb):
    n = 0
    for f in _graph_fns(fb):
        cfg = f.cfg
        for c in f.calls():
            if c["callee"]["name"] != "operator[]" or "obj" not in c or "map" not in c["callee"].get("cls", "") + c["callee"]["qname"]:
                continue
            tab = render(f.obj(c))
            if tab not in ("nodeStructure_", "edgeStructure_"):
                continue
            # value use? (not the left-hand side of an assignment)
            p = f.parent.get(c["id"])
            x = c
            while p is not None and p["k"] in ("ImplicitCastExpr", "ParenExpr", "MaterializeTemporaryExpr"):
                x, p = p, f.parent.get(p["id"])
            is_lhs = p is not None and ((p["k"] == "BinaryOperator" and p["op"] == "=" and kids(p)[0] is x) or (is_call(p) and p["callee"]["name"] == "operator=" and p.get("obj") == x["id"]))
            if is_lhs:
                continue
            n += 1
            key = render(f.args(c)[0])
            guard = "edgeMustExist_" if tab == "edgeStructure_" else "nodeMustExist_"
            guards = [g for g in f.calls() if g["callee"]["name"] == guard and f.args(g) and render(f.args(g)[0]) == key]
            ok = any(cfg.dominates(cfg.stmt_block(g), cfg.stmt_block(c)) and e1.before_in_function(cfg, g, c) for g in guards)
            if not ok:
                ok, _ = e1.guarded_by(cfg, cfg.stmt_block(c), lambda facts: any(re.match(r"\(.*%s\.find\(%s\).* != %s\.end\(\)\)" % (tab, re.escape(key), tab), t) and tr for t, tr, _ in facts))
            if ok:
                chk.proved("D1", f.key, "inserting-read:%s[%s]" % (tab, key), f.loc(c), "dominated by %s(%s)" % (guard, key))
            else:
                chk.refuted("D1", f.key, "inserting-read:%s[%s]" % (tab, key), f.loc(c),
                            "%s[%s] is read without an existence guard: for an absent %s the table silently gains a phantom entry (std::map::operator[] inserts) before anything raises" % (tab, key, "edge" if tab == "edgeStructure_" else "node"),
                            witness={"input": "an id that is not (or no longer) in the graph"})
    # the rule is about a hazard (operator[] inserts): a tree without any such read satisfies it.  What must not vanish is the
    # anchor itself - look-ups of the two tables in the graph class, in whatever spelling
    lookups = 0
    for f in _graph_fns(fb):
        if f.body is None:
            continue
        for c in f.calls():
            if c["callee"]["name"] in ("operator[]", "find", "at", "count") and "obj" in c and render(f.obj(c)).replace("this.", "") in ("nodeStructure_", "edgeStructure_"):
                lookups += 1
    if n == 0:
        chk.proved("D1", G, "no-inserting-read", "", "no value read of nodeStructure_/edgeStructure_ goes through operator[] (%d look-ups by find/at/count)" % lookups)
    chk.floor("D1", "look-ups of the node/edge tables in the graph class", lookups, 10)


def _guarded_calls(fb, f, name, depth=1):
    """calls of helper `name` made by f (directly, or inside a same-class helper that f calls: arguments translated back to
    f's terms) with (argument texts, whether only reachable when the graph is undirected)"""
    cfg = f.cfg
    sub = local_inits(f)

    def undirected_edge(a, b):
        for t, tr, nd in e1.edge_facts(cfg, a, b):
            rt = render(nd, sub).replace("this.", "").replace(" ", "")
            if (rt == "directed_" and tr is False) or (rt in ("!directed_", "(!directed_)") and tr is True):
                return True
        return False
    und_edges = {(a, b) for a in cfg.blocks for b in cfg.succ[a] if undirected_edge(a, b)}
    out = []
    for c in f.calls():
        blk = cfg.stmt_block(c)
        if blk is None:
            continue
        und = not e1.path_exists(cfg, cfg.entry, blk, avoid_edges=und_edges)
        if c["callee"]["name"] == name:
            out.append(([render(a, sub) for a in f.args(c)[:2]], und))
        elif depth > 0 and c["callee"].get("inrepo") and c["callee"].get("cls") == G and c["callee"]["name"] != f.name:
            for t in fb.targets(c):
                if t.body is None or t.cfg is None:
                    continue
                ren = {p_["name"]: render(a, sub) for p_, a in zip(t.params, f.args(c))}
                for args, u2 in _guarded_calls(fb, t, name, depth - 1):
                    out.append(([ren.get(x, x) for x in args], und or u2))
    return out


def _d2(chk, fb):
    links = [f for f in fb.q(G + "::link")]
    unl = fb.q1(G + "::unlink")
    chk.floor("D2", "link overloads", len(links), 2)
    for helper, inv in INVERSE.items():
        if helper != "linkInNodeStructure_":
            continue
        for lk in links:
            a, b = lk.params[0]["name"], lk.params[1]["name"]
            lc = _guarded_calls(fb, lk, helper)
            fwd = [x for x in lc if x[0] == [a, b] and not x[1]]
            mir = [x for x in lc if x[0] == [b, a] and x[1]]
            if fwd and mir:
                chk.proved("D2", lk.key, "link-mirrors-when-undirected", lk.loc(), "%s(%s,%s) always, %s(%s,%s) when undirected" % (helper, a, b, helper, b, a))
            elif not lc:
                chk.unknown("D2", lk.key, "link-mirrors-when-undirected", lk.loc(), "no call of %s found in link or in the helpers it calls" % helper)
            elif fwd and not any(x[0] == [b, a] for x in lc):
                chk.refuted("D2", lk.key, "link-mirrors-when-undirected", lk.loc(), "link records %s(%s,%s) only: on an undirected graph the reverse relation is missing from the node table" % (helper, a, b),
                            witness={"history": "undirected graph: link(a,b); getNeighbors(b) does not list a"})
            elif fwd and any(x[0] == [b, a] and not x[1] for x in lc):
                chk.refuted("D2", lk.key, "link-mirrors-when-undirected", lk.loc(), "link records the reverse relation %s(%s,%s) unconditionally, also on directed graphs" % (helper, b, a), witness={"history": "directed graph: link(a,b); getOutgoingNeighbors(b) lists a"})
            else:
                chk.unknown("D2", lk.key, "link-mirrors-when-undirected", lk.loc(), "calls of %s not in a recognised arrangement: %s" % (helper, lc))
        a, b = unl.params[0]["name"], unl.params[1]["name"]
        uc = _guarded_calls(fb, unl, inv)
        fwd = [x for x in uc if x[0] == [a, b] and not x[1]]
        mir = [x for x in uc if x[0] == [b, a] and x[1]]
        if fwd and mir:
            chk.proved("D2", unl.key, "unlink-mirrors-when-undirected", unl.loc(), "%s(%s,%s) always, %s(%s,%s) when undirected" % (inv, a, b, inv, b, a))
        elif fwd and not any(x[0] == [b, a] for x in uc):
            chk.refuted("D2", unl.key, "unlink-mirrors-when-undirected", unl.loc(),
                        "link records an undirected edge in both directions (%s(%s,%s) under '!directed_') but unlink only removes %s(%s,%s): the reverse relation survives and still names the erased edge" % (helper, b, a, inv, a, b),
                        witness={"history": "undirected graph: link(a,b); unlink(a,b); getNeighbors(a) / getNeighbors(b) still list each other"})
        elif not uc and not any(c["callee"].get("inrepo") and c["callee"].get("cls") == G and not c["callee"].get("const") for c in unl.calls()):
            chk.refuted("D2", unl.key, "unlink-removes-relation", unl.loc(), "unlink no longer removes the relation from the node table")
        else:
            chk.unknown("D2", unl.key, "unlink-mirrors-when-undirected", unl.loc(), "calls of %s not in a recognised arrangement: %s" % (inv, uc))


def _erases(f, table):
    out = []
    for c in f.calls():
        if c["callee"]["name"] == "erase" and "obj" in c:
            r = e1._root_decl(f.obj(c))
            if r and r[0] == "f" and r[2] == table and render(f.obj(c)) == table:
                out.append(c)
    return out


def _d3(chk, fb):
    fns = _graph_fns(fb)
    access = {}
    for m in fb.need_class(G)["methods"]:
        access[m["key"]] = m["access"]
    n = 0
    for table, notify in (("nodeStructure_", "notifyDeletedNodes"), ("edgeStructure_", "notifyDeletedEdges")):
        fb.need_field(G, table)
        direct = {f.key: _erases(f, table) for f in fns}
        private_erasers = {k for k, v in direct.items() if v and access.get(k) == 2}
        for f in fns:
            if access.get(f.key) == 2:
                continue
            cfg = f.cfg
            sites = list(direct[f.key]) + [c for c in f.calls() if c["callee"]["key"] in private_erasers and ("obj" not in c or strip(f.obj(c))["k"] == "CXXThisExpr")]
            if not sites:
                continue
            n += 1
            nb = e1.blocks_with(cfg, lambda x: is_call(x) and x["callee"]["name"] == notify)
            bad = None
            for s_ in sites:
                b = cfg.stmt_block(s_)
                ok, path = e1.must_pass(cfg, nb, start=b) if nb else (False, None)
                if ok and b in nb:
                    el = cfg.blocks[b]["el"]
                    ni = max(i for i, e in enumerate(el) if is_call(f.nodes.get(e, {})) and f.nodes[e]["callee"]["name"] == notify)
                    ok = e1._elem_index(cfg, el, s_) < ni
                if not ok:
                    bad = (s_, path)
                    break
            if bad:
                chk.refuted("D3", f.key, "erase-notifies:" + table, f.loc(bad[0]),
                            "%s removes an entry of %s (%s) and can return without %s(): registered observers keep the deleted %s in their maps" % (f.name, table, render(bad[0])[:50], notify, "node" if "node" in table else "edge"),
                            witness={"history": "register an observer, associate an object, delete through the graph, query the observer"})
            else:
                chk.proved("D3", f.key, "erase-notifies:" + table, f.loc(sites[0]), "%d erase site(s), each followed by %s on every path" % (len(sites), notify))
    chk.floor("D3", "erasing members of GlobalGraph", n, 2)
    for notify in ("notifyDeletedNodes", "notifyDeletedEdges"):
        f = fb.q1(G + "::" + notify)
        loops = [x for x in walk(f.body) if x["k"] == "CXXForRangeStmt" and render(f.nodes[x["rangeinit"]]) == "observers_"]
        upd = [c for c in f.calls() if c["callee"]["name"] == ("deletedNodesUpdate" if "Nodes" in notify else "deletedEdgesUpdate")]
        # other spellings of 'for every observer': an iterator loop from observers_.begin() to observers_.end(), or std::for_each /
        # range algorithms over [observers_.begin(), observers_.end())
        whole = bool(loops)
        for lp in [x for x in walk(f.body) if x["k"] in ("ForStmt", "WhileStmt")]:
            t = render(lp)
            if "observers_.begin()" in t and ("observers_.end()" in t or any("observers_.end()" in render(i_) for i_ in local_inits(f).values())):
                whole = True
        for c in f.calls():
            if c["callee"]["name"] in ("for_each", "for_each_n") and len(f.args(c)) >= 3 and render(f.args(c)[0]) == "observers_.begin()" and render(f.args(c)[1]) == "observers_.end()":
                whole = True
        if whole and upd:
            chk.proved("D3", f.key, "notification-reaches-all-observers", f.loc(), "loop over observers_ calling %s" % upd[0]["callee"]["name"])
        elif upd:
            chk.unknown("D3", f.key, "notification-reaches-all-observers", f.loc(), "%s is called, but the traversal of observers_ is not in a recognised form" % upd[0]["callee"]["name"])
        else:
            chk.refuted("D3", f.key, "notification-reaches-all-observers", f.loc(), "%s no longer forwards to every registered observer" % notify)


def _obs_fns(fb):
    c = fb.need_class(OBS)
    return [fb.fns[m["key"]] for m in c["methods"] if m["key"] in fb.fns and fb.fns[m["key"]].body is not None and fb.fns[m["key"]].cfg is not None]


def _d4(chk, fb):
    n = 0
    groups = {"N": ("NToGraphid_", "NToIndex_", "indexToN_"), "E": ("EToGraphid_", "EToIndex_", "indexToE_")}
    for f in _obs_fns(fb):
        if f.rec.get("ctor") or f.rec.get("dtor") or f.name == "operator=":
            continue
        for g, (main, idxmap, idxvec) in groups.items():
            er = [c for c in f.calls() if c["callee"]["name"] == "erase" and "obj" in c and render(f.obj(c)) == main]
            if not er:
                continue
            n += 1
            er2 = [c for c in f.calls() if c["callee"]["name"] == "erase" and "obj" in c and render(f.obj(c)) == idxmap]
            slot = [x for x in f.all_nodes() if (x["k"] == "BinaryOperator" and x["op"] == "=" and render(kids(x)[0]).startswith(idxvec)) or
                    (is_call(x) and x["callee"]["name"] == "operator=" and "obj" in x and render(f.obj(x)).startswith(idxvec))]
            if er2 and slot:
                chk.proved("D4", f.key, "forgets-index:" + g, f.loc(er[0]), "%s, %s and %s all updated" % (main, idxmap, idxvec))
            else:
                missing = [m for m, present in ((idxmap, er2), (idxvec, slot)) if not present]
                chk.refuted("D4", f.key, "forgets-index:" + g, f.loc(er[0]),
                            "the object is removed from %s but stays in %s: after the deletion hasNodeIndex/hasEdgeIndex and the index->object lookup still return the deleted object" % (main, missing),
                            witness={"history": "create an object, give it an index, delete it, query by index"})
    chk.floor("D4", "observer functions removing an object", n, 4)


def _d5(chk, fb):
    f = fb.q1(OBS + "::operator=")
    cfg = f.cfg
    fills = {}
    for fl in fb.need_class(OBS)["fields"]:
        if "map" in fl["ty"]:
            w = _writes_to(f, fl["name"])
            if w:
                fills[fl["name"]] = [x for x, k, v in w]
    chk.floor("D5", "maps re-populated by insertion in the observer's operator=", len(fills), 4)
    for m, sites in sorted(fills.items()):
        clears = [c for c in f.calls() if c["callee"]["name"] == "clear" and "obj" in c and render(f.obj(c)).replace("this.", "") == m]
        if clears and all(any(cfg.dominates(cfg.stmt_block(cl), cfg.stmt_block(s_)) for cl in clears) for s_ in sites):
            chk.proved("D5", f.key, "assign-reset:" + m, f.loc(clears[0]), "%s cleared before it is refilled" % m)
        else:
            chk.refuted("D5", f.key, "assign-reset:" + m, f.loc(sites[0]), "operator= refills '%s' by insertion without clearing it: the objects the observer held before the assignment stay associated" % m,
                        witness={"history": "a holds x, b holds y; a = b; a.getNumberOfNodes() counts x and y"})
    # the slot tables (vectors indexed by graph id / index) are refilled slot by slot for the objects of the source only: a
    # resize() to the source's size keeps what the slots held, so they have to be emptied first
    nv = 0
    for fl in fb.need_class(OBS)["fields"]:
        if "vector" not in fl["ty"] or "map" in fl["ty"]:
            continue
        m = fl["name"]
        w = _writes_to(f, m)
        if not w:
            continue
        nv += 1
        sites = [x for x, k, v in w]

        def on_m(c):
            return "obj" in c and render(f.obj(c)).replace("this.", "") == m
        empt = [c for c in f.calls() if on_m(c) and c["callee"]["name"] in ("clear", "assign", "operator=", "swap")]
        empt += [c for c in f.calls() if c["callee"]["name"] in ("fill", "fill_n") and f.args(c) and render(f.args(c)[0]).replace("this.", "").startswith(m + ".begin")]
        empt += [x for x in f.all_nodes() if x["k"] == "BinaryOperator" and x["op"] == "=" and render(kids(x)[0]).replace("this.", "") == m]
        helper = []
        for c in f.calls():
            if ("obj" not in c or strip(f.obj(c))["k"] == "CXXThisExpr") and c["callee"].get("inrepo"):
                for t in fb.targets(c):
                    if t.body is not None and any("obj" in y and render(t.obj(y)).replace("this.", "") == m and y["callee"]["name"] in ("clear", "assign") for y in t.calls()):
                        helper.append(c)
        sized = [c for c in f.calls() if on_m(c) and c["callee"]["name"] == "resize"]
        dom = lambda c_: all(cfg.stmt_block(c_) is not None and cfg.dominates(cfg.stmt_block(c_), cfg.stmt_block(s_)) for s_ in sites)
        if any(dom(c_) for c_ in empt + helper):
            chk.proved("D5", f.key, "assign-reset:" + m, f.loc((empt + helper)[0]), "%s emptied before its slots are refilled" % m)
        elif any(len(f.args(c_)) == 1 and dom(c_) for c_ in sized):
            chk.refuted("D5", f.key, "assign-reset:" + m, f.loc(sized[0]),
                        "operator= only resizes '%s' before refilling the slots of the source's objects: resize keeps the former elements, so a slot that is empty in the source keeps the object the observer held before the assignment" % m,
                        witness={"history": "a holds an object at graph id 1, b holds none there (same sizes); a = b; a still answers for id 1"})
        else:
            chk.unknown("D5", f.key, "assign-reset:" + m, f.loc(sites[0]), "how '%s' is emptied before the refill is not in a recognised form" % m)
    chk.floor("D5", "slot tables refilled in the observer's operator=", nv, 2)
    sub = [c for c in f.calls() if c["callee"]["name"] == "operator=" and "obj" in c and render(f.obj(c)).replace("this.", "") == "subjectGraph_"] + \
          [x for x in f.all_nodes() if x["k"] == "BinaryOperator" and x["op"] == "=" and render(kids(x)[0]).replace("this.", "") == "subjectGraph_"]
    unreg = [c for c in f.calls() if c["callee"]["name"] == "unregisterObserver"]
    reg = [c for c in f.calls() if c["callee"]["name"] == "registerObserver"]
    if sub and unreg and all(e1.before_in_function(cfg, u, s_) for u in unreg for s_ in sub) and reg and all(e1.before_in_function(cfg, s_, r) for r in reg for s_ in sub):
        chk.proved("D5", f.key, "resubscribes", f.loc(sub[0]), "unregister from the old graph, switch, register with the new one")
    elif sub:
        chk.refuted("D5", f.key, "resubscribes", f.loc(sub[0]), "operator= switches subjectGraph_ without unregistering from the previous graph first: the previous graph keeps notifying (and a second registration with the same graph throws)",
                    witness={"history": "a and b observe the same graph; a = b raises 'already an observer'"})


def _writes_to(f, member):
    """(node, key text, value text) for  member[key] = value  /  member.at(key) = value"""
    out = []
    # a slot bound to a reference local first ('Eref& slot = table.at(k); slot = object;') is a write of the slot
    refs = {}
    for dn in f.all_nodes():
        if dn["k"] == "DeclStmt":
            for d in dn["decls"]:
                if d.get("init") is not None and (d.get("ty") or "").endswith("&") and not d["ty"].startswith("const "):
                    i0 = strip(d["init"])
                    if is_call(i0) and i0["callee"]["name"] in ("operator[]", "at") and "obj" in i0:
                        refs[d["id"]] = i0
    for x in f.all_nodes():
        lhs = rhs = None
        if x["k"] == "BinaryOperator" and x["op"] == "=":
            lhs, rhs = strip(kids(x)[0]), kids(x)[1]
        elif is_call(x) and x["callee"]["name"] == "operator=" and "obj" in x and f.args(x):
            lhs, rhs = strip(f.obj(x)), f.args(x)[0]
        if lhs is not None and lhs["k"] == "DeclRefExpr" and lhs["decl"]["id"] in refs:
            lhs = refs[lhs["decl"]["id"]]
        if lhs is None or not is_call(lhs) or lhs["callee"]["name"] not in ("operator[]", "at") or "obj" not in lhs:
            continue
        if render(f.obj(lhs)).replace("this.", "") != member:
            continue
        out.append((x, render(f.args(lhs)[0]), render(rhs)))
    return out


def _d6(chk, fb):
    n = 0
    cands = _obs_fns(fb) + [f for f in fb.q(OBS + "::AssociationGraphImplObserver") if f.body is not None]
    seen = set()
    for f in cands:
        if f.key in seen:
            continue
        seen.add(f.key)
        sub = local_inits(f)
        for fwd, inv in PAIRS:
            wf = _writes_to(f, fwd)
            wi = _writes_to(f, inv)
            if not wf and not wi:
                continue
            for x, k, v in wf:
                if v in ("0", "nullptr"):
                    continue
                n += 1
                partners = [(y, k2, v2) for y, k2, v2 in wi if f.enclosing(y, ("CompoundStmt",)) is f.enclosing(x, ("CompoundStmt",))] or wi
                good = [p for p in partners if p[1] == v and p[2] == k]
                if good:
                    chk.proved("D6", f.key, "inverse:%s/%s" % (fwd, inv), f.loc(x), "%s[%s] = %s  <->  %s[%s] = %s" % (fwd, k, v, inv, v, k))
                elif partners:
                    p = partners[0]
                    chk.refuted("D6", f.key, "inverse:%s/%s" % (fwd, inv), f.loc(p[0]),
                                "%s[%s] = %s is paired with %s[%s] = %s: the two maps are no longer inverse of each other (object -> %s -> object round trip fails)" % (fwd, k, v, inv, p[1], p[2], "index" if "Index" in fwd else "id"),
                                witness={"input": "an object whose index differs from its graph id"})
                else:
                    chk.refuted("D6", f.key, "inverse:%s/%s" % (fwd, inv), f.loc(x), "%s is written without the inverse entry in %s" % (fwd, inv))
    chk.floor("D6", "paired map writes", n, 12)


STRUCT = ("nodeStructure_", "edgeStructure_", "directed_", "highestNodeID_", "highestEdgeID_", "root_")


def _d7(chk, fb):
    """a refused call leaves all views as they were: in every non-private GlobalGraph member no explicit throw (its own or a
    helper's precondition test) can be reached after a write to the node/edge structures"""
    eff = e1.Effects(fb)
    n_fn = 0
    for f in sorted(_graph_fns(fb), key=lambda x: x.key):
        if f.rec.get("access", 0) == 2 or f.rec.get("ctor") or f.rec.get("dtor"):      # private helpers are covered through their callers
            continue
        cfg = f.cfg
        writes = []
        # locals that are references into a structure (range-for by reference over it)
        alias = {}
        for rf in f.all_nodes():
            if rf["k"] == "CXXForRangeStmt" and "rangeinit" in rf and "loopvar" in rf:
                ri = f.nodes.get(rf["rangeinit"]) if isinstance(rf["rangeinit"], int) else rf["rangeinit"]
                lv = f.nodes.get(rf["loopvar"]) if isinstance(rf["loopvar"], int) else rf["loopvar"]
                rr = e1._root_decl(ri) if ri is not None else None
                if rr and rr[0] == "f" and rr[2] in STRUCT and lv is not None:
                    for d in (lv.get("decls") or [lv]):
                        if "&" in (d.get("ty") or "") and not (d.get("ty") or "").startswith("const ") and "id" in d:
                            alias[d["id"]] = rr
        for blk in cfg.blocks:
            for e in cfg.blocks[blk]["el"]:
                n = f.nodes.get(e)
                if n is None:
                    continue
                roots = set()
                if is_call(n):
                    roots = set(eff.call_effect(f, n))
                    # a member function called on this object: keep the fields its body (transitively) writes
                    if n["callee"].get("inrepo") and ("obj" not in n or strip(f.obj(n))["k"] == "CXXThisExpr"):
                        for t in fb.targets(n):
                            if t.body is not None:
                                roots |= {r for r in eff.summary(t, 3) if r[0] == "f"}
                    roots |= {alias[r[1]] for r in roots if r[0] == "v" and r[1] in alias}
                elif n["k"] in ("BinaryOperator", "CompoundAssignOperator") and n.get("op", "").endswith("=") and n["op"] not in ("==", "!=", "<=", ">="):
                    r = e1._root_decl(kids(n)[0])
                    if r:
                        roots = {r}
                        if r[0] == "v" and r[1] in alias:
                            roots.add(alias[r[1]])
                elif n["k"] == "UnaryOperator" and n.get("op") in ("++", "--"):
                    r = e1._root_decl(kids(n)[0])
                    if r:
                        roots = {r}
                if any(r[0] == "f" and r[2] in STRUCT for r in roots if len(r) > 2):
                    writes.append(n)
        if not writes:
            continue
        # explicit refusals: own throws and calls of the *MustExist_ / precondition helpers (which throw)
        throws = [n for n in walk(f.body) if n["k"] == "CXXThrowExpr"]
        throws += [c for c in f.calls() if c["callee"]["name"].endswith("MustExist_")]
        # calls of a private helper of the graph that itself raises explicitly (unlinkInNodeStructure_ ...): the helper's test is a
        # refusal made at the call site
        for c in f.calls():
            if c["callee"].get("inrepo") and ("obj" not in c or strip(f.obj(c))["k"] == "CXXThisExpr") and not c["callee"]["name"].endswith("MustExist_"):
                for t in fb.targets(c):
                    if t.body is not None and t.rec.get("access", 0) == 2 and (t.cls or "") == G and any(x["k"] == "CXXThrowExpr" for x in walk(t.body)):
                        throws.append(c)
        if not throws:
            continue
        n_fn += 1
        bad = None
        helper_refusals = {id(c) for c in throws if is_call(c) and not c["callee"]["name"].endswith("MustExist_")}
        maybe = None
        for t in throws:
            for w in writes:
                if w is t or f.contains(w, t) or f.contains(t, w):
                    continue
                if id(t) in helper_refusals:
                    # a helper that tests and then writes, called after an earlier write.  Recognised wrong: the same helper called
                    # with (x, y) and then (y, x) without excluding x == y - for x == y the second call repeats the first, whose
                    # erasure is exactly what the second one tests for.  Any other pair depends on an invariant: undecided.
                    wc = w if is_call(w) and w["callee"]["name"] == t["callee"]["name"] else next((x for x in walk(w) if is_call(x) and x["callee"]["name"] == t["callee"]["name"]), None)
                    wb, tb = cfg.stmt_block(w), cfg.stmt_block(t)
                    after = wb is not None and tb is not None and ((wb == tb and e1.earlier_in_block(cfg, w, t)) or (wb != tb and e1.path_exists(cfg, wb, tb)))
                    if not after:
                        continue
                    if wc is not None and wc is not t:
                        a1, a2 = [render(x) for x in f.args(wc)], [render(x) for x in f.args(t)]
                        if len(a1) >= 2 and a1[:2] == a2[:2][::-1] and a1[0] != a1[1]:
                            x_, y_ = a1[0], a1[1]
                            distinct, _ = e1.guarded_by(cfg, tb, lambda facts: any((tt in ("(%s != %s)" % (x_, y_), "(%s != %s)" % (y_, x_)) and tr) or (tt in ("(%s == %s)" % (x_, y_), "(%s == %s)" % (y_, x_)) and tr is False) for tt, tr, _ in facts))
                            if distinct:
                                continue
                            bad = (w, t)
                            mirror = (x_, y_)
                            break
                    maybe = maybe or (w, t)
                    continue
                # 'if (table.erase(key) == 0) throw ...': the write is the test itself, and the throwing outcome means nothing was changed
                gi = f.enclosing(t, ("IfStmt",)) if t["k"] == "CXXThrowExpr" else None
                if gi is not None and "cond" in gi and f.contains(f.nodes[gi["cond"]], w):
                    continue
                wb, tb = cfg.stmt_block(w), cfg.stmt_block(t)
                if wb is None or tb is None:
                    continue
                # a throw taken only when 'K is absent from the table' (find(K) == end(), erase(K) == 0, count(K) == 0, in either
                # polarity / branch arrangement) repeats the precondition when K's existence was established by the *MustExist_(K)
                # test that dominates it and nothing erased from the table in between: it cannot fire
                if t["k"] == "CXXThrowExpr":
                    import re as _re
                    sub_ = local_inits(f)

                    def absent(facts_):
                        for t_, tr_, nd_ in facts_:
                            ct = render(nd_, sub_) if nd_ is not None else t_
                            ct = ct.strip()
                            m1 = _re.match(r"^\(?(nodeStructure_|edgeStructure_)\.find\((\w+)\) (==|!=) \1\.end\(\)\)?$", ct)
                            if m1 and ((m1.group(3) == "==") == bool(tr_)):
                                return m1.group(1), m1.group(2)
                            m2 = _re.match(r"^\(?(nodeStructure_|edgeStructure_)\.(?:erase|count)\((\w+)\) (==|!=|>) 0\)?$", ct)
                            if m2 and ((m2.group(3) == "==") == bool(tr_)):
                                return m2.group(1), m2.group(2)
                            m3 = _re.match(r"^\(?(nodeStructure_|edgeStructure_)\.(?:erase|count)\((\w+)\)\)?$", ct)
                            if m3 and not tr_:
                                return m3.group(1), m3.group(2)
                        return None
                    found_ = {}

                    def est(facts_):
                        r_ = absent(facts_)
                        if r_:
                            found_["tk"] = r_
                            return True
                        return False
                    okg, _p = e1.guarded_by(cfg, tb, est)
                    if okg and found_.get("tk"):
                        tab_, key_ = found_["tk"]
                        want = ("nodeMustExist_" if tab_ == "nodeStructure_" else "edgeMustExist_")
                        pre = [c for c in f.calls() if c["callee"]["name"] == want and f.args(c) and render(f.args(c)[0]) == key_ and cfg.dominates(cfg.stmt_block(c), tb)]
                        erased = [c for c in f.calls() if c["callee"]["name"] == "erase" and "obj" in c and render(f.obj(c)) == tab_ and e1.before_in_function(cfg, c, t)
                                  and not (gi is not None and "cond" in gi and f.contains(f.nodes[gi["cond"]], c)) and e1.path_exists(cfg, cfg.stmt_block(c), tb)]
                        if pre and not erased:
                            continue
                after = (wb == tb and e1.earlier_in_block(cfg, w, t)) or (wb != tb and e1.path_exists(cfg, wb, tb))
                if after:
                    bad = (w, t)
                    break
            if bad:
                break
        if bad and id(bad[1]) in helper_refusals:
            chk.refuted("D7", f.key, "refusal-after-write", f.loc(bad[1]),
                        "%s calls %s(%s, %s) and then %s(%s, %s) without excluding %s == %s: for a relation of a node with itself the second call repeats the first, finds the relation already erased and raises "
                        "after the node table was changed (line %s) and before the edge table is: the refused call leaves an edge that none of its end points lists" % (
                            f.name, bad[1]["callee"]["name"], mirror[0], mirror[1], bad[1]["callee"]["name"], mirror[1], mirror[0], mirror[0], mirror[1], bad[0].get("l")),
                        witness={"history": "undirected graph: link(a, a); unlink(a, a) raises; getAllEdges() still lists the edge while getEdges(a) is empty"})
        elif bad:
            chk.refuted("D7", f.key, "refusal-after-write", f.loc(bad[1]),
                        "%s can raise at line %s after it has already changed the graph structure at line %s (%s): the refused call leaves the node table and the edge table in disagreement" % (
                            f.name, bad[1].get("l"), bad[0].get("l"), render(bad[0])[:60]), witness={"history": "a call that is refused, then any query"})
        elif maybe:
            chk.unknown("D7", f.key, "refusal-after-write", f.loc(maybe[1]), "%s is called after a structure write and tests before it writes: whether it can refuse there depends on the both-directions invariant of the tables" % maybe[1]["callee"]["name"])
        else:
            chk.proved("D7", f.key, "refusal-before-write", f.loc(), "%d refusal(s), %d structure write(s), no refusal reachable after a write" % (len(throws), len(writes)))
    chk.floor("D7", "GlobalGraph members that both refuse and write", n_fn, 5)


def _d8(chk, fb):
    """a relation recorded with map::insert / emplace whose result is thrown away is a conditional write (nothing happens when the key
    is already there); the edge table entry of the same link is written unconditionally.  Unless the absence of the relation is
    tested first (in the helper or in every non-private caller), linking two already linked nodes leaves an edge in the edge table
    that no node lists"""
    import re
    pat = re.compile(r"->second\.(first|second)$|^nodeStructure_\[\w+\]\.(first|second)$")
    n_sites = 0
    for h in sorted(_graph_fns(fb), key=lambda x: x.key):
        if (h.cls or "") != G:
            continue
        for c in h.calls():
            if c["callee"]["name"] not in ("insert", "emplace") or "obj" not in c or not pat.search(render(h.obj(c))):
                continue
            par = h.parent.get(c["id"])
            while par is not None and par["k"] in ("ExprWithCleanups", "ImplicitCastExpr", "MaterializeTemporaryExpr", "CXXBindTemporaryExpr"):
                par = h.parent.get(par["id"])
            if par is None or par["k"] not in ("CompoundStmt", "IfStmt", "ForStmt", "WhileStmt", "CXXForRangeStmt"):
                continue        # the result is used
            n_sites += 1
            con = "unchecked-insert:" + ("forward" if render(h.obj(c)).endswith("first") else "backward") + "-relations"

            def absent(fn, at):
                """an absence test of a relation (find(..) == end / count(..) == 0 on a relation map, or a throwing 'already linked' test) dominates `at` in fn"""
                def est(facts):
                    for t, tr, nd in facts:
                        if re.search(r"second\.(first|second)\.(find|count)\(|\]\.(first|second)\.(find|count)\(", t):
                            return True
                    return False
                return e1.guarded_by(fn.cfg, fn.cfg.stmt_block(at), est)[0]
            if absent(h, c):
                chk.proved("D8", h.key, con, h.loc(c), "insertion dominated by a test of the relation map")
                continue
            # callers: every non-private member of the graph that reaches the helper and also writes the edge table
            callers = []
            for g_ in _graph_fns(fb):
                for cc in g_.calls():
                    if cc["callee"].get("inrepo") and any(t.key == h.key for t in fb.targets(cc)):
                        callers.append((g_, cc))
            unguarded = [(g_, cc) for g_, cc in callers if not absent(g_, cc) and any(x["callee"]["name"] == "linkInEdgeStructure_" or "edgeStructure_[" in render(x) for x in g_.calls())]
            if unguarded:
                g_, cc = unguarded[0]
                chk.refuted("D8", h.key, con, h.loc(c),
                            "the relation is recorded with %s() and the result is discarded: when the two nodes are already linked nothing is recorded, while %s (line %s) goes on to write the edge table for the new edge id "
                            "unconditionally - the edge exists in edgeStructure_ and no node lists it" % (c["callee"]["name"], g_.name, cc.get("l")),
                            witness={"history": "directed graph: link(a, b); link(a, b): getAllEdges() has two edges, getEdges(a) one"})
            else:
                chk.proved("D8", h.key, con, h.loc(c), "every caller that writes the edge table tests the relation first")
    chk.floor("D8", "relation insertions with a discarded result", n_sites, 2)


def _d9(chk, fb):
    """off-by-one guards: an index tested with '<= size()' (or 'size() >= index') and then used with at()/operator[] on that
    container.  The guard admits index == size(), which is one past the last element"""
    import re
    n = 0
    for f in sorted(fb.concrete_fns(), key=lambda x: x.key):
        if f.body is None or f.cfg is None or "Bpp/Graph/" not in f.relfile:
            continue
        cfg = f.cfg
        for c in f.calls():
            if c["callee"]["name"] not in ("at", "operator[]") or "obj" not in c or not f.args(c):
                continue
            if "vector" not in c["callee"].get("cls", "") and "deque" not in c["callee"].get("cls", ""):
                continue
            X, I = render(f.obj(c)), render(f.args(c)[0])
            sz = "%s.size()" % X
            weak = {"(%s <= %s)" % (I, sz): True, "(%s >= %s)" % (sz, I): True, "(%s > %s)" % (I, sz): False, "(%s < %s)" % (sz, I): False}
            strong = {"(%s < %s)" % (I, sz): True, "(%s > %s)" % (sz, I): True, "(%s >= %s)" % (I, sz): False, "(%s <= %s)" % (sz, I): False}
            b = cfg.stmt_block(c)
            has_strong, _ = e1.guarded_by(cfg, b, lambda facts: any(strong.get(t) is tr for t, tr, _ in facts if t in strong))
            if has_strong:
                n += 1
                chk.proved("D9", f.key, "index-below-size:%s[%s]" % (X[:30], I[:30]), f.loc(c), "dominated by a strict test of %s against %s" % (I, sz))
                continue
            has_weak, _ = e1.guarded_by(cfg, b, lambda facts: any(weak.get(t) is tr for t, tr, _ in facts if t in weak))
            if has_weak:
                n += 1
                chk.refuted("D9", f.key, "index-below-size:%s[%s]" % (X[:30], I[:30]), f.loc(c),
                            "'%s' is only guarded by a test that admits %s == %s: that index is one past the last element (at() raises std::out_of_range, operator[] reads out of bounds)" % (render(c)[:60], I, sz),
                            witness={"input": "an id equal to the current size of the table (the first item created after the table was sized)"})
    chk.floor("D9", "size-guarded element accesses in the graph headers", n, 4)


def _d10(chk, fb):
    """the neighbour iterators of GlobalGraph come in eight spellings per direction (nodes / edges, const / non-const class,
    const / non-const graph argument); all spellings of one direction must walk the same relation map of the node, and the two
    directions different ones.  The odd one out is refuted (sibling agreement, majority of at least three)"""
    import re
    groups = {}
    for f in fb.concrete_fns():
        m = re.match(r"^bpp::(Nodes|Edges)IteratorClass<bpp::Graph::(OUTGOING|INCOMING)NEIGHBORITER, (true|false)>$", f.cls or "")
        if not m or not f.rec.get("ctor"):
            continue
        for i in f.rec.get("inits", []):
            if i.get("expr") is not None and "nodeStructure_" in render(i["expr"]):
                mm = re.search(r"->second\.(first|second)", render(i["expr"]))
                if mm:
                    groups.setdefault(m.group(2), []).append((f, mm.group(1)))
    n = 0
    major = {}
    for kind, lst in sorted(groups.items()):
        cnt = {}
        for f, mem in lst:
            cnt[mem] = cnt.get(mem, 0) + 1
        best = max(cnt, key=cnt.get)
        major[kind] = best
        for f, mem in lst:
            n += 1
            con = "iterator-map:%s" % kind.lower()
            if mem == best:
                chk.proved("D10", f.key, con, f.loc(), "walks nodeStructure_[n].%s like its %d siblings" % (mem, cnt[best] - 1))
            elif cnt[best] >= 3:
                chk.refuted("D10", f.key, con, f.loc(),
                            "this %s-neighbour iterator walks nodeStructure_[n].%s while its %d siblings (other element kind / constness) walk .%s: it enumerates the relations of the other direction" % (
                                kind.lower(), mem, cnt[best], best), witness={"history": "a directed graph reached through this overload (e.g. a const reference); compare with get%sEdges" % kind.capitalize()})
            else:
                chk.unknown("D10", f.key, con, f.loc(), "siblings disagree without a clear majority: %s" % cnt)
    if len(major) == 2 and major.get("OUTGOING") == major.get("INCOMING"):
        f0 = groups["INCOMING"][0][0]
        chk.refuted("D10", f0.key, "iterator-map:directions", f0.loc(), "outgoing and incoming neighbour iterators walk the same relation map .%s" % major["INCOMING"])
    chk.floor("D10", "neighbour iterator constructors", n, 8)


def _d12(chk, fb):
    """the observer's node / edge iterators stand only on graph elements that have an associated object: every member that moves
    the underlying graph iterator (it_.start(), it_.next()) then runs the skip loop - a loop that tests the object of *it_ and
    advances it_ - on every path to its exit.  start() and next() of one class are siblings: when one of them skips and the other
    moves without skipping, the latter is refuted; a class in which no member skips is not judged"""
    import re
    groups = {}
    for f in fb.concrete_fns():
        if f.body is None or not re.search(r"::(Node|Edge)IteratorClass<[^<>]*>$", f.cls or "") or "AssociationGraphImplObserver<" not in (f.cls or ""):
            continue
        groups.setdefault(f.cls, []).append(f)

    def on_it(f, c, names):
        return c["callee"]["name"] in names and "obj" in c and render(f.obj(c)).replace("this.", "") == "it_"

    def skip_loops(f):
        out = []
        for lp in f.all_nodes():
            if lp["k"] not in ("WhileStmt", "ForStmt", "DoStmt") or "cond" not in lp:
                continue
            # the object of the current graph element is looked up (in the loop test or in the body, directly or through a local
            # holding *it_) and the graph iterator is advanced inside the loop
            derefs = {d["id"] for x in walk(lp) if x["k"] == "DeclStmt" for d in x["decls"] if d.get("init") is not None and "*it_" in render(d["init"]).replace("this.", "").replace("(", "").replace(")", "")}

            def names_current(a):
                t = render(a).replace("this.", "")
                if "*it_" in t or "*(it_)" in t:
                    return True
                return any(y["k"] == "DeclRefExpr" and y["decl"]["id"] in derefs for y in walk(a))
            tests = any(is_call(x) and x["callee"]["name"] != "end" and any(names_current(a) for a in f.args(x)) for x in walk(lp))
            adv = any(is_call(x) and on_it(f, x, ("next", "operator++")) for x in walk(lp))
            if tests and adv:
                out.append(lp)
        return out
    n = 0
    for cls, fns in sorted(groups.items()):
        byname = {f.name: f for f in fns}

        def skips(f, depth=0):
            if skip_loops(f):
                return True
            if depth < 2:
                for c in f.calls():
                    if ("obj" not in c or strip(f.obj(c))["k"] == "CXXThisExpr") and c["callee"]["name"] in byname and byname[c["callee"]["name"]] is not f:
                        if skips(byname[c["callee"]["name"]], depth + 1):
                            return True
            return False
        movers = [f for f in fns if f.name in ("start", "next") and any(on_it(f, c, ("start", "next", "operator++")) for c in f.calls())]
        if not movers:
            continue
        any_skip = any(skips(f) for f in movers)
        for f in sorted(movers, key=lambda x: x.name):
            n += 1
            con = "skips-unassociated:" + f.name
            cfg = f.cfg
            loops = skip_loops(f)
            if loops:
                # every move outside the loops is followed by a skip loop on every path
                heads = set()
                for lp in loops:
                    b = cfg.stmt_block(f.nodes[lp["cond"]])
                    if b is not None:
                        heads.add(b)
                bad = None
                for c in f.calls():
                    if on_it(f, c, ("start", "next", "operator++")) and not any(f.contains(lp, c) for lp in loops):
                        ok, path = e1.must_pass(cfg, heads, start=cfg.stmt_block(c))
                        if not ok and cfg.stmt_block(c) not in heads:
                            bad = (c, path)
                if bad:
                    chk.refuted("D12", f.key, con, f.loc(bad[0]), "%s() moves the graph iterator (%s) on a path that leaves without running the loop that skips graph elements without an object" % (f.name, render(bad[0])),
                                witness={"history": "an observer that does not associate an object with every node of the graph; walk its iterator and dereference", "blocks": bad[1]})
                else:
                    chk.proved("D12", f.key, con, f.loc(), "every move of it_ is followed by the skip loop")
            elif skips(f):
                chk.proved("D12", f.key, con, f.loc(), "delegates to a member that skips")
            elif any_skip:
                other = [g.name for g in movers if g is not f and skips(g)]
                chk.refuted("D12", f.key, con, f.loc(),
                            "%s() moves the graph iterator and stops on whatever graph element comes next, while %s() of the same class skips the elements that have no object in this observer: the iterator can stand on an unassociated element, and operator*() then returns a null object although end() is false" % (f.name, "/".join(other)),
                            witness={"history": "a graph whose first node (or first neighbour) has no object in this observer; iterate with start()/end()/operator*"})
            else:
                chk.unknown("D12", f.key, con, f.loc(), "no member of this iterator class skips unassociated elements: the rule has no instance to compare with")
    chk.floor("D12", "position-moving members of the observer's iterators", n, 8)


def _d13(chk, fb):
    """ids in the edge table stay below the allocator: link(a, b) issues 'highestEdgeID_++' without looking at the table, so every
    id that enters edgeStructure_ must be below the counter afterwards.  A GlobalGraph member that records an edge under an id it
    receives from outside the class (a parameter that reaches linkInEdgeStructure_ / edgeStructure_[id], directly or through
    helpers of the class that pass it on) therefore also moves the counter past that id (an assignment to highestEdgeID_ that
    mentions the id; that it only moves forward is rule D4 of C15).  Without it the next automatic link re-issues the id and
    overwrites the edge-table entry: two relations of the node table share one edge.  A helper that only receives the id from
    other members of the class is judged through those members"""
    fns = [f for f in _graph_fns(fb) if (f.cls or "") == G and f.body is not None]
    rec = {}          # function key -> (function, index of the parameter that is recorded as an edge id, site node)
    for f in fns:
        if f.name == "linkInEdgeStructure_" and len(f.params) == 3:
            rec[f.key] = (f, 2, None)
    changed = True
    while changed:
        changed = False
        for f in fns:
            if f.key in rec:
                continue
            pn = [p_["name"] for p_ in f.params]
            for c in f.calls():
                for t in fb.targets(c, static_type_only=True):
                    if t.key in rec and rec[t.key][1] < len(f.args(c)):
                        a_ = render(f.args(c)[rec[t.key][1]])
                        if a_ in pn and f.key not in rec:
                            rec[f.key] = (f, pn.index(a_), c)
                            changed = True
            for x, k, v in _writes_to(f, "edgeStructure_"):
                if k in pn and f.key not in rec:
                    rec[f.key] = (f, pn.index(k), x)
                    changed = True
    n = 0
    for key, (f, idx, node) in sorted(rec.items()):
        if node is None:
            continue
        idn = f.params[idx]["name"]
        # does a member of the class hand its own parameter on to f?  then that member is the one to judge
        inner = False
        for g in fns:
            if g.key == key or g.key not in rec:
                continue
            for c in g.calls():
                if any(t.key == key for t in fb.targets(c, static_type_only=True)) and idx < len(g.args(c)) and render(g.args(c)[idx]) in [p_["name"] for p_ in g.params]:
                    inner = True
        if inner:
            continue
        n += 1
        adv = [x for x in f.all_nodes() if x["k"] == "BinaryOperator" and x.get("op") == "=" and render(kids(x)[0]).replace("this.", "") == "highestEdgeID_" and idn in render(kids(x)[1])]
        con = "allocator-passes-chosen-id:" + idn
        if adv:
            chk.proved("D13", f.key, con, f.loc(adv[0]), "the id counter is moved past the caller's id (%s)" % render(adv[0])[:60])
        else:
            chk.refuted("D13", f.key, con, f.loc(node),
                        "%s records an edge under the caller's id '%s' and never moves highestEdgeID_ past it: link(a, b) later issues that id again (it does not look at the table), the edge-table entry is overwritten and two relations of the node table carry the same edge id" % (f.name, idn),
                        witness={"history": "addSon(a, b, 1); addSon(a, c); addSon(a, d): the outgoing edges of a are 1, 0, 1 and getNumberOfEdges() is 2"})
    chk.floor("D13", "members recording an edge under an id received from outside the class", n, 1)


def _d11(chk, fb):
    """snapshot freshness: a local list obtained from a query of the graph structure (neighbours, edges) and then consumed by a
    loop must not have a write to that structure between the query and the start of its loop - the list then names relations
    that no longer exist (the loop that consumes a snapshot may of course write: that is what snapshots are for)"""
    eff = e1.Effects(fb)
    n = 0
    for f in sorted(_graph_fns(fb), key=lambda x: x.key):
        if (f.cls or "") != G or f.body is None:
            continue
        cfg = f.cfg
        for dn in f.all_nodes():
            if dn["k"] != "DeclStmt":
                continue
            for d in dn["decls"]:
                init = strip(d.get("init")) if d.get("init") is not None else None
                if init is None or "vector" not in (d.get("ty") or "") or not is_call(init):
                    continue
                if not (init["callee"].get("inrepo") and init["callee"].get("const") and ("obj" not in init or strip(f.obj(init))["k"] == "CXXThisExpr")):
                    continue
                # consuming loops: range-for over the local, or a loop whose condition/initialiser names it
                loops_ = []
                for lp in f.all_nodes():
                    if lp["k"] == "CXXForRangeStmt":
                        ri = f.nodes.get(lp["rangeinit"]) if isinstance(lp.get("rangeinit"), int) else lp.get("rangeinit")
                        if ri is not None and strip(ri)["k"] == "DeclRefExpr" and strip(ri)["decl"]["id"] == d["id"]:
                            loops_.append(lp)
                    elif lp["k"] in ("ForStmt", "WhileStmt") and lp.get("cond") is not None:
                        hdr = [f.nodes.get(lp.get("init")), f.nodes.get(lp.get("cond"))]
                        if any(h is not None and any(x["k"] == "DeclRefExpr" and x["decl"].get("id") == d["id"] for x in walk(h)) for h in hdr):
                            loops_.append(lp)
                if not loops_:
                    continue
                for lp in loops_:
                    n += 1
                    con = "snapshot:%s" % d["name"]
                    # writes to the structures between the declaration and the loop: statements that are neither inside the loop
                    # nor before the declaration
                    stale = None
                    db = cfg.stmt_block(dn)
                    for b_ in cfg.blocks:
                        for e_ in cfg.blocks[b_]["el"]:
                            x = f.nodes.get(e_)
                            if x is None or not is_call(x) or f.contains(lp, x) or x is init or f.contains(dn, x):
                                continue
                            roots = set(eff.call_effect(f, x))
                            if x["callee"].get("inrepo") and ("obj" not in x or strip(f.obj(x))["k"] == "CXXThisExpr"):
                                for t in fb.targets(x):
                                    if t.body is not None:
                                        roots |= {r for r in eff.summary(t, 3) if r[0] == "f"}
                            if not any(r[0] == "f" and len(r) > 2 and r[2] in STRUCT for r in roots):
                                continue
                            xb = cfg.stmt_block(x)
                            lb = cfg.stmt_block(f.nodes[lp["cond"]]) if lp.get("cond") is not None else next((bb for bb, blk in cfg.blocks.items() if blk.get("term") == lp["id"]), None)
                            if xb is None or lb is None or db is None:
                                continue
                            after_decl = (xb == db and e1.earlier_in_block(cfg, dn, x)) or (xb != db and e1.path_exists(cfg, db, xb))
                            before_loop = e1.path_exists(cfg, xb, lb) and not f.contains(lp, x)
                            # exclude writes that can only happen after the loop has finished
                            loop_first = e1.path_exists(cfg, lb, xb) and not e1.path_exists(cfg, xb, lb, avoid_blocks={db})
                            if after_decl and before_loop and not loop_first:
                                stale = x
                                break
                        if stale:
                            break
                    if stale is not None:
                        chk.refuted("D11", f.key, con, f.loc(lp),
                                    "'%s' is read from the structure at %s, the structure is then changed by %s (%s), and only afterwards is '%s' walked: it may name relations that were already removed, and acting on them again raises or "
                                    "removes something else" % (d["name"], f.loc(dn), render(stale)[:40], f.loc(stale), d["name"]),
                                    witness={"history": "a node with a relation to itself in a directed graph: the relation is in both snapshots"})
                    else:
                        chk.proved("D11", f.key, con, f.loc(lp), "nothing writes the structure between the query (%s) and the loop that consumes it" % f.loc(dn))
    chk.floor("D11", "structure snapshots consumed by loops", n, 2)


def run(chk, fb, tier):
    chk.rule("D1", "nodeStructure_[k] / edgeStructure_[k] read as a value is dominated by nodeMustExist_(k) / edgeMustExist_(k) or a checked find of k")
    chk.rule("D2", "link: helper(a,b) always and helper(b,a) under '!directed_'; unlink: the inverse helper with the same two call shapes")
    chk.rule("D3", "a non-private GlobalGraph member that erases from nodeStructure_ (edgeStructure_), directly or via a private helper, reaches notifyDeletedNodes (notifyDeletedEdges) afterwards on every normal path")
    chk.rule("D4", "an observer member erasing from NToGraphid_ (EToGraphid_) also erases from NToIndex_ (EToIndex_) and resets the indexToN_ (indexToE_) slot")
    chk.rule("D5", "observer operator=: maps refilled by insertion are cleared first; slot tables (vectors) refilled slot by slot are emptied first (resize alone keeps the old slots); unregisterObserver(old) precedes the switch of subjectGraph_, registerObserver follows it")
    chk.rule("D6", "writes A[k] = v and B[v'] = k' to inverse map pairs in one block satisfy k == k' and v == v'")
    chk.rule("D7", "in every non-private GlobalGraph member no explicit refusal (throw, *MustExist_ test) is reachable after a write to the node/edge structures")
    _d1(chk, fb)
    _d2(chk, fb)
    _d3(chk, fb)
    _d4(chk, fb)
    _d5(chk, fb)
    _d6(chk, fb)
    _d7(chk, fb)
    chk.rule("D8", "a relation inserted into the node table with a discarded insert()/emplace() result is preceded by a test that the relation is absent, in the helper or in every caller that also writes the edge table")
    _d8(chk, fb)
    chk.rule("D9", "an index compared with a container's size() and then used with at()/operator[] on it is compared strictly (index < size)")
    _d9(chk, fb)
    chk.rule("D10", "all constructors of the outgoing (incoming) neighbour iterators walk the same relation map of the node, and the two directions different maps")
    _d10(chk, fb)
    chk.rule("D11", "a list queried from the graph structure and consumed by a loop is not preceded, between the query and that loop, by a write to the structure")
    _d11(chk, fb)
    chk.rule("D12", "E5 sibling agreement: start() and next() of the observer's node / edge iterator classes both run the loop that skips graph elements without an associated object after moving the graph iterator")
    _d12(chk, fb)
    chk.rule("D13", "a GlobalGraph member that records an edge under a caller-chosen id also moves highestEdgeID_ past that id (link(a, b) issues ids without looking at the table)")
    _d13(chk, fb)
    chk.assume("unchecked map::find results on absent ids inside protected GlobalGraph members are undefined behaviour that the installed libstdc++ tolerates (an exception is still raised): not asserted")
