"""C19 Simplex parametrisations always yield a probability vector and invert exactly (narrow claim).

 D1 the two copies of each coding agree: constructor-from-probabilities and setFrequencies compute the same parameter formulas
 D2 index discipline: the vector handed to setFrequencies is indexed up to dim_ only under a size test
 D3 every Parameter created by the constructors carries the allowNull-selected constraint
 D4 fireParameterChanged fills every probability entry: the loops writing vProb_[i] have no early exit
"""
import re
from .facts import kids, strip, walk, is_call, render, local_inits, AnalysisBroken
from . import e1

EXPLANATION = ("Static analysis of structural clauses of C19 on Simplex.cpp: D1 per coding method the statements computing the parameters in Simplex(probas, ...) and in setFrequencies(probas) are "
               "compared after renaming (vProb_ <-> probas, addParameter_(new Parameter(..)) <-> pl.addParameter(Parameter(..))): identical => PROVED, same shape with one differing expression => REFUTED, "
               "different shapes => UNKNOWN; D2 setFrequencies indexes its argument with bounds derived from dim_, so a size test relating probas.size() to dim_ must dominate; D3 every 'new Parameter' "
               "in the constructors receives the constraint selected by allowNull; D4 loops of fireParameterChanged that assign vProb_[i] contain no break/return/continue of their own. "
               "NOT decided: normalisation, inversion and injectivity as values, the binary coding's bit arithmetic, OrderedSimplex ordering, consistency of the dimension constructor's literal parameters.")

S = "bpp::Simplex"


def _case_bodies(f):
    """switch(method_) case label -> list of statement nodes"""
    sw = [n for n in walk(f.body) if n["k"] == "SwitchStmt"]
    out = {}
    if not sw:
        return out
    body = [x for x in kids(sw[0]) if x["k"] == "CompoundStmt"]
    if not body:
        return out
    cur = None
    for st in kids(body[0]):
        x = st
        while x["k"] == "CaseStmt":
            lab = [c for c in walk(kids(x)[0]) if c["k"] == "IntegerLiteral"]
            cur = lab[0]["val"] if lab else None
            out[cur] = []
            inner = kids(x)[-1]
            x = inner
        if cur is not None and x["k"] != "BreakStmt":
            out[cur].append(x)
    return out


def _formulas(f, stmts, rename):
    """normalised computational statements of a case body"""
    out = []

    def norm(t):
        for a, b in rename:
            t = re.sub(a, b, t)
        return t
    skip = set()
    for st in stmts:
        for n in walk(st):
            if n["k"] == "ForStmt":
                for key in ("init", "inc"):
                    if key in n and n[key] in f.nodes:
                        for x in walk(f.nodes[n[key]]):
                            skip.add(x["id"])
    for st in stmts:
        for n in walk(st):
            if n["id"] in skip:
                continue
            if n["k"] in ("BinaryOperator", "CompoundAssignOperator") and n.get("op", "").endswith("=") and n["op"] not in ("==", "!=", "<=", ">="):
                out.append(("assign", norm(render(n))))
            elif n["k"] == "UnaryOperator" and n["op"] in ("++", "--"):
                out.append(("step", norm(render(n))))
            elif is_call(n) and n["callee"]["name"] == "push_back":
                out.append(("push", norm(render(f.obj(n)) + " <- " + render(f.args(n)[0]))))
            elif n["k"] in ("ForStmt", "WhileStmt"):
                c = f.nodes.get(n.get("cond"))
                out.append(("loop", norm(render(c)) if c else ""))
            elif n["k"] == "IfStmt":
                out.append(("if", norm(render(f.nodes[n["cond"]]))))
            elif n["k"] == "DeclStmt":
                for d in n["decls"]:
                    if d.get("init") is not None:
                        out.append(("decl", norm(d["name"] + " = " + render(d["init"]))))
            elif n["k"] in ("CXXConstructExpr", "CXXTemporaryObjectExpr") and n["callee"].get("cls") == "bpp::Parameter" and len(f.args(n)) >= 2:
                out.append(("theta", norm(render(f.args(n)[1]))))
    return out


def _d1(chk, fb):
    ctor = [c for c in fb.q(S + "::Simplex") if c.params and "vector" in c.params[0]["ty"]]
    if len(ctor) != 1:
        raise AnalysisBroken("anchor vanished: Simplex(const std::vector<double>&, ...)")
    ctor = ctor[0]
    setf = fb.q1(S + "::setFrequencies")
    cb, sb = _case_bodies(ctor), _case_bodies(setf)
    if not cb or not sb:
        # the codings are selected by something else than a switch (if-chain, helpers): the two copies are not paired here
        chk.unknown("D1", setf.key, "coding-agrees", setf.loc(), "the coding is not selected by 'switch (method_)' in %s: the copies are not compared" % ("the constructor" if not cb else "setFrequencies"))
        return
    chk.floor("D1", "coding methods in constructor and setFrequencies", min(len(cb), len(sb)), 3)
    ren_c = [(r"\bvProb_\b", "P")]
    ren_s = [(r"\bprobas\b", "P")]
    for m in sorted(set(cb) & set(sb)):
        a = _formulas(ctor, cb[m], ren_c)
        b = _formulas(setf, sb[m], ren_s)
        # the constructor of method 2 pushes valpha_ in a second loop, setFrequencies assigns valpha_[i] in the same loop:
        # compare value formulas, not containers' fill style
        def vals(x):
            out = []
            for k, t in x:
                if k == "push":
                    out.append(("alpha", t.split(" <- ", 1)[1]))
                elif k == "assign" and t.startswith("(valpha_["):
                    out.append(("alpha", t.split(" = ", 1)[1][:-1]))
                elif k in ("theta", "assign", "decl", "if", "step") and not (k == "assign" and t.startswith("(valpha_[")):
                    out.append((k, t))
            return sorted(out)
        va, vb = vals(a), vals(b)
        if va == vb:
            chk.proved("D1", setf.key, "coding-agrees:method%d" % m, setf.loc(sb[m][0]), "%d formula statements identical in constructor and setFrequencies" % len(va))
        elif len(va) == len(vb) and sum(1 for x, y in zip(va, vb) if x != y) == 1:
            x, y = [(x, y) for x, y in zip(va, vb) if x != y][0]
            chk.refuted("D1", setf.key, "coding-agrees:method%d" % m, setf.loc(sb[m][0]),
                        "coding %d is implemented twice; the constructor computes '%s' where setFrequencies computes '%s': the setter does not store the inverse image the constructor (and fireParameterChanged) define" % (m, x[1], y[1]),
                        witness={"input": "a probability vector for which the two expressions differ"})
        else:
            chk.unknown("D1", setf.key, "coding-agrees:method%d" % m, setf.loc(sb[m][0]), "the two copies have different shapes (%d vs %d statements): compare by hand" % (len(va), len(vb)))


def _d2(chk, fb):
    for q in (S + "::setFrequencies", "bpp::OrderedSimplex::setFrequencies"):
        f = fb.q1(q)
        cfg = f.cfg
        p = f.params[0]["name"]
        idx = [c for c in f.calls() if c["callee"]["name"] in ("operator[]", "at") and "obj" in c and render(f.obj(c)) == p]
        chk.floor("D2", "indexed reads of the argument in " + q, len(idx), 2)
        # bounds derived from dim_ (or from the argument's own size)
        own = all("dim_" not in render(f.nodes[lp["cond"]]) for c in idx for lp in [f.enclosing(c, ("ForStmt", "WhileStmt"))] if lp is not None and "cond" in lp) and "dim_" not in "".join(render(c) for c in idx)
        sub = local_inits(f)
        uses_dim = any("dim_" in render(f.nodes[lp["cond"]], sub) for c in idx for lp in [f.enclosing(c, ("ForStmt", "WhileStmt"))] if lp is not None and "cond" in lp)
        if not uses_dim:
            chk.proved("D2", f.key, "argument-size", f.loc(), "indices bounded by the argument's own size")
            continue

        sizes = [re.escape(p + ".size()")] + [re.escape(dd["name"]) for d in f.all_nodes() if d["k"] == "DeclStmt" for dd in d["decls"]
                                                if dd.get("init") is not None and dd["id"] in sub and render(dd["init"]) == p + ".size()"]
        szre = "(?:%s)" % "|".join(sizes)

        def est(facts, p=szre):
            for t, tr, nd in facts:
                if re.match(r"\(%s != dim_\)|\(dim_ != %s\)" % (p, p), t) and tr is False:
                    return True
                if re.match(r"\(%s == dim_\)|\(dim_ == %s\)" % (p, p), t) and tr is True:
                    return True
            return False
        bad = [c for c in idx if not e1.guarded_by(cfg, cfg.stmt_block(c), est)[0]]
        if bad:
            chk.refuted("D2", f.key, "argument-size", f.loc(bad[0]),
                        "'%s[...]' is indexed with bounds derived from dim_ but no test relates %s.size() to dim_: a shorter vector (whose entries sum to one) is read out of range" % (p, p),
                        witness={"input": "Simplex of dimension 4, setFrequencies({0.5, 0.5})"})
        else:
            chk.proved("D2", f.key, "argument-size", f.loc(), "size test dominates every indexed read")


def _d3(chk, fb):
    n = 0
    for c in [x for x in fb.q(S + "::Simplex") if not x.rec.get("copyctor")]:
        # every value a local may hold: its initialiser and what is assigned to it
        vals = {}
        for d in c.all_nodes():
            if d["k"] == "DeclStmt":
                for dd in d["decls"]:
                    vals.setdefault(dd["name"], [])
                    if dd.get("init") is not None:
                        vals[dd["name"]].append(render(dd["init"]))
            elif d["k"] == "BinaryOperator" and d["op"] == "=" and strip(kids(d)[0])["k"] == "DeclRefExpr":
                vals.setdefault(strip(kids(d)[0])["decl"]["name"], []).append(render(kids(d)[1]))
            elif is_call(d) and d["callee"]["name"] == "operator=" and "obj" in d and strip(c.obj(d))["k"] == "DeclRefExpr":
                vals.setdefault(strip(c.obj(d))["decl"]["name"], []).append(render(c.args(d)[0]))
        tests_flag = any("allowNull" in render(c.nodes[x["cond"]]) for x in c.all_nodes() if x["k"] in ("IfStmt", "ConditionalOperator") and isinstance(x.get("cond"), int) and x["cond"] in c.nodes) or \
            any(x["k"] == "ConditionalOperator" and "allowNull" in render(kids(x)[0]) for x in c.all_nodes())
        for nw in [x for x in c.all_nodes() if x["k"] == "CXXNewExpr" and x.get("newty") == "bpp::Parameter"]:
            n += 1
            ce = [x for x in kids(nw) if x["k"] == "CXXConstructExpr"][0]
            args = c.args(ce)
            if len(args) < 3 or args[2] is None or args[2]["k"] == "CXXDefaultArgExpr":
                chk.refuted("D3", c.key, "constrained-parameter", c.loc(nw), "a simplex parameter is created without the allowNull-selected [0,1] / ]0,1[ constraint (no constraint argument)")
                continue
            refs = [x["decl"]["name"] for x in walk(args[2]) if x["k"] == "DeclRefExpr"]
            txt = " ".join(vals.get(refs[0], [])) if len(refs) == 1 and refs[0] in vals else render(args[2])
            both = "PROP_CONSTRAINT_IN" in txt and "PROP_CONSTRAINT_EX" in txt
            if both and tests_flag:
                chk.proved("D3", c.key, "constrained-parameter", c.loc(nw), "constraint '%s' takes [0,1] or ]0,1[ under a test of allowNull" % render(args[2]))
            elif not both and ("PROP_CONSTRAINT_IN" in txt or "PROP_CONSTRAINT_EX" in txt or txt in ("nullptr", "0", "")):
                chk.refuted("D3", c.key, "constrained-parameter", c.loc(nw), "a simplex parameter is created without the allowNull-selected [0,1] / ]0,1[ constraint (%s)" % [render(args[2])])
            else:
                chk.unknown("D3", c.key, "constrained-parameter", c.loc(nw), "constraint argument '%s' not traced to the two proportion constraints" % render(args[2]))
    chk.floor("D3", "parameters created by the constructors", n, 5)


def _d4(chk, fb):
    f = fb.q1(S + "::fireParameterChanged")
    n = 0
    for lp in [x for x in walk(f.body) if x["k"] in ("ForStmt", "CXXForRangeStmt")]:
        body = f.nodes[lp["body"]]
        writes = [x for x in walk(body) if x["k"] in ("BinaryOperator", "CompoundAssignOperator") and x.get("op") in ("=", "/=", "*=") and (render(kids(x)[0]).startswith("vProb_[") or (lp["k"] == "CXXForRangeStmt" and render(f.nodes[lp["rangeinit"]]) == "vProb_"))]
        if not writes:
            continue
        n += 1
        exits = [x for x in walk(body) if x["k"] in ("BreakStmt", "ReturnStmt", "ContinueStmt") and f.enclosing(x, ("ForStmt", "WhileStmt", "DoStmt", "CXXForRangeStmt", "SwitchStmt")) is lp]
        if exits:
            chk.refuted("D4", f.key, "fills-every-entry", f.loc(exits[0]), "the loop that writes vProb_[i] can be left early (%s): the remaining entries keep their previous values and the vector no longer sums to one" % exits[0]["k"],
                        witness={"input": "parameters that trigger the early exit after some other values were held"})
        else:
            chk.proved("D4", f.key, "fills-every-entry", f.loc(lp), "no early exit in the loop writing vProb_")
    chk.floor("D4", "loops writing vProb_", n, 4)
    # the last entry of method 1 receives the remaining mass
    last = [x for x in walk(f.body) if x["k"] == "BinaryOperator" and x["op"] == "=" and render(kids(x)[0]) == "vProb_[(dim_ - 1)]"]
    if last:
        chk.proved("D4", f.key, "last-entry", f.loc(last[0]), "vProb_[dim_ - 1] = %s" % render(kids(last[0])[1]))
    else:
        chk.refuted("D4", f.key, "last-entry", f.loc(), "the last probability of the global-ratio coding is no longer assigned the remaining mass")


def _d5(chk, fb):
    """a countdown loop 'for (i = N; i > 0; --i)' visits N .. 1.  When its body stores into a member vector at [i - 1] every
    element 0 .. N-1 is written; when it stores at [i] element 0 is never written unless another statement of the function does"""
    import re
    n = 0
    for f in fb.concrete_fns():
        if f.body is None or not f.relfile.endswith(("Bpp/Numeric/Prob/Simplex.cpp", "Bpp/Numeric/Prob/Simplex.h")):
            continue
        for lp in [x for x in f.all_nodes() if x["k"] == "ForStmt" and x.get("cond") is not None and x.get("body") is not None]:
            cond = strip(f.nodes[lp["cond"]])
            if not (cond["k"] == "BinaryOperator" and cond["op"] in (">", "!=") and strip(kids(cond)[0])["k"] == "DeclRefExpr" and strip(kids(cond)[1])["k"] == "IntegerLiteral" and strip(kids(cond)[1])["val"] == 0):
                continue
            iv = strip(kids(cond)[0])["decl"]["name"]
            inc = f.nodes.get(lp.get("inc")) if lp.get("inc") is not None else None
            if inc is None or "--" not in render(inc):
                continue
            body = f.nodes[lp["body"]]
            for w in walk(body):
                if w["k"] in ("BinaryOperator", "CompoundAssignOperator") and w.get("op", "").endswith("=") and w["op"] not in ("==", "!=", "<=", ">="):
                    l_ = strip(kids(w)[0])
                    if is_call(l_) and l_.get("op") == "[]" and "obj" in l_:
                        vec = strip(f.obj(l_))
                        if vec["k"] != "MemberExpr" or not vec["member"].get("this"):
                            continue
                        idx = render(f.args(l_)[0])
                        n += 1
                        con = "countdown:%s[%s]" % (vec["member"]["name"], idx)
                        if idx == "(%s - 1)" % iv:
                            chk.proved("D5", f.key, con, f.loc(w), "the loop runs %s = N..1 and stores at [%s - 1]: elements N-1..0" % (iv, iv))
                        elif idx == iv:
                            zero = [x for x in f.all_nodes() if x["k"] in ("BinaryOperator", "CompoundAssignOperator") and x.get("op", "").endswith("=") and render(kids(x)[0]) in ("%s[0]" % vec["member"]["name"],) and not f.contains(lp, x)]
                            if zero:
                                chk.proved("D5", f.key, con, f.loc(w), "element 0 is written outside the loop (%s)" % f.loc(zero[0]))
                            else:
                                chk.refuted("D5", f.key, con, f.loc(w),
                                            "the loop stops at %s > 0 and stores at [%s]: element 0 of %s is never recomputed here and keeps its previous value" % (iv, iv, vec["member"]["name"]),
                                            witness={"history": "a parameter update after construction: the first stored value is stale"})
                        else:
                            chk.unknown("D5", f.key, con, f.loc(w), "index form '%s' not related to the counter" % idx)
    # the same countdown spelled 'i = N; while (i > 0) { --i; ... v[i] ... }': the decrement comes first, so the stores run N-1..0
    for f in fb.concrete_fns():
        if f.body is None or not f.relfile.endswith(("Bpp/Numeric/Prob/Simplex.cpp", "Bpp/Numeric/Prob/Simplex.h")):
            continue
        for lp in [x for x in f.all_nodes() if x["k"] == "WhileStmt" and x.get("cond") is not None and x.get("body") is not None]:
            cond = strip(f.nodes[lp["cond"]])
            if not (cond["k"] == "BinaryOperator" and cond["op"] in (">", "!=") and strip(kids(cond)[0])["k"] == "DeclRefExpr" and strip(kids(cond)[1])["k"] == "IntegerLiteral" and strip(kids(cond)[1])["val"] == 0):
                continue
            iv = strip(kids(cond)[0])["decl"]["name"]
            body = f.nodes[lp["body"]]
            stmts = kids(body) if body["k"] == "CompoundStmt" else [body]
            first_dec = bool(stmts) and render(stmts[0]) in ("--%s" % iv, "%s--" % iv, "(%s -= 1)" % iv)
            for w in walk(body):
                if w["k"] in ("BinaryOperator", "CompoundAssignOperator") and w.get("op", "").endswith("=") and w["op"] not in ("==", "!=", "<=", ">="):
                    l_ = strip(kids(w)[0])
                    if is_call(l_) and l_.get("op") == "[]" and "obj" in l_:
                        vec = strip(f.obj(l_))
                        if vec["k"] == "MemberExpr" and vec["member"].get("this") and render(f.args(l_)[0]) == iv:
                            n += 1
                            if first_dec:
                                chk.proved("D5", f.key, "countdown:%s[%s]" % (vec["member"]["name"], iv), f.loc(w), "'%s' is decremented at the top of the body: the stores run from N-1 down to 0" % iv)
                            else:
                                chk.unknown("D5", f.key, "countdown:%s[%s]" % (vec["member"]["name"], iv), f.loc(w), "while-form countdown whose decrement is not the first statement of the body")
    chk.floor("D5", "countdown loops storing into member vectors", n, 1)


def _mentions_method(f, n, depth=2):
    for x in walk(n):
        if x["k"] == "MemberExpr" and x["member"]["name"] == "method_":
            return True
        if is_call(x) and x["callee"].get("name") == "getMethod":
            return True
        if depth and x["k"] == "DeclRefExpr" and x["decl"].get("kind") == "local":
            for d in f.all_nodes():
                if d["k"] == "DeclStmt":
                    for dd in d["decls"]:
                        if dd["id"] == x["decl"]["id"] and dd.get("init") is not None and _mentions_method(f, dd["init"], depth - 1):
                            return True
    return False


def _d6(chk, fb):
    """the three codings define three different parameter formulas (D1 compares them per case label).  A theta value computed
    from the probabilities on a path that never branches on method_ is therefore given to every coding alike"""
    n = 0
    for f in fb.concrete_fns():
        if f.body is None or not f.relfile.endswith("Bpp/Numeric/Prob/Simplex.cpp") or not f.key.startswith(S + "::"):
            continue
        cfg = None
        for c in f.all_nodes():
            if not (c["k"] in ("CXXConstructExpr", "CXXTemporaryObjectExpr") and c["callee"].get("cls") == "bpp::Parameter" and len(f.args(c)) >= 2):
                continue
            val = f.args(c)[1]
            if not any(x["k"] in ("DeclRefExpr", "MemberExpr") or is_call(x) for x in walk(val)):
                continue        # a literal start value
            if cfg is None:
                cfg = f.cfg
                testers = set()
                for b in cfg.blocks.values():
                    tc = f.nodes.get(b.get("termcond")) if b.get("termcond") is not None else None
                    if tc is not None and len(b["succ"]) >= 2 and _mentions_method(f, tc):
                        testers.add(b["id"])
            blk = cfg.stmt_block(c)
            if blk is None:
                chk.unknown("D6", f.key, "coding-dependent-theta", f.loc(c), "parameter creation not located in the flow graph")
                continue
            n += 1
            if blk not in testers and e1.path_exists(cfg, cfg.entry, blk, avoid_blocks=testers):
                chk.refuted("D6", f.key, "coding-dependent-theta", f.loc(c),
                            "the parameter value '%s' is computed from the probabilities on a path that never tests method_: the same formula is stored for all three codings, "
                            "whose constructor and fireParameterChanged definitions differ" % render(val),
                            witness={"input": "a non-uniform probability vector under a coding whose own formula differs from this one"})
            else:
                chk.proved("D6", f.key, "coding-dependent-theta", f.loc(c), "every path to this parameter value branches on method_ first")
    chk.floor("D6", "parameter values computed from probabilities", n, 7)


def run(chk, fb, tier):
    chk.rule("D1", "per coding method, constructor(probas) and setFrequencies(probas) compute the same parameter formulas (clone agreement under renaming)")
    chk.rule("D2", "setFrequencies indexes its argument with dim_-derived bounds only under a dominating test probas.size() == dim_")
    chk.rule("D3", "every 'new Parameter' in the constructors receives the constraint 'allowNull ? PROP_CONSTRAINT_IN : PROP_CONSTRAINT_EX'")
    chk.rule("D4", "loops of fireParameterChanged assigning vProb_[i] have no break/return/continue of their own; the last entry of the global-ratio coding gets the remaining mass")
    _d1(chk, fb)
    _d2(chk, fb)
    _d3(chk, fb)
    _d4(chk, fb)
    chk.rule("D5", "a countdown loop 'i = N; i > 0; --i' that stores into a member vector stores at [i - 1] (or element 0 is written elsewhere)")
    _d5(chk, fb)
    chk.rule("D6", "a parameter value computed from the probabilities is reached only through a branch on method_ (the codings' formulas differ)")
    _d6(chk, fb)
    from . import argswap as _argswap
    chk.rule("DA", "argument/parameter name agreement at forwarding calls in the anchored units (same-typed parameters must not be swapped)")
    _af = ('src/Bpp/Numeric/Prob/Simplex.h', 'src/Bpp/Numeric/Prob/Simplex.cpp', 'src/Bpp/Numeric/Hmm/FullHmmTransitionMatrix.cpp', 'src/Bpp/Numeric/Prob/MixtureOfDiscreteDistributions.cpp')
    _argswap.check(chk, fb, "DA", [f_ for f_ in fb.concrete_fns() if f_.body is not None and any(f_.relfile.endswith(x_) for x_ in _af)], 1)
    chk.assume("class invariant size(vProb_) == dim_ (established by both constructors)")
