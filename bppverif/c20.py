"""C20 Range collections behave as sets of points.

Decided clauses:
 D1 range primitives decided exactly over all order types of the four end points (E3), for the
    instantiations Range<int>, Range<unsigned long>, Range<double>
 D1b a shift applies the same operator and operand to both ends
 D2 deep copies: every pointer stored by copy-ctor/operator= comes from clone(); operator= clears first
 D3 canonical form re-established: every MultiRange mutator reaches clean_(); clean_ sorts and removes empties
 D4 ownership pairing: every erase of an element is preceded by delete of that element, every delete followed by erase/clear
"""
import itertools
from .facts import local_inits, kids, strip, walk, is_call, render, AnalysisBroken
from . import e1
from .orderai import Interp, Obj, weak_orders, car, show, is_car

EXPLANATION = ("Static analysis of structural clauses of C20 on the instantiations Range/RangeSet/MultiRange<int|unsigned long|double>: "
               "D1 overlap/contains/isContiguous/isEmpty/expandWith/sliceWith/==/!=/constructor are decided exactly by abstract interpretation of "
               "their syntax trees over every weak order of the end points (non-empty operands against half-open interval arithmetic; for empty operands only "
               "what the statement fixes); D1b shifts treat both ends alike; D2 copies store clone() results and assignment clears first; D3 every MultiRange "
               "mutator re-establishes the canonical form through clean_() (sort + removal of empties); D4 delete/erase pairing. NOT decided: union/length over "
               "operation histories, the merge algorithm of addRange over all configurations, rangeComp_ being a strict weak order only on disjoint ranges.")

TYPES = ["int", "unsigned long", "double"]


def instantiations(fb, headers):
    s = ""
    for t in TYPES:
        s += "template class bpp::Range<%s>;\ntemplate class bpp::RangeSet<%s>;\ntemplate class bpp::MultiRange<%s>;\n" % (t, t, t)
    return s


def _rng(T, b, e):
    return Obj("bpp::Range<%s>" % T, {"begin_": b, "end_": e})


def _d1(chk, fb, tier):
    for T in TYPES:
        cls = "bpp::Range<%s>" % T
        fb.need_class(cls)
        names = ["overlap", "contains", "isContiguous", "isEmpty", "expandWith", "sliceWith", "operator==", "operator!="]
        fns = {n: fb.q1(cls + "::" + n) for n in names}
        ctors = [f for f in fb.q(cls + "::Range") if len(f.params) == 2]
        if len(ctors) != 1:
            raise AnalysisBroken("anchor vanished: %s(a, b) constructor" % cls)
        ctor = ctors[0]
        ip = Interp(fb)
        ip.literal_hook = lambda v: car(-1000 + 2 * int(v)) if float(v) == int(v) else (_ for _ in ()).throw(AnalysisBroken("non-integer literal in Range"))
        # std::min / std::max only compare and copy
        ip.consts = {}
        orig = ip.do_call

        def do_call(n, fr, orig=orig, ip=ip):
            q = n["callee"]["qname"]
            if q in ("std::min", "std::max"):
                a, b = [ip.ev(fr["fn"].nodes[i], fr) for i in n["args"]]
                if not (is_car(a) and is_car(b)):
                    raise AnalysisBroken("std::min/max on non-carrier")
                return (min if q == "std::min" else max)(a, b)
            return orig(n, fr)
        ip.do_call = do_call
        stats = {n: [0, 0, None] for n in names + ["ctor"]}

        def rec(k, ok, desc):
            stats[k][0] += 1
            if not ok:
                stats[k][1] += 1
                stats[k][2] = stats[k][2] or desc

        def call(k, this, args):
            ip.steps = 0
            return ip.call(fns[k], this, args)
        # constructor: all orders of (a, b)
        for o in weak_orders(["a", "b"], extremes=False):
            ob = Obj(cls, {})
            ip.steps = 0
            ip.call(ctor, ob, [o["a"], o["b"]])
            rec("ctor", ob.fields.get("begin_") == min(o["a"], o["b"]) and ob.fields.get("end_") == max(o["a"], o["b"]),
                "Range(%s,%s) stores [%s,%s[" % (show(o["a"]), show(o["b"]), show(ob.fields.get("begin_")), show(ob.fields.get("end_"))))
        orders = [o for o in weak_orders(["b1", "e1", "b2", "e2"], extremes=False) if o["b1"] <= o["e1"] and o["b2"] <= o["e2"]]
        n_nonempty = 0
        for o in orders:
            b1, e1_, b2, e2 = o["b1"], o["e1"], o["b2"], o["e2"]
            d = "[%s,%s[ vs [%s,%s[" % (show(b1), show(e1_), show(b2), show(e2))
            emp1, emp2 = b1 == e1_, b2 == e2
            A = lambda: _rng(T, b1, e1_)
            R = lambda: _rng(T, b2, e2)
            rec("isEmpty", call("isEmpty", A(), []) == emp1, d + " isEmpty")
            rec("operator==", call("operator==", A(), [R()]) == (b1 == b2 and e1_ == e2), d + " ==")
            rec("operator!=", call("operator!=", A(), [R()]) == (not (b1 == b2 and e1_ == e2)), d + " !=")
            ib, ie = max(b1, b2), min(e1_, e2)       # intersection
            inter_nonempty = ib < ie
            if not emp1 and not emp2:
                n_nonempty += 1
                got = call("overlap", A(), [R()])
                rec("overlap", got == inter_nonempty, "%s overlap = %s, point sets %s" % (d, got, "intersect" if inter_nonempty else "are disjoint"))
                got = call("contains", A(), [R()])
                rec("contains", got == (b1 <= b2 and e2 <= e1_), "%s contains = %s" % (d, got))
                got = call("isContiguous", A(), [R()])
                rec("isContiguous", got == (e1_ == b2 or e2 == b1), "%s isContiguous = %s" % (d, got))
                a = A()
                call("expandWith", a, [R()])
                touching = inter_nonempty or e1_ == b2 or e2 == b1
                want = (min(b1, b2), max(e1_, e2)) if touching else (b1, e1_)
                rec("expandWith", (a.fields["begin_"], a.fields["end_"]) == want, "%s expandWith gives [%s,%s[, expected [%s,%s[" % (
                    d, show(a.fields["begin_"]), show(a.fields["end_"]), show(want[0]), show(want[1])))
                a = A()
                call("sliceWith", a, [R()])
                gb, ge = a.fields["begin_"], a.fields["end_"]
                if inter_nonempty:
                    rec("sliceWith", (gb, ge) == (ib, ie), "%s sliceWith gives [%s,%s[, expected [%s,%s[" % (d, show(gb), show(ge), show(ib), show(ie)))
                else:
                    rec("sliceWith", gb == ge, "%s sliceWith gives non-empty [%s,%s[ for disjoint ranges" % (d, show(gb), show(ge)))
            else:
                # degenerate operands: only what the statement fixes
                a = A()
                call("sliceWith", a, [R()])
                rec("sliceWith", a.fields["begin_"] == a.fields["end_"], "%s slicing with/of an empty range gives non-empty [%s,%s[" % (d, show(a.fields["begin_"]), show(a.fields["end_"])))
                a = A()
                call("expandWith", a, [R()])
                res = (a.fields["begin_"], a.fields["end_"])
                if emp2:
                    rec("expandWith", res == (b1, e1_), "%s expanding with an empty range changed the range to [%s,%s[" % (d, show(res[0]), show(res[1])))
                else:
                    rec("expandWith", res in ((b1, e1_), (b2, e2)), "%s expanding an empty range gives [%s,%s[" % (d, show(res[0]), show(res[1])))
        chk.extra.setdefault("orderai", {})[T] = {"order_types": len(orders), "non_empty_pairs": n_nonempty,
                                                  "evaluations": {k: v[0] for k, v in stats.items()}, "failures": {k: v[1] for k, v in stats.items()}, "exhaustive_for_clause_D1": True}
        for k, (n, bad, first) in stats.items():
            f = ctor if k == "ctor" else fns[k]
            if bad == 0:
                chk.proved("D1", f.key, "order-types", f.loc(), "%d abstract cases agree with half-open interval arithmetic" % n)
            else:
                chk.refuted("D1", f.key, "order-types", f.loc(), "%d of %d abstract cases disagree with half-open interval arithmetic; first: %s" % (bad, n, first), witness={"abstract_input": first})
        # D1b shifts
        for opn in ("operator+=", "operator-="):
            f = fb.q1(cls + "::" + opn)
            ops = {}
            for n in walk(f.body):
                if n["k"] == "CompoundAssignOperator":
                    ops[render(kids(n)[0])] = (n["op"], render(kids(n)[1]))
            want = "+=" if opn == "operator+=" else "-="
            if set(ops) == {"begin_", "end_"} and ops["begin_"] == ops["end_"] and ops["begin_"][0] == want and ops["begin_"][1] == f.params[0]["name"]:
                chk.proved("D1b", f.key, "shift-both-ends", f.loc(), "begin_ and end_ both %s %s" % ops["begin_"])
            else:
                chk.refuted("D1b", f.key, "shift-both-ends", f.loc(), "shift does not apply '%s %s' to both ends: %s" % (want, f.params[0]["name"], ops))


def _push_backs(f, field="ranges_"):
    out = []
    for n in f.calls():
        if n["callee"]["name"] in ("push_back", "emplace_back", "insert") and "obj" in n and render(f.obj(n)) == field:
            out.append(n)
    return out


def _d2(chk, fb):
    T = "int"
    for coll in ("RangeSet", "MultiRange"):
        cls = "bpp::%s<%s>" % (coll, T)
        cands = [f for f in fb.q(cls + "::" + coll) if f.rec.get("copyctor")] + fb.q(cls + "::operator=")
        chk.floor("D2", "copy functions of " + cls, len(cands), 2)
        work = list(cands)
        seen_ = set()
        while work:
            f = work.pop(0)
            if f.key in seen_:
                continue
            seen_.add(f.key)
            pbs = _push_backs(f)
            if not pbs:
                # the copying may have been moved into a helper of the class that receives the source collection
                src_ = f.params[0]["name"] if f.params else None
                helpers = [t for c in f.calls() if c["callee"].get("inrepo") and c["callee"].get("cls") == cls and src_ and any(render(a) == src_ for a in f.args(c))
                           for t in fb.targets(c) if t.body is not None and t.key not in seen_]
                whole = [n for n in f.all_nodes() if n["k"] == "BinaryOperator" and n["op"] == "=" and render(kids(n)[0]) == "ranges_"] + \
                        [c for c in f.calls() if c["callee"]["name"] in ("operator=", "assign", "swap") and "obj" in c and render(f.obj(c)) == "ranges_"] + \
                        [i for i in f.rec.get("inits", []) if i.get("fname") == "ranges_" and i.get("written") and src_ and src_ in render(f.nodes.get(i["expr"]) if isinstance(i.get("expr"), int) else i.get("expr"))]
                if helpers:
                    work.extend(helpers)
                    chk.proved("D2", f.key, "copy-stores", f.loc(), "copy delegated to %s (analysed in its place)" % ", ".join(h.name for h in helpers))
                elif whole:
                    chk.refuted("D2", f.key, "clone-stored", f.loc(), "copy takes over the source's pointer vector as a whole: both collections own (and will delete) the same ranges")
                else:
                    chk.unknown("D2", f.key, "copy-stores", f.loc(), "no insertion into ranges_ recognised in the copy function")
                continue
            li_ = local_inits(f)
            for n in pbs:
                a = strip(f.args(n)[-1])
                hops = 0
                while a["k"] == "DeclRefExpr" and a["decl"]["kind"] == "local" and a["decl"]["id"] in li_ and hops < 3:
                    a = strip(li_[a["decl"]["id"]])      # a named pointer holding the clone
                    hops += 1
                src_ = f.params[0]["name"] if f.params else None
                if is_call(a) and a["callee"]["name"] == "clone":
                    chk.proved("D2", f.key, "clone-stored", f.loc(n), "stores %s" % render(a))
                elif any(is_call(x) and x["callee"]["name"] == "clone" for x in walk(a)) or a["k"] == "CXXNewExpr":
                    chk.proved("D2", f.key, "clone-stored", f.loc(n), "stores a new object (%s)" % render(a)[:50])
                elif src_ and src_ in render(a) or (a["k"] == "DeclRefExpr" and any(a["decl"]["id"] == v_ for v_ in e1.rangefor_vars(f))) or (a["k"] == "UnaryOperator" and a["op"] == "*"):
                    chk.refuted("D2", f.key, "clone-stored", f.loc(n), "copy stores '%s' (the source's own pointer) instead of a clone()" % render(a))
                else:
                    chk.unknown("D2", f.key, "clone-stored", f.loc(n), "what is stored ('%s') is not traced to the source or to a clone" % render(a)[:50])
            if f.name == "operator=":
                cfg = f.cfg
                clears = e1.blocks_with(cfg, lambda n: is_call(n) and n["callee"]["name"] in ("clear_", "clear") and (("obj" not in n) or render(f.obj(n)) in ("this", "ranges_")))
                bad = [n for n in pbs if not any(cfg.dominates(c, cfg.stmt_block(n)) for c in clears)]
                if bad:
                    chk.refuted("D2", f.key, "assign-clears-first", f.loc(bad[0]), "operator= inserts without clearing the previous content first")
                else:
                    chk.proved("D2", f.key, "assign-clears-first", f.loc(), "clear dominates every insertion")


def _elem_mutations(f):
    """calls of non-const Range methods on elements of ranges_ / insertions into ranges_"""
    out = []
    for n in f.calls():
        c = n["callee"]
        if c["name"] in ("expandWith", "sliceWith", "operator+=", "operator-=", "operator=") and c.get("cls", "").startswith("bpp::Range"):
            out.append(n)
        # an algorithm that permutes ranges_ without keeping the relative order of what it keeps (std::partition swaps a leading
        # discarded element with the last kept one); stable_partition / remove_if / sort keep or establish the order
        elif c["name"] in ("partition", "reverse", "rotate", "random_shuffle", "shuffle", "swap_ranges", "iter_swap", "next_permutation", "prev_permutation", "nth_element", "partial_sort") \
                and c.get("qname", "").startswith("std::") and any(render(x).startswith("ranges_.") for x in f.args(n)):
            out.append(n)
    return out + _push_backs(f)


def _d3(chk, fb):
    for T in TYPES:
        cls = "bpp::MultiRange<%s>" % T
        c = fb.need_class(cls)
        clean = fb.q1(cls + "::clean_")
        n_mut = 0
        for m in c["methods"]:
            f = fb.fns.get(m["key"])
            if f is None or f.rec.get("ctor") or f.rec.get("dtor") or f.name in ("clean_", "operator=") or m["access"] != 0:
                continue
            muts = _elem_mutations(f)
            if not muts:
                continue
            n_mut += 1
            cfg = f.cfg
            cleans = e1.blocks_with(cfg, lambda n: is_call(n) and n["callee"]["name"] == "clean_")
            bad = None
            for mu in muts:
                b = cfg.stmt_block(mu)
                ok, path = e1.must_pass(cfg, cleans, start=b)
                if b in cleans:
                    # clean_ in the same block must come after the mutation
                    el = cfg.blocks[b]["el"]
                    ci = max(i for i, e in enumerate(el) if is_call(f.nodes.get(e, {})) and f.nodes[e]["callee"]["name"] == "clean_")
                    mi = e1._elem_index(cfg, el, mu)
                    ok = mi is not None and mi < ci
                if not ok:
                    bad = (mu, path)
                    break
            if bad:
                chk.refuted("D3", f.key, "clean-after-mutation", f.loc(bad[0]), "'%s' can reach the normal exit without clean_()" % render(bad[0]), witness={"blocks": bad[1]})
            else:
                chk.proved("D3", f.key, "clean-after-mutation", f.loc(), "%d mutation sites, all followed by clean_() on every path" % len(muts))
        chk.floor("D3", "mutating members of " + cls, n_mut, 2)
        # clean_ sorts with the range comparator and erases exactly the empties
        # clean_ may delegate its two halves to private members of the class: they are analysed as part of it
        unit = [clean]
        for g_ in list(unit):
            for c_ in g_.calls():
                if c_["callee"].get("inrepo") and ("obj" not in c_ or strip(g_.obj(c_))["k"] == "CXXThisExpr"):
                    for t_ in fb.targets(c_, static_type_only=True):
                        if t_.body is not None and t_.cls == cls and t_.key not in {u.key for u in unit} and len(unit) < 6:
                            unit.append(t_)
        sorts_by = [(g_, n) for g_ in unit for n in g_.calls() if n["callee"]["qname"] == "std::sort"]
        sorts = [n for _, n in sorts_by]
        ok_sort = False
        for s in sorts:
            gs_ = [g_ for g_, n_ in sorts_by if n_ is s][0]
            a = [render(x) for x in gs_.args(s)]
            if len(a) == 3 and a[0] == "ranges_.begin()" and a[1] == "ranges_.end()" and "rangeComp_" in (gs_.args(s)[2].get("ty") or ""):
                ok_sort = True
        if ok_sort:
            chk.proved("D3", clean.key, "sorts", clean.loc(), "std::sort(ranges_.begin(), ranges_.end(), rangeComp_)")
        elif sorts:
            chk.refuted("D3", clean.key, "sorts", clean.loc(), "clean_() calls std::sort but not over the whole of ranges_ with rangeComp_: %s" % [render(s_) for s_ in sorts])
        else:
            # a hand-written ordering pass cannot be judged by this rule: neither pass nor violation
            chk.fail_broken("anchor vanished: %s no longer orders ranges_ through std::sort; the canonical-order clause (D3) must be re-examined" % clean.key)
        # the half that removes the empties: clean_ itself or the helper it delegates to
        def _has_loop(g_):
            return any(x["k"] in ("ForStmt", "WhileStmt", "DoStmt", "CXXForRangeStmt") for x in g_.all_nodes()) or any(x["callee"]["name"] in ("remove_if",) for x in g_.calls())
        clean_e = clean if _has_loop(clean) else next((g_ for g_ in unit[1:] if _has_loop(g_) and any(x["callee"]["name"] == "erase" or x["callee"].get("inrepo") for x in g_.calls())), clean)
        cfg = clean_e.cfg
        erases = [n for n in clean_e.calls() if n["callee"]["name"] == "erase" and "obj" in n and render(clean_e.obj(n)) == "ranges_"]
        # a helper member that erases the position it is given from ranges_ erases at its call site
        for n in clean_e.calls():
            if n["callee"]["name"] != "erase" and ("obj" not in n or strip(clean_e.obj(n))["k"] == "CXXThisExpr") and clean_e.args(n):
                for t in fb.targets(n, static_type_only=True):
                    if t.key != clean_e.key and t.body is not None and t.cls == cls and any(
                            x["callee"]["name"] == "erase" and "obj" in x and render(t.obj(x)) == "ranges_" and t.args(x) and render(t.args(x)[0]) in {p_["name"] for p_ in t.params}
                            for x in t.calls()):
                        erases.append(n)
        if not erases:
            chk.refuted("D3", clean_e.key, "removes-empties", clean_e.loc(), "clean_() no longer removes empty ranges")
        for e in erases:
            a0 = strip(clean_e.args(e)[0]) if clean_e.args(e) else None
            if a0 is not None and is_call(a0) and a0["callee"]["name"] in ("remove_if",) and len(clean_e.args(a0)) == 3:
                # erase-remove idiom: the predicate decides; it must be an emptiness test
                pred = strip(clean_e.args(a0)[2])
                ptxt = render(pred, local_inits(clean_e))
                lam = [x for x in walk(pred)] + [x for d_ in clean_e.all_nodes() if d_["k"] == "DeclStmt" for dd in d_["decls"] if pred["k"] == "DeclRefExpr" and dd["id"] == pred["decl"]["id"] and dd.get("init") is not None for x in walk(dd["init"])]
                if any(is_call(x) and x["callee"]["name"] == "isEmpty" for x in lam):
                    chk.proved("D3", clean_e.key, "removes-empties", clean_e.loc(e), "erase(remove_if(.., predicate testing isEmpty()), end())")
                else:
                    chk.unknown("D3", clean_e.key, "removes-empties", clean_e.loc(e), "erase-remove with a predicate that could not be read")
                continue
            ok, path = e1.guarded_by(cfg, cfg.stmt_block(e), lambda facts: any(is_call(nd) and nd["callee"]["name"] == "isEmpty" and tr for _, tr, nd in facts))
            # and the loop must visit every element: a non-erasing path increments the iterator
            if ok:
                chk.proved("D3", clean_e.key, "removes-empties", clean_e.loc(e), "erase guarded by isEmpty()")
            else:
                chk.refuted("D3", clean_e.key, "removes-empties", clean_e.loc(e), "erase in clean_() is not restricted to empty ranges")
        # every empty must be erased: the isEmpty-true edge leads to the erase
        loops = e1.natural_loops(cfg)
        idioms = [e for e in erases if clean_e.args(e) and is_call(strip(clean_e.args(e)[0])) and strip(clean_e.args(e)[0])["callee"]["name"] == "remove_if"]
        chk.floor("D3", "loops / erase-remove idioms in clean_", len(loops) + len(idioms), 1)
    # RangeSet: addRange filters empties; restrictTo erases empties after slicing
    for T in TYPES:
        cls = "bpp::RangeSet<%s>" % T
        f = fb.q1(cls + "::addRange")
        cfg = f.cfg
        for n in _push_backs(f):
            ok, path = e1.guarded_by(cfg, cfg.stmt_block(n), lambda facts: any(is_call(nd) and nd["callee"]["name"] == "isEmpty" and tr is False for _, tr, nd in facts))
            if ok:
                chk.proved("D3", f.key, "no-empty-stored", f.loc(n), "insertion guarded by !isEmpty()")
            else:
                chk.refuted("D3", f.key, "no-empty-stored", f.loc(n), "RangeSet::addRange can store an empty range")
        f = fb.q1(cls + "::restrictTo")
        cfg = f.cfg
        sl = [n for n in f.calls() if n["callee"]["name"] == "sliceWith"]
        er = [n for n in f.calls() if n["callee"]["name"] == "erase"]
        # ... or a helper of the class that erases from ranges_ (delete + erase extracted)
        er += [n for n in f.calls() if n["callee"].get("inrepo") and ("obj" not in n or strip(f.obj(n))["k"] == "CXXThisExpr")
               and any(t.body is not None and any(y["callee"]["name"] == "erase" and "obj" in y and render(t.obj(y)).replace("this.", "") == "ranges_" for y in t.calls()) for t in fb.targets(n))]
        ok = bool(sl) and bool(er)
        if not ok:
            chk.unknown("D3", f.key, "slice-then-drop-empties", f.loc(), "slicing or removal not in a recognised form (sliceWith: %d, erase sites: %d)" % (len(sl), len(er)))
            continue
        if ok:
            # after slicing, the isEmpty-true edge must lead to the erase
            for e in er:
                g, _ = e1.guarded_by(cfg, cfg.stmt_block(e), lambda facts: any(is_call(nd) and nd["callee"]["name"] == "isEmpty" and tr for _, tr, nd in facts))
                ok = ok and g
            # and no path from slice back to the loop head avoids the isEmpty test
            tests = e1.blocks_with(cfg, lambda n: is_call(n) and n["callee"]["name"] == "isEmpty")
            for s in sl:
                b = cfg.stmt_block(s)
                if b not in tests:
                    for succ in cfg.succ[b]:
                        if succ not in tests and e1.path_exists(cfg, succ, b, avoid_blocks=tests):
                            ok = False
        if ok:
            chk.proved("D3", f.key, "slice-then-drop-empties", f.loc(), "every sliced element is tested with isEmpty() and erased when empty")
        else:
            chk.refuted("D3", f.key, "slice-then-drop-empties", f.loc(), "RangeSet::restrictTo can keep an element that became empty")


def _erase_advance(chk, fb):
    """a loop that visits every element of ranges_ and erases the current one must not also advance past the
    element that slides into its place (iterator: 'it = erase(it)' without ++; index: no ++i on the erase path)"""
    n_sites = 0
    for T in TYPES:
        for coll in ("RangeSet", "MultiRange"):
            cls = "bpp::%s<%s>" % (coll, T)
            for m in fb.need_class(cls)["methods"]:
                f = fb.fns.get(m["key"])
                if f is None or f.body is None:
                    continue
                cfg = f.cfg
                loops = e1.natural_loops(cfg)
                for e in [n for n in f.calls() if n["callee"]["name"] == "erase" and "obj" in n and render(f.obj(n)) == "ranges_"]:
                    arg = strip(f.args(e)[0])
                    # position expression: iterator variable, or begin() + <index variable>
                    var = None
                    if arg["k"] == "DeclRefExpr":
                        var = arg["decl"]
                    else:
                        refs = [x for x in walk(arg) if x["k"] == "DeclRefExpr" and x["decl"]["kind"] in ("local", "param")]
                        subs = [x for x in walk(arg) if is_call(x) and x["callee"]["name"] == "operator[]"]
                        if len(refs) == 1 and not subs:
                            var = refs[0]["decl"]
                    if var is None:
                        continue   # position looked up in another container (addRange's descending merge loop)
                    eb = cfg.stmt_block(e)
                    heads = [h for h, body in loops.items() if eb in body]
                    if not heads:
                        continue
                    head = min(heads, key=lambda h: len(loops[h]))
                    body = loops[head]
                    n_sites += 1
                    incs = set()
                    for b in body:
                        for el in cfg.blocks[b]["el"]:
                            n = f.nodes.get(el)
                            if n is None:
                                continue
                            if (n["k"] == "UnaryOperator" and n["op"] == "++") or (is_call(n) and n.get("op") == "++"):
                                tgt = strip(kids(n)[0]) if n["k"] == "UnaryOperator" else strip(f.obj(n) or (f.args(n)[0] if f.args(n) else None))
                                if tgt is not None and tgt["k"] == "DeclRefExpr" and tgt["decl"]["id"] == var["id"]:
                                    incs.add(b)
                    # path erase -> (increment) -> head within the loop
                    skip = any(e1.path_exists(cfg, eb, ib, avoid_blocks=(set(cfg.blocks) - body) | ({head} - {eb})) for ib in incs if ib != eb) or eb in incs
                    if skip:
                        chk.refuted("D3", f.key, "erase-then-advance:" + var["name"], f.loc(e),
                                    "after erasing the element at '%s' the loop also advances '%s': the element that moved into the erased slot is never visited" % (var["name"], var["name"]))
                    else:
                        chk.proved("D3", f.key, "erase-then-advance:" + var["name"], f.loc(e), "the erase path does not advance '%s'" % var["name"])
    chk.floor("D3", "erase-in-loop sites", n_sites, 12)


def _d4(chk, fb):
    n_sites = 0
    for T in TYPES:
        for coll in ("RangeSet", "MultiRange"):
            cls = "bpp::%s<%s>" % (coll, T)
            c = fb.need_class(cls)
            for m in c["methods"]:
                f = fb.fns.get(m["key"])
                if f is None or f.body is None:
                    continue
                cfg = f.cfg
                erases = [n for n in f.calls() if n["callee"]["name"] == "erase" and "obj" in n and render(f.obj(n)) == "ranges_"]
                deletes = [n for n in walk(f.body) if n["k"] == "CXXDeleteExpr"]
                clears = [n for n in f.calls() if n["callee"]["name"] == "clear" and "obj" in n and render(f.obj(n)) == "ranges_"]
                sub_ = local_inits(f)
                for e in erases:
                    n_sites += 1
                    b = cfg.stmt_block(e)
                    el = cfg.blocks[b]["el"]
                    ei = e1._elem_index(cfg, el, e)
                    arg = render(f.args(e)[0], sub_)
                    a0 = strip(f.args(e)[0])
                    if is_call(a0) and a0["callee"]["name"] in ("remove_if", "remove", "unique") and f.args(a0):
                        # erase-remove idiom: ownership is released by the predicate (a lambda deleting what it discards)
                        pred = strip(f.args(a0)[-1])
                        body = [x for x in walk(pred)]
                        if pred["k"] == "DeclRefExpr" and pred["decl"]["id"] in sub_:
                            body += [x for x in walk(sub_[pred["decl"]["id"]])]
                        if any(x["k"] == "CXXDeleteExpr" for x in body):
                            chk.proved("D4", f.key, "delete-before-erase", f.loc(e), "erase-remove whose predicate deletes the elements it discards")
                        else:
                            chk.unknown("D4", f.key, "delete-before-erase", f.loc(e), "erase-remove idiom: release of the discarded elements not visible")
                        continue
                    match = None
                    for d in deletes:
                        if cfg.stmt_block(d) == b and e1._elem_index(cfg, el, d) < ei:
                            op = render(kids(d)[0], sub_)
                            # delete *it ... erase(it)   |  delete ranges_[k] ... erase(begin()+k)
                            if op == "*" + arg or (op.startswith("ranges_[") and op[len("ranges_["):-1] in arg):
                                match = d
                    reaching = [d for d in deletes if cfg.stmt_block(d) is not None and (cfg.stmt_block(d) == b or e1.path_exists(cfg, cfg.stmt_block(d), b))]
                    if match is not None:
                        chk.proved("D4", f.key, "delete-before-erase", f.loc(e), "delete %s precedes erase(%s)" % (render(kids(match)[0]), arg))
                    elif reaching and (len(f.args(e)) == 2 or all(cfg.stmt_block(d) != b for d in reaching)):
                        # erase(first, last) after a loop that deletes, or a delete in another block: which elements are released is not compared
                        chk.unknown("D4", f.key, "delete-before-erase", f.loc(e), "a delete (%s) is executed before ranges_.erase(%s); that it releases exactly the erased elements is not decided" % (render(reaching[0]), arg))
                    else:
                        chk.refuted("D4", f.key, "delete-before-erase", f.loc(e), "ranges_.erase(%s) without deleting the element first (leak / dangling ownership)" % arg)
                for d in deletes:
                    n_sites += 1
                    b = cfg.stmt_block(d)
                    if b is None or f.enclosing(d, ("LambdaExpr",)) is not None:
                        chk.unknown("D4", f.key, "erase-after-delete", f.loc(d), "delete inside a lambda / outside the function's flow graph")
                        continue
                    targets = e1.blocks_with(cfg, lambda n: is_call(n) and n["callee"]["name"] in ("erase", "clear") and "obj" in n and render(f.obj(n)) == "ranges_")
                    ok, path = e1.must_pass(cfg, targets, start=b)
                    if ok:
                        chk.proved("D4", f.key, "erase-after-delete", f.loc(d), "every path after delete %s removes the pointer from ranges_" % render(kids(d)[0]))
                    else:
                        chk.refuted("D4", f.key, "erase-after-delete", f.loc(d), "delete %s can be followed by a return with the dangling pointer still stored" % render(kids(d)[0]), witness={"blocks": path})
                for cl in clears:
                    n_sites += 1
                    # clear() of the pointer vector must be preceded by a loop deleting the elements
                    if deletes and all(e1.before_in_function(cfg, d, cl) for d in deletes):
                        chk.proved("D4", f.key, "delete-before-clear", f.loc(cl), "elements deleted before ranges_.clear()")
                    else:
                        chk.refuted("D4", f.key, "delete-before-clear", f.loc(cl), "ranges_.clear() without deleting the owned elements")
    chk.floor("D4", "erase/delete/clear sites", n_sites, 30)


def run(chk, fb, tier):
    chk.rule("D1", "Range predicates, expansion, slicing and the constructor equal half-open interval arithmetic on every order type of the end points (exact; non-empty operands, plus the clauses the statement fixes for empty ones)")
    chk.rule("D1b", "operator+=/-= apply the same operator and operand to begin_ and end_")
    chk.rule("D2", "copy constructor / operator= of RangeSet and MultiRange store clone() results only; operator= clears first")
    chk.rule("D3", "every public MultiRange member that inserts into ranges_ or mutates an element reaches clean_() afterwards on every normal path; clean_ sorts with rangeComp_ and erases exactly the empty ranges; RangeSet never stores an empty range")
    chk.rule("D4", "every erase of a stored pointer is preceded by delete of it, every delete is followed by erase/clear, clear is preceded by deletes")
    _d1(chk, fb, tier)
    _d2(chk, fb)
    _d3(chk, fb)
    _erase_advance(chk, fb)
    _d4(chk, fb)
    from . import copyrule
    chk.rule("DC", "copy constructor and copy assignment of the range collections copy the same members, and operator= empties the owned list on every path (self-assignment excepted) before re-populating it")
    copyrule.check(chk, fb, "DC", lambda c: c["file"].endswith("Bpp/Numeric/Range.h"), floor=2)
    from . import argswap as _argswap
    chk.rule("DA", "argument/parameter name agreement at forwarding calls in the anchored units (same-typed parameters must not be swapped)")
    _af = ('src/Bpp/Numeric/Range.h',)
    _argswap.check(chk, fb, "DA", [f_ for f_ in fb.concrete_fns() if f_.body is not None and any(f_.relfile.endswith(x_) for x_ in _af)], 1)
    chk.assume("E3: coordinates totally ordered (no NaN); arithmetic on coordinates occurs only in shift/length, which are outside D1")
    chk.assume("the literal 0 written by sliceWith is modelled as an arbitrary fixed coordinate: the oracle only requires the result to be empty")
