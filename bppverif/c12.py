"""C12 Numerical derivatives are transparent and exact on low-degree polynomials.

 D1 the six update entry points forward to the wrapped function, then update the derivatives with the parameters that were set
 D2 probe => restore: every variable whose value is shifted for a probe is restored from the unmodified argument before the update returns
 D3 enable-flag pairing: analytic derivatives of the wrapped function switched off for probing are switched back on at every normal exit
 D4 delegation: the cached numerical derivative is served only for a selected variable with computing on; otherwise the wrapped function is asked
 D4b the name->slot table is rebuilt from scratch when the selection changes
 D5 one-sided fallback: probes of the first/second-derivative section sit in a try whose ConstraintException handler retries with a sign-flipped step or uses a one-sided formula
 D6 derivative slots are indexed by the position of the variable in the selection (the table built by setParametersToDerivate)
 D7 (E7, fdiff.py) every difference formula is exact on low-degree polynomials at the points its values were actually taken
"""
from .facts import kids, strip, walk, is_call, render, local_inits, AnalysisBroken
from . import e1

NEEDS_VT = True

EXPLANATION = ("Static analysis of structural clauses of C12 on AbstractNumericalDerivative and the two-, three- and five-point schemes: D1 all six update entry points forward and then "
               "call updateDerivatives with what was set; D2 every variable-name local whose parameter is shifted for a probe flows into a restore from the unmodified argument (or the whole "
               "argument is restored) on every path to the normal exit; D3 each enable...(false) on the wrapped function is paired with enable...(flag) on every normal exit (a pointer that is "
               "null in every constructor of the class is exempt); D4 delegation guards; D4b selection table reset; D5 retry handlers flip the sign of the step / five-point handlers use "
               "one-sided formulas and no explicit throw of the first section escapes a handler; D6 slot index = selection index; D7 each difference formula, read with the points its values were taken at, is exact "
               "on every polynomial of degree <= max(order, points-1) (mixed: total degree 2). NOT decided: convergence order, rounding.")

AND = "bpp::AbstractNumericalDerivative"
SCHEMES = ["bpp::TwoPointsNumericalDerivative", "bpp::ThreePointsNumericalDerivative", "bpp::FivePointsNumericalDerivative"]


def _d1(chk, fb):
    entries = {"setParameters": "setParameters", "setAllParametersValues": "setAllParametersValues", "setParameterValue": "setParameterValue",
               "setParametersValues": "setParametersValues", "matchParametersValues": "matchParametersValues", "f": "setParameters"}
    n = 0
    for name, fwd in entries.items():
        f = fb.q1(AND + "::" + name)
        cfg = f.cfg
        if name == "f":
            calls = [c for c in f.calls() if c["callee"]["name"] == "setParameters" and ("obj" not in c or strip(f.obj(c))["k"] == "CXXThisExpr")]
            vals = [c for c in f.calls() if c["callee"]["name"] == "getValue"]
            if calls and vals and e1.before_in_function(cfg, calls[0], vals[0]) and render(f.args(calls[0])[0]) == f.params[0]["name"]:
                chk.proved("D1", f.key, "f-sets-then-evaluates", f.loc(), "setParameters(%s) then getValue()" % f.params[0]["name"])
            else:
                chk.refuted("D1", f.key, "f-sets-then-evaluates", f.loc(), "f() does not set the given parameters through the wrapper before evaluating")
            n += 1
            continue
        fw = [c for c in f.calls() if c["callee"]["name"] == fwd and "obj" in c and render(f.obj(c)) == "function_"]
        up = [c for c in f.calls() if c["callee"]["name"] == "updateDerivatives"]
        if not fw:
            chk.refuted("D1", f.key, "forwards", f.loc(), "entry point no longer forwards to function_->%s" % fwd)
            continue
        if not up:
            chk.refuted("D1", f.key, "updates-derivatives", f.loc(), "entry point does not call updateDerivatives: derivatives go stale and probes are skipped")
            continue
        n += 1
        a_fw = [render(x) for x in f.args(fw[0])]
        if a_fw != [p["name"] for p in f.params]:
            chk.refuted("D1", f.key, "forwards-same-arguments", f.loc(fw[0]), "forwards %s instead of its own arguments" % a_fw)
        ok_order = e1.before_in_function(cfg, fw[0], up[0]) and not e1.before_in_function(cfg, up[0], fw[0])
        ok_all, _ = e1.must_pass(cfg, {cfg.stmt_block(up[0])})
        arg = render(f.args(up[0])[0], local_inits(f))
        want = {f.params[0]["name"]} if name != "setParameterValue" else {"function_.getParameters().createSubList(%s)" % f.params[0]["name"]}
        if ok_order and ok_all and arg in want:
            chk.proved("D1", f.key, "forward-then-update", f.loc(up[0]), "function_->%s(...) then updateDerivatives(%s)" % (fwd, arg))
        elif ok_order and ok_all and not (arg in {p["name"] for p in f.params} or "createSubList" in arg or "getParameters" in arg):
            chk.unknown("D1", f.key, "forward-then-update", f.loc(up[0]), "updateDerivatives is given '%s': not an expression this rule can compare with what was set" % arg[:80])
        else:
            chk.refuted("D1", f.key, "forward-then-update", f.loc(up[0]), "update is not 'forward, then updateDerivatives(%s)' on every path (got updateDerivatives(%s))" % (sorted(want)[0], arg))
    chk.floor("D1", "update entry points", n, 6)


def _null_in_all_ctors(fb, cls, field):
    """is `field` (declared in AbstractNumericalDerivative) null after every constructor of cls?"""
    ctors = [f for f in fb.q(cls + "::" + cls.split("::")[-1]) if not f.rec.get("copyctor")]
    if not ctors:
        return False
    for c in ctors:
        base = [i for i in c.rec.get("inits", []) if i.get("base") == AND]
        if not base:
            return False
        be = strip(base[0]["expr"])
        if not is_call(be):
            return False
        target = fb.fns.get(be["callee"]["key"])
        if target is None:
            return False
        ini = [i for i in target.rec.get("inits", []) if i.get("fname") == field]
        if not ini:
            return False
        v = strip(ini[0]["expr"])
        isnull = e1._is_null(v) or (v["k"] == "CXXConstructExpr" and all(e1._is_null(strip(x)) for x in kids(v)))
        if not isnull:
            return False
    return True


def _d3(chk, fb):
    for cls in SCHEMES:
        f = fb.q1(cls + "::updateDerivatives")
        cfg = f.cfg
        for ptr, meth in (("function1_", "enableFirstOrderDerivatives"), ("function2_", "enableSecondOrderDerivatives")):
            acq = [c for c in f.calls() if c["callee"]["name"] == meth and "obj" in c and render(f.obj(c)) == ptr and f.args(c) and render(f.args(c)[0]) == "false"]
            rel0 = [c for c in f.calls() if c["callee"]["name"] == meth and "obj" in c and render(f.obj(c)) == ptr and f.args(c) and render(f.args(c)[0]) != "false"]
            # a release written inside a local lambda happens where the lambda is called; a release made by a helper member
            # ('if (ptr) ptr->enable(flag)' on every path of the helper) happens at the helper's call sites
            rel, opaque = [], False
            for c in rel0:
                sites = e1.lift_to_call_sites(f, c)
                if sites is None:
                    opaque = True
                else:
                    rel.extend(sites)
            for c in f.calls():
                if "obj" in c and strip(f.obj(c))["k"] != "CXXThisExpr":
                    continue
                for t in fb.targets(c, static_type_only=True):
                    if t.key == f.key or t.body is None or not fb.derives_from(t.cls or "", AND):
                        continue
                    inner = [x for x in t.calls() if x["callee"]["name"] == meth and "obj" in x and render(t.obj(x)) == ptr and t.args(x) and render(t.args(x)[0]) != "false"]
                    if not inner:
                        continue
                    tcfg = t.cfg
                    drop_t = {(b, s_) for b in tcfg.blocks for s_ in tcfg.succ[b] if any(tt == ptr and tr is False for tt, tr, _ in e1.edge_facts(tcfg, b, s_))}
                    if e1.must_pass(_without_edges(tcfg, drop_t), {tcfg.stmt_block(x) for x in inner})[0]:
                        rel.append(c)
            acq = [a for a in acq if f.enclosing(a, ("LambdaExpr",)) is None]
            if not acq:
                chk.proved("D3", f.key, "pairing:" + ptr, f.loc(), "never switched off")
                continue
            if _null_in_all_ctors(fb, cls, ptr):
                chk.proved("D3", f.key, "pairing:" + ptr, f.loc(acq[0]), "exempt: %s is null after every constructor of %s (the switch-off is dead code)" % (ptr, cls.split("::")[-1]))
                continue
            relb = {cfg.stmt_block(r) for r in rel}
            # the release is written 'if (ptr) ptr->enable(flag)': the edge on which ptr is null needs no release
            drop = set()
            for b in cfg.blocks:
                for s_ in cfg.succ[b]:
                    if any(t == ptr and tr is False for t, tr, _ in e1.edge_facts(cfg, b, s_)):
                        drop.add((b, s_))
            view = _without_edges(cfg, drop)
            bad = None
            for a in acq:
                ok, path = e1.must_pass(view, relb, start=cfg.stmt_block(a))
                if not ok:
                    bad = (a, path)
                    break
            if bad and opaque:
                chk.unknown("D3", f.key, "pairing:" + ptr, f.loc(bad[0]), "a release sits in a lambda that is not bound to a local: where it runs is not followed")
                continue
            if bad:
                # name the offending exit
                rets = [n for n in walk(f.body) if n["k"] == "ReturnStmt"]
                exitdesc = "the end of the function"
                for r in rets:
                    if cfg.stmt_block(r) in (bad[1] or []):
                        exitdesc = "the early return at %s" % f.loc(r)
                chk.refuted("D3", f.key, "pairing:" + ptr, f.loc(bad[0]),
                            "%s->%s(false) at %s reaches %s without being switched back on: the wrapped function keeps its analytic derivatives disabled after the update" % (ptr, meth, f.loc(bad[0]), exitdesc),
                            witness={"blocks": bad[1], "input": "an objective value that is NaN or >= VERY_BIG at the evaluation point" if rets else "any update"})
            else:
                chk.proved("D3", f.key, "pairing:" + ptr, f.loc(acq[0]), "every normal exit after the switch-off passes %s->%s(flag)" % (ptr, meth))


def _helpers(fb, f):
    """functions of the library called from f that take part in probing: free/static helpers and members of the numerical
    derivative hierarchy, with a body, that call setParameters / setValue or catch ConstraintException (one level)"""
    out = []
    for c in f.calls():
        for t in fb.targets(c, static_type_only=True):
            if t.key == f.key or t.body is None or any(t is g for _, g in out):
                continue
            if t.cls and not fb.derives_from(t.cls, AND):
                continue
            if "Bpp/Numeric/Function/" not in t.relfile:
                continue
            if any(x["callee"]["name"] in ("setParameters", "setValue") for x in t.calls()) or any(x["k"] == "CXXCatchStmt" for x in walk(t.body)):
                out.append((c, t))
    return out


def _name_sources(f, p_decl_id, site=None, arg=None):
    """for the local list p: assignments p = <arg>.createSubList(V) in the same innermost for-loop as `site`"""
    out = []
    lp = f.enclosing(site, ("ForStmt",)) if site is not None else None
    for n in f.calls():
        if n["callee"]["name"] == "operator=" and "obj" in n and strip(f.obj(n))["k"] == "DeclRefExpr" and strip(f.obj(n))["decl"]["id"] == p_decl_id:
            rhs = strip(f.args(n)[0])
            if is_call(rhs) and rhs["callee"]["name"] == "createSubList" and (arg is None or render(f.obj(rhs)) == arg):
                if site is None or f.enclosing(n, ("ForStmt",)) is lp:
                    out.append((n, rhs))
    return out


def _d2(chk, fb):
    for cls in SCHEMES:
        f = fb.q1(cls + "::updateDerivatives")
        cfg = f.cfg
        arg = f.params[0]["name"]
        # probes: function_->setParameters(X) with X rooted at a local list modified by [k].setValue
        setp = [c for c in f.calls() if c["callee"]["name"] == "setParameters" and "obj" in c and render(f.obj(c)) == "function_"]
        restores_all = [c for c in setp if render(f.args(c)[0]) == arg]
        restores_one = []
        probes = []
        for c in setp:
            a = strip(f.args(c)[0])
            r = e1._root_decl(a)
            if r and r[0] == "v" and r[2] != arg:
                probes.append((c, r))
            elif is_call(a) and a["callee"]["name"] == "createSubList" and render(f.obj(a)) == arg:
                restores_one.append((c, render(f.args(a)[0])))
        # shifts: (site in f, the local list, element index); a helper that receives the list by reference and shifts P[k] of its
        # parameter shifts the caller's list at the call site
        shifts = []
        for n in f.calls():
            if n["callee"]["name"] == "setValue" and "obj" in n:
                o = strip(f.obj(n))
                if is_call(o) and o["callee"]["name"] == "operator[]":
                    lst = strip(f.obj(o))
                    idx = strip(f.args(o)[0])
                    if lst["k"] == "DeclRefExpr" and idx["k"] == "IntegerLiteral":
                        shifts.append((n, lst, idx["val"]))
        for c, g in _helpers(fb, f):
            pmap = {p["name"]: strip(f.args(c)[i]) for i, p in enumerate(g.params) if i < len(f.args(c)) and "ParameterList" in p.get("ty", "") and "&" in p.get("ty", "") and not p["ty"].startswith("const ")}
            for n in g.calls():
                if n["callee"]["name"] == "setValue" and "obj" in n:
                    o = strip(g.obj(n))
                    if is_call(o) and o["callee"]["name"] == "operator[]":
                        lst = strip(g.obj(o))
                        idx = strip(g.args(o)[0])
                        if lst["k"] == "DeclRefExpr" and lst["decl"]["name"] in pmap and pmap[lst["decl"]["name"]]["k"] == "DeclRefExpr" and idx["k"] == "IntegerLiteral":
                            shifts.append((c, pmap[lst["decl"]["name"]], idx["val"]))
                if n["callee"]["name"] == "setParameters" and g.args(n):
                    r = e1._root_decl(strip(g.args(n)[0]))
                    if r and r[0] == "v" and r[2] in pmap:
                        probes.append((c, r))
        chk.floor("D2", "probe sites in " + cls, len(probes), 1)
        # name locals perturbed: p[k].setValue(...) where p = parameters.createSubList(V)
        shifted = {}      # name local -> first probe node
        for n, lst, k in shifts:
            if True:
                if True:
                    if True:
                        for asg, csl in _name_sources(f, lst["decl"]["id"], n, arg):
                            v = strip(f.args(csl)[0])
                            names = []
                            if v["k"] == "DeclRefExpr" and "vector" in v["decl"]["ty"]:
                                # vars[j] = name
                                for w in f.calls():
                                    if w["callee"]["name"] == "operator=" and "obj" in w and f.enclosing(w, ("ForStmt",)) is f.enclosing(n, ("ForStmt",)):
                                        wo = strip(f.obj(w))
                                        if is_call(wo) and wo["callee"]["name"] == "operator[]" and strip(f.obj(wo))["k"] == "DeclRefExpr" and strip(f.obj(wo))["decl"]["id"] == v["decl"]["id"]:
                                            j = strip(f.args(wo)[0])
                                            if j["k"] == "IntegerLiteral" and j["val"] == k:
                                                names.append(render(f.args(w)[0]))
                            elif v["k"] == "DeclRefExpr" and k == 0:
                                names.append(render(v))
                            for nm in names:
                                shifted.setdefault(nm, []).append(n)
        # flows name -> restore argument (flow-insensitive copies  L = name)
        copies = {}
        for n in f.calls():
            if n["callee"]["name"] == "operator=" and "obj" in n and strip(f.obj(n))["k"] == "DeclRefExpr" and "basic_string" in strip(f.obj(n))["decl"]["ty"]:
                copies.setdefault(render(f.obj(n)), set()).add(render(f.args(n)[0]))
        # flags that make a guarded restore unconditional for probe paths: flag = true dominates the probe
        for nm, sites_ in sorted(shifted.items()):
            ok = True
            site = sites_[0]
            for st_ in sites_:
                covering = set(cfg.stmt_block(c) for c in restores_all if e1.before_in_function(cfg, st_, c))
                for c, L in restores_one:
                    if L == nm or nm in copies.get(L, ()):
                        covering.add(cfg.stmt_block(c))
                ok1, path = e1.must_pass(cfg, covering, start=cfg.stmt_block(st_)) if covering else (False, None)
                if not ok1 and covering:
                    # a restore guarded by a flag that is set on every path to the probe
                    ok1 = _flag_guarded(f, cfg, covering, st_)
                if not ok1:
                    ok, site = False, st_
                    break
            if ok:
                chk.proved("D2", f.key, "restored:" + nm, f.loc(site), "the parameter named by '%s' is restored from '%s' before the update returns" % (nm, arg))
            else:
                chk.refuted("D2", f.key, "restored:" + nm, f.loc(site),
                            "the parameter named by '%s' is shifted for a probe (%s) but no restore from the unmodified argument '%s' covers it on every path to the normal exit: the wrapped function is left off the values that were set" % (
                                nm, f.loc(site), arg),
                            witness={"input": "all variables selected, cross derivatives enabled, any point"} if "1" in nm or "2" in nm else None)


def _flag_guarded(f, cfg, covering, site):
    """must-pass on the CFG restricted by facts that are stable and hold at the probe site:
       - bool locals assigned 'true' on every path to the site and never assigned false
       - branch facts on bool fields / bool locals that dominate the site, the atom never being written in the function"""
    sb = cfg.stmt_block(site)
    stable = {}
    written = e1.writes_in(f, f.body)
    wnames = {w[2] for w in written}
    for n in walk(f.body):
        if n["k"] == "BinaryOperator" and n["op"] == "=":
            l = strip(kids(n)[0])
            if l["k"] == "DeclRefExpr" and l["decl"]["ty"] in ("bool", "const bool") and render(kids(n)[1]) in ("true", "false"):
                nm = l["decl"]["name"]
                val = render(kids(n)[1]) == "true"
                others = [m for m in walk(f.body) if m["k"] == "BinaryOperator" and m["op"] == "=" and strip(kids(m)[0])["k"] == "DeclRefExpr" and strip(kids(m)[0])["decl"]["id"] == l["decl"]["id"] and render(kids(m)[1]) != render(kids(n)[1])]
                nb = cfg.stmt_block(n)
                # an assignment inside a try body does not cover the handlers of that try: the exception may be raised before it
                in_handler = False
                for h in f.ancestors(site):
                    if h["k"] == "CXXCatchStmt":
                        t_ = f.parent.get(h["id"])
                        if t_ is not None and f.contains(t_, n) and not f.contains(h, n):
                            in_handler = True
                if not others and not in_handler and cfg.dominates(nb, sb) and (nb != sb or e1.earlier_in_block(cfg, n, site)):
                    stable[nm] = val
    # dominating branch facts on atoms never written here
    for a in cfg.dom.get(sb, ()):
        for s_ in cfg.succ[a]:
            if s_ == sb or cfg.dominates(s_, sb):
                for t, tr, nd in e1.edge_facts(cfg, a, s_):
                    nd2 = strip(nd)
                    if nd2["k"] in ("DeclRefExpr", "MemberExpr") and nd2.get("ty") in ("bool", "const bool") and t not in wnames and t.split(".")[-1] not in wnames:
                        # the fact must hold on every path into the dominated region: the other successor must not reach the site
                        other = [o for o in cfg.succ[a] if o != s_]
                        if all(not e1.path_exists(cfg, o, sb, avoid_blocks={a}) for o in other):
                            stable.setdefault(t, tr)
    drop = set()
    for b in cfg.blocks:
        for s_ in cfg.succ[b]:
            for t, tr, nd in e1.edge_facts(cfg, b, s_):
                if t in stable and stable[t] != tr:
                    drop.add((b, s_))
    ok, _ = e1.must_pass(_without_edges(cfg, drop), covering, start=sb)
    return ok


class _CfgView:
    def __init__(self, cfg, drop):
        self.__dict__.update(cfg.__dict__)
        self.succ = {b: [s for s in ss if (b, s) not in drop] for b, ss in cfg.succ.items()}
        self._cfg = cfg

    def is_throw_block(self, b):
        return self._cfg.is_throw_block(b)


def _without_edges(cfg, drop):
    return _CfgView(cfg, drop)


def _d4(chk, fb):
    for name, flag, arr, ptr in (("getFirstOrderDerivative", "computeD1_", "der1_", "function1_"), ("getSecondOrderDerivative", "computeD2_", "der2_", "function2_")):
        fs = [f for f in fb.q(AND + "::" + name) if len(f.params) == 1]
        if len(fs) != 1:
            raise AnalysisBroken("anchor vanished: %s::%s(variable)" % (AND, name))
        f = fs[0]
        cfg = f.cfg
        rets = [n for n in walk(f.body) if n["k"] == "ReturnStmt" and kids(n)]
        served = [r for r in rets if render(kids(r)[0]).startswith(arr + "[")]
        deleg = [r for r in rets if is_call(strip(kids(r)[0])) and strip(kids(r)[0])["callee"]["name"] == name]
        throws = [n for n in walk(f.body) if n["k"] == "CXXThrowExpr"]
        if not served or not deleg:
            chk.refuted("D4", f.key, "delegation-shape", f.loc(), "the accessor no longer both serves the cached value and delegates to the wrapped function")
            continue
        it = None
        for n in walk(f.body):
            if n["k"] == "DeclStmt":
                for d in n["decls"]:
                    if d.get("init") is not None and render(d["init"]) == "index_.find(%s)" % f.params[0]["name"]:
                        it = d["name"]

        def est_flag(facts):
            return any(t == flag and tr for t, tr, _ in facts)

        def est_found(facts):
            return any(t in ("(%s != index_.end())" % it,) and tr for t, tr, _ in facts) or any(t in ("(%s == index_.end())" % it,) and tr is False for t, tr, _ in facts)
        b = cfg.stmt_block(served[0])
        ok1, _ = e1.guarded_by(cfg, b, est_flag)
        ok2, _ = e1.guarded_by(cfg, b, est_found)
        idx_ok = render(kids(served[0])[0]) in ("%s[%s->second]" % (arr, it), "%s[->%s->second]" % (arr, it)) or (it is not None and it in render(kids(served[0])[0]) and "second" in render(kids(served[0])[0]))
        if ok1 and ok2 and idx_ok:
            chk.proved("D4", f.key, "cached-only-when-selected", f.loc(served[0]), "served under '%s && %s != index_.end()'" % (flag, it))
        else:
            chk.refuted("D4", f.key, "cached-only-when-selected", f.loc(served[0]),
                        "the cached numerical derivative can be returned %s" % ("while computing is switched off" if not ok1 else "for a variable that was not selected" if not ok2 else "from a slot not looked up for this variable"))
        d = strip(kids(deleg[0])[0])
        if render(f.obj(d)) == ptr and render(f.args(d)[0]) == f.params[0]["name"]:
            okp, _ = e1.guarded_by(cfg, cfg.stmt_block(deleg[0]), lambda facts: any(t == ptr and tr for t, tr, _ in facts))
            (chk.proved if okp else chk.refuted)("D4", f.key, "delegates-to-wrapped", f.loc(deleg[0]), "%s->%s(%s) under a non-null test" % (ptr, name, f.params[0]["name"]) if okp else "delegation dereferences %s without a null test" % ptr)
        else:
            chk.refuted("D4", f.key, "delegates-to-wrapped", f.loc(deleg[0]), "delegation is '%s', not %s->%s(%s)" % (render(d), ptr, name, f.params[0]["name"]))
        if throws:
            chk.proved("D4", f.key, "else-throws", f.loc(throws[0]), "raises when neither is available")
        else:
            chk.refuted("D4", f.key, "else-throws", f.loc(), "no exception when the derivative is neither computed nor provided")
    # D4b
    f = fb.q1(AND + "::setParametersToDerivate")
    cfg = f.cfg
    fills = [n for n in f.calls() if n["callee"]["name"] == "operator=" and "obj" in n and render(f.obj(n)).startswith("index_[")]
    bfills = [n for n in walk(f.body) if n["k"] == "BinaryOperator" and n["op"] == "=" and render(kids(n)[0]).startswith("index_[")]
    clears = [n for n in f.calls() if n["callee"]["name"] == "clear" and "obj" in n and render(f.obj(n)) == "index_"] + \
             [n for n in f.calls() if n["callee"]["name"] == "operator=" and "obj" in n and render(f.obj(n)) == "index_"]
    allf = fills + bfills
    if not allf:
        chk.refuted("D4b", f.key, "table-built", f.loc(), "the name->slot table is no longer filled")
    elif clears and all(cfg.dominates(cfg.stmt_block(c), cfg.stmt_block(x)) for x in allf for c in clears[:1]):
        chk.proved("D4b", f.key, "table-reset", f.loc(clears[0]), "index_ cleared before it is refilled")
    else:
        chk.refuted("D4b", f.key, "table-reset", f.loc(allf[0]), "index_ is refilled by insertion without being cleared: names of an earlier selection stay registered and point at stale or out-of-range slots",
                    witness={"history": "setParametersToDerivate({x,y,z}); setParametersToDerivate({z}); getFirstOrderDerivative(x)"})
    key = render(f.obj(fills[0])) if fills else (render(kids(bfills[0])[0]) if bfills else "")
    val = render(f.args(fills[0])[0]) if fills else (render(kids(bfills[0])[1]) if bfills else "")
    fills = allf
    # the range-for spelling: key = the element variable of a loop over variables_, value = a counter started at 0 before the
    # loop and incremented once per pass, after the store
    rf_ok = rf_seen = False
    if fills:
        n0 = fills[0]
        lp_ = f.enclosing(n0, ("CXXForRangeStmt",))
        rfv = e1.rangefor_vars(f)
        if lp_ is not None:
            rf_seen = True
            kn = [x for x in walk(n0) if x["k"] == "DeclRefExpr" and x["decl"]["id"] in rfv and render(rfv[x["decl"]["id"]]).replace("this.", "") == "variables_"]
            vn = strip(f.args(n0)[0]) if is_call(n0) else strip(kids(n0)[1])
            if kn and vn["k"] == "DeclRefExpr":
                cid = vn["decl"]["id"]
                zero = any(dn_["k"] == "DeclStmt" and not f.contains(lp_, dn_) and any(d_["id"] == cid and d_.get("init") is not None and strip(d_["init"])["k"] == "IntegerLiteral" and int(strip(d_["init"])["val"]) == 0 for d_ in dn_["decls"]) for dn_ in f.all_nodes())
                incs_ = [x for x in walk(lp_) if x["k"] == "UnaryOperator" and x.get("op") == "++" and strip(kids(x)[0])["k"] == "DeclRefExpr" and strip(kids(x)[0])["decl"]["id"] == cid]
                other_w = [x for x in f.all_nodes() if x["k"] in ("BinaryOperator", "CompoundAssignOperator") and x.get("op", "").endswith("=") and x["op"] not in ("==", "!=", "<=", ">=") and strip(kids(x)[0])["k"] == "DeclRefExpr" and strip(kids(x)[0])["decl"]["id"] == cid]
                if zero and len(incs_) == 1 and not other_w and (incs_[0].get("l") or 0) >= (n0.get("l") or 0) and f.enclosing(incs_[0], ("IfStmt",)) is None:
                    rf_ok = True
    if fills and (key == "index_[variables_[%s]]" % val or rf_ok):
        chk.proved("D4b", f.key, "table-maps-name-to-position", f.loc(fills[0]), "%s = %s" % (key, val))
    elif fills and rf_seen:
        chk.unknown("D4b", f.key, "table-maps-name-to-position", f.loc(fills[0]), "'%s = %s' inside a range-for: the position counter is not in a recognised form" % (key, val))
    elif fills:
        chk.refuted("D4b", f.key, "table-maps-name-to-position", f.loc(fills[0]), "table entry '%s = %s' does not map a selected name to its position" % (key, val))
    sub_ = local_inits(f)
    for arr in ("der1_", "der2_"):
        allrs = [n for n in f.calls() if n["callee"]["name"] in ("resize", "assign") and render(f.obj(n)) == arr]
        rs = [n for n in allrs if render(f.args(n)[0], sub_) in ("variables_.size()", "variables.size()")]
        if rs:
            chk.proved("D4b", f.key, "slots-sized:" + arr, f.loc(), "%s.resize(variables_.size())" % arr)
        elif allrs or any(n["k"] == "BinaryOperator" and n["op"] == "=" and render(kids(n)[0]) == arr for n in f.all_nodes()):
            chk.unknown("D4b", f.key, "slots-sized:" + arr, f.loc(), "%s is sized by '%s', which is not recognised as the number of selected variables" % (arr, render(f.args(allrs[0])[0], sub_) if allrs else "an assignment"))
        else:
            chk.refuted("D4b", f.key, "slots-sized:" + arr, f.loc(), "%s is never re-sized when the selection of variables changes" % arr)


def _d5_d6(chk, fb):
    for cls in SCHEMES:
        f = fb.q1(cls + "::updateDerivatives")
        cfg = f.cfg
        # D6: der slots indexed by the position of the current variable in variables_
        loops = e1.natural_loops(cfg)
        for lp in [n for n in walk(f.body) if n["k"] in ("ForStmt", "CXXForRangeStmt")]:
            body = f.nodes[lp["body"]]
            sel = None          # expression that is the position of the current variable
            rangefor = False
            if lp["k"] == "ForStmt":
                for n in walk(body):
                    if n["k"] == "DeclStmt":
                        for d in n["decls"]:
                            if d.get("init") is not None and render(d["init"]).startswith("variables_[") and f.enclosing(n, ("ForStmt", "CXXForRangeStmt")) is lp:
                                sel = render(d["init"])[len("variables_["):-1]
            elif render(f.nodes[lp["rangeinit"]]) == "variables_":
                rangefor = True
            if sel is None and not rangefor:
                continue
            for n in walk(body):
                if f.enclosing(n, ("ForStmt", "CXXForRangeStmt")) is not lp:
                    continue
                if n["k"] == "BinaryOperator" and n["op"] == "=":
                    l = render(kids(n)[0])
                    for arr in ("der1_", "der2_"):
                        if l.startswith(arr + "["):
                            k = l[len(arr) + 1:-1]
                            if sel is not None and k == sel:
                                chk.proved("D6", f.key, "slot-index:" + arr, f.loc(n), "%s[%s] with var = variables_[%s]" % (arr, k, sel))
                            elif sel is not None:
                                chk.refuted("D6", f.key, "slot-index:" + arr, f.loc(n),
                                            "derivative of variables_[%s] is stored in slot '%s': the accessor looks slots up by the variable's position in the selection" % (sel, k),
                                            witness={"history": "select {x,y,z}; update only {y}"})
                            else:
                                # range-for: k must be a counter advanced exactly once on every path round the loop
                                kn = strip(kids(strip(kids(n)[0]))[-1]) if False else None
                                incs = [m for m in walk(f.body) if m["k"] in ("UnaryOperator", "CompoundAssignOperator") and m.get("op") in ("++", "+=") and render(kids(m)[0]) == k]
                                heads = [h for h, bl in loops.items() if cfg.stmt_block(n) in bl]
                                head = min(heads, key=lambda h: len(loops[h])) if heads else None
                                # the natural loop of the range-for itself is the largest loop containing the store that is inside lp
                                for h in sorted(heads, key=lambda h: -len(loops[h])):
                                    if all(f.contains(lp, f.nodes[e]) for b_ in loops[h] for e in cfg.blocks[b_]["el"] if e in f.nodes):
                                        head = h
                                        break
                                bl = loops.get(head, set())
                                incb = {cfg.stmt_block(m) for m in incs} & bl
                                first = [s_ for s_ in cfg.succ[head] if s_ in bl and s_ != head] if head is not None else []
                                skip = (not incb) or any(e1.path_exists(cfg, s_, head, avoid_blocks=incb | (set(cfg.blocks) - bl)) for s_ in first if s_ not in incb)
                                if skip:
                                    chk.refuted("D6", f.key, "slot-index:" + arr, f.loc(n),
                                                "slot counter '%s' is not advanced on every iteration over variables_ (a skipped variable does not advance it): results land in another variable's slot" % k,
                                                witness={"history": "select {x,y,z}; update only {y}"})
                                else:
                                    chk.proved("D6", f.key, "slot-index:" + arr, f.loc(n), "counter '%s' advances once per element of variables_" % k)
        # D5: the handlers of updateDerivatives and of the probing helpers it calls
        n_handlers = 0
        for g in [f] + [t for _, t in _helpers(fb, f)]:
            # the step: what the probes add to the value  (p[k].setValue(value + STEP))
            steps = set()
            for x in g.calls():
                if x["callee"]["name"] == "setValue" and g.args(x):
                    a_ = strip(g.args(x)[0])
                    if a_["k"] == "BinaryOperator" and a_["op"] in ("+", "-"):
                        r_ = strip(kids(a_)[1])
                        if r_["k"] == "DeclRefExpr":
                            steps.add(r_["decl"]["name"])
            steps = steps or {"h"}
            handlers = [n for n in walk(g.body) if n["k"] == "CXXCatchStmt" and "ConstraintException" in (n.get("caught") or "")]
            first_section = []
            for h in handlers:
                rethrow = [x for x in walk(h) if x["k"] == "CXXThrowExpr"]
                if rethrow:
                    continue       # cross-derivative section: documented conversion into an exception
                first_section.append(h)
            n_handlers += len(first_section)
            for h in first_section:
                stepw = [x for x in walk(h) if x["k"] in ("BinaryOperator", "CompoundAssignOperator") and x["op"] in ("=", "/=", "*=") and render(kids(x)[0]) in steps]
                if stepw:
                    # retry handler: every step update flips the sign
                    bad = []
                    unsure = []

                    def flips(op, rhs, sv="h"):
                        """True: the new step has the opposite sign; False: same sign; None: not recognised"""
                        rhs = strip(rhs)
                        if rhs["k"] == "ConditionalOperator" and op == "=":
                            a_, b_ = flips("=", kids(rhs)[1], sv), flips("=", kids(rhs)[2], sv)
                            if a_ is True and b_ is True:
                                return True
                            if a_ is False or b_ is False:
                                return False
                            return None
                        lit = lambda z: z["k"] in ("IntegerLiteral", "FloatingLiteral") or (z["k"] == "UnaryOperator" and z.get("op") == "-" and strip(kids(z)[0])["k"] in ("IntegerLiteral", "FloatingLiteral"))
                        val = lambda z: float(z["val"]) if z["k"] in ("IntegerLiteral", "FloatingLiteral") else -float(strip(kids(z)[0])["val"])
                        if op == "=":
                            t = render(rhs)
                            if t in ("-" + sv, "(-" + sv + ")"):
                                return True
                            if rhs["k"] == "BinaryOperator" and rhs["op"] in ("/", "*"):
                                l_, r_ = strip(kids(rhs)[0]), strip(kids(rhs)[1])
                                if render(l_) == sv and lit(r_):
                                    return val(r_) < 0
                                if render(l_) in ("-" + sv, "(-" + sv + ")") and lit(r_):
                                    return val(r_) > 0
                            if t == sv:
                                return False
                            return None
                        if op in ("/=", "*="):
                            if lit(rhs):
                                return val(rhs) < 0
                            return None
                        return None
                    for x in stepw:
                        fl = flips(x["op"], kids(x)[1], render(kids(x)[0]))
                        if fl is False:
                            bad.append(x)
                        elif fl is None:
                            unsure.append(x)
                    # and a bounded number of tries
                    bounded = any(x["k"] == "BreakStmt" for x in walk(h))
                    if bad:
                        chk.refuted("D5", g.key, "retry-flips-side", g.loc(bad[0]), "a retry after a constraint hit updates the step with '%s', which keeps probing on the same side: at a bound every retry fails and the derivatives come back NaN" % render(bad[0]),
                                    witness={"input": "a constrained variable on its bound"})
                    elif unsure:
                        chk.unknown("D5", g.key, "retry-flips-side", g.loc(unsure[0]), "step update '%s' not in a recognised form" % render(unsure[0]))
                    elif not bounded:
                        chk.refuted("D5", g.key, "retry-bounded", g.loc(h), "retry loop has no bound on the number of tries")
                    else:
                        chk.proved("D5", g.key, "retry-flips-side", g.loc(h), "%d step updates, all sign-flipping; bounded by a break" % len(stepw))
                else:
                    probes = [x for x in walk(h) if is_call(x) and x["callee"]["name"] == "setParameters"]
                    # probes made through a local lambda / helper that receives the abscissa
                    viahelper = [x for x in walk(h) if is_call(x) and x["callee"]["name"] in ("operator()",) and g.args(x) and strip(g.args(x)[0])["k"] == "BinaryOperator" and strip(g.args(x)[0])["op"] in ("+", "-")]
                    viahelper += [x for x in walk(h) if is_call(x) and x["callee"].get("inrepo") and x["callee"]["name"] not in ("setParameters", "setValue", "getValue") and g.args(x)
                                  and strip(g.args(x)[0])["k"] == "BinaryOperator" and strip(g.args(x)[0])["op"] in ("+", "-") and "double" in (strip(g.args(x)[0]).get("ty") or "")]
                    ders = [x for x in walk(h) if x["k"] == "BinaryOperator" and x["op"] == "=" and render(kids(x)[0]).startswith(("der1_[", "der2_["))]
                    if (probes or viahelper) and len(ders) >= 2:
                        # one-sided: all probes of the handler on one side of the value
                        signs = set()
                        for x in walk(h):
                            if is_call(x) and x["callee"]["name"] == "setValue":
                                a = strip(g.args(x)[0])
                                if a["k"] == "BinaryOperator" and a["op"] in ("+", "-"):
                                    signs.add(a["op"])
                        for x in viahelper:
                            signs.add(strip(g.args(x)[0])["op"])
                        if len(signs) == 1:
                            chk.proved("D5", g.key, "one-sided-formula", g.loc(h), "handler probes on the '%s' side only and assigns both derivatives" % list(signs)[0])
                        elif len(signs) == 2:
                            chk.refuted("D5", g.key, "one-sided-formula", g.loc(h), "the fallback handler probes on both sides of the point (%s): it can hit the same constraint again" % sorted(signs))
                        else:
                            chk.unknown("D5", g.key, "one-sided-formula", g.loc(h), "probe abscissae of the handler not recognised")
                    elif not any(is_call(x) for x in walk(h)) and not ders:
                        chk.refuted("D5", g.key, "one-sided-formula", g.loc(h), "the fallback handler neither retries nor computes one-sided derivatives: a constraint hit leaves the derivatives of this variable unset")
                    else:
                        chk.unknown("D5", g.key, "one-sided-formula", g.loc(h), "fallback handler not in a recognised form")
        chk.floor("D5", "fallback handlers in " + cls, n_handlers, 1 if "Two" in cls else 2)
        # probes of the first section inside a try
        for lp in [n for n in walk(f.body) if n["k"] == "ForStmt"]:
            if not any(render(kids(x)[0]).startswith("der1_[") for x in walk(lp) if x["k"] == "BinaryOperator" and x["op"] == "="):
                continue
            if any(x["k"] == "ForStmt" for x in walk(f.nodes[lp["body"]])):
                continue
            for c in walk(lp):
                if is_call(c) and c["callee"]["name"] == "setParameters" and render(f.obj(c)) == "function_":
                    if f.enclosing(c, ("CXXTryStmt", "CXXCatchStmt")) is None:
                        chk.refuted("D5", f.key, "probe-in-try", f.loc(c), "a probe of the first/second-derivative section is outside any try: a constraint hit escapes as an exception instead of falling back")
                    else:
                        chk.proved("D5", f.key, "probe-in-try", f.loc(c), "probe inside try/handler")


def _d8(chk, fb):
    """the member that getValue() of a scheme returns is refreshed by every update: every path through updateDerivatives to a
    normal exit stores function_->getValue() into it (directly, through a local lambda, or in a probing helper that stores it
    on every path of its own)"""
    n = 0
    for S in SCHEMES:
        gv = [g for g in fb.q(S + "::getValue") if g.body is not None]
        f = fb.q1(S + "::updateDerivatives")
        if not gv:
            continue
        rets = [strip(kids(r)[0]) for r in walk(gv[0].body) if r["k"] == "ReturnStmt" and kids(r)]
        if len(rets) != 1 or rets[0]["k"] != "MemberExpr" or strip(kids(rets[0])[0])["k"] != "CXXThisExpr":
            chk.unknown("D8", gv[0].key, "served-value-refreshed", gv[0].loc(), "getValue() does not return one member directly")
            n += 1
            continue
        V = rets[0]["member"]["qname"]
        vname = rets[0]["member"]["name"]
        n += 1

        def stores(g):
            out = []
            for (_, node, kind) in fb.field_writes(V, [g]):
                if kind == "assign" and node.get("op") == "=" and any(is_call(x) and x["callee"]["name"] == "getValue" for x in walk(kids(node)[1])):
                    out.append(node)
                elif kind.startswith("byref:"):
                    out.append(node)
            return out
        blocks = set()
        opaque = None
        for node in stores(f):
            sites = e1.lift_to_call_sites(f, node)
            if sites is None:
                opaque = "a store sits in a lambda that is not called by name"
                continue
            for x in sites:
                blocks.add(f.cfg.stmt_block(x))
        for _, t in _helpers(fb, f):
            st = stores(t)
            sites_ = [c for c in f.calls() if any(g is t for g in fb.targets(c, static_type_only=True))]
            if st and e1.must_pass(t.cfg, {t.cfg.stmt_block(x) for x in st})[0]:
                for c in sites_:
                    for x in (e1.lift_to_call_sites(f, c) or []):
                        blocks.add(f.cfg.stmt_block(x))
            elif st:
                opaque = "helper %s stores it on some paths only" % t.name
        blocks.discard(None)
        ok, path = e1.must_pass(f.cfg, blocks)
        if ok:
            chk.proved("D8", f.key, "served-value-refreshed:" + vname, f.loc(), "every path to a normal exit stores function_->getValue() into %s, the member getValue() returns" % vname)
        elif opaque:
            chk.unknown("D8", f.key, "served-value-refreshed:" + vname, f.loc(), opaque)
        else:
            chk.refuted("D8", f.key, "served-value-refreshed:" + vname, f.loc(),
                        "getValue() returns %s, but a path through updateDerivatives reaches the normal exit without storing function_->getValue() into it (blocks %s): the wrapper then serves the value of an earlier point" % (vname, path),
                        witness={"history": "setParameters(p1) with derivatives on, then switch first-order derivatives off (or select no variable), setParameters(p2), getValue()", "path": path})
    chk.floor("D8", "schemes with a served value member", n, 3)


def _d9(chk, fb):
    """(E7) a probing step never vanishes: the initial value of every step local (what the probes add to the value in
    p[k].setValue(value +- STEP)), read as a real function of the parameter value it is scaled by, has no real zero.  A zero step
    evaluates the function twice at one point and divides by zero in every difference quotient.  The configured interval
    (a member) is taken to be positive; a step in a form the translator does not read is not judged"""
    import sympy as sp

    class No(Exception):
        pass
    n = 0
    for S in SCHEMES:
        f = fb.q1(S + "::updateDerivatives")
        for g in [f] + [t for _, t in _helpers(fb, f)]:
            decls = {}
            for x in walk(g.body):
                if x["k"] == "DeclStmt":
                    for d in x["decls"]:
                        if d.get("init") is not None:
                            decls[d["id"]] = (d, x)
            steps = {}
            for x in g.calls():
                if x["callee"]["name"] == "setValue" and g.args(x):
                    a_ = strip(g.args(x)[0])
                    if a_["k"] == "BinaryOperator" and a_["op"] in ("+", "-"):
                        for r_ in walk(kids(a_)[1]):
                            if r_["k"] == "DeclRefExpr" and r_["decl"]["id"] in decls and "double" in (r_.get("ty") or "double"):
                                steps[r_["decl"]["id"]] = r_["decl"]["name"]
            vals = {}

            def sx(e, depth=0):
                e = strip(e)
                k = e["k"]
                if k == "IntegerLiteral":
                    return sp.Integer(int(e["val"]))
                if k == "FloatingLiteral":
                    return sp.nsimplify(e["val"], rational=True)
                if k == "MemberExpr" and e["member"].get("this"):
                    return sp.Symbol("F_" + e["member"]["name"], positive=True)
                if k == "UnaryOperator" and e["op"] in ("-", "+") and not e.get("postfix"):
                    v = sx(kids(e)[0], depth)
                    return -v if e["op"] == "-" else v
                if k == "BinaryOperator" and e["op"] in ("+", "-", "*", "/"):
                    a, b = sx(kids(e)[0], depth), sx(kids(e)[1], depth)
                    return {"+": a + b, "-": a - b, "*": a * b, "/": a / b}[e["op"]]
                if is_call(e) and e["callee"]["name"] in ("abs", "fabs") and len(g.args(e)) == 1:
                    return sp.Abs(sx(g.args(e)[0], depth))
                if k == "DeclRefExpr":
                    d = e["decl"]
                    if d["id"] in decls and depth < 4:
                        ini = decls[d["id"]][0]["init"]
                        if any(is_call(y) and y["callee"]["name"] in ("getParameterValue", "getValue") for y in walk(ini)):
                            vals[d["name"]] = sp.Symbol("V_" + d["name"], real=True)
                            return vals[d["name"]]
                        return sx(ini, depth + 1)
                raise No(render(e)[:60])
            for did, name in sorted(steps.items(), key=lambda kv: kv[1]):
                d, stmt = decls[did]
                n += 1
                con = "step-never-zero:" + name
                try:
                    vals.clear()
                    ex = sx(d["init"])
                except No as why:
                    chk.unknown("D9", g.key, con, g.loc(stmt), "initial value of the step not in a form this rule reads (%s)" % why)
                    continue
                if len(vals) > 1:
                    chk.unknown("D9", g.key, con, g.loc(stmt), "step depends on several parameter values")
                    continue
                if not vals:
                    z = sp.simplify(ex)
                    if z == 0:
                        chk.refuted("D9", g.key, con, g.loc(stmt), "the step '%s' is identically zero" % render(d["init"]))
                    else:
                        chk.proved("D9", g.key, con, g.loc(stmt), "%s = %s, never zero for a positive interval" % (name, z))
                    continue
                v = list(vals.values())[0]
                try:
                    sol = sp.solveset(ex, v, sp.S.Reals)
                except Exception:
                    sol = None
                if sol is not None and sol == sp.S.EmptySet:
                    chk.proved("D9", g.key, con, g.loc(stmt), "%s = %s has no real zero" % (name, ex))
                elif isinstance(sol, sp.FiniteSet) and len(sol) >= 1:
                    z0 = sorted(sol, key=str)[0]
                    chk.refuted("D9", g.key, con, g.loc(stmt),
                                "the step '%s = %s' vanishes when the parameter value is %s: both probes are then taken at the unshifted point and the difference quotients divide by zero (NaN or inf derivatives)" % (name, render(d["init"]), z0),
                                witness={"parameter_value": str(z0), "step": str(ex)})
                else:
                    chk.unknown("D9", g.key, con, g.loc(stmt), "zero set of %s not decided" % ex)
    chk.floor("D9", "probing steps", n, 3)


def _d10(chk, fb):
    """a variable-name local that is declared empty never reaches a parameter lookup while it may still be empty: for every
    place where such a local flows into createSubList (directly, or through an element of a name vector), no path from the
    entry reaches it without an assignment to the local.  Paths are followed with the state of boolean flags and small loop
    counters (E1 reach_with_state); a branch that tests the local itself ends the path.  An empty name makes createSubList throw
    ParameterNotFoundException out of an update"""
    n = 0
    for S in SCHEMES:
        f = fb.q1(S + "::updateDerivatives")
        for g in [f] + [t for _, t in _helpers(fb, f)]:
            cfg = g.cfg
            for st in [x for x in walk(g.body) if x["k"] == "DeclStmt"]:
                for d in st["decls"]:
                    if "basic_string" not in (d.get("ty") or "") or "vector" in d["ty"] or d["ty"].startswith("const ") or d["ty"].endswith("&"):
                        continue
                    ini = d.get("init")
                    si = strip(ini) if ini is not None else None
                    if not (ini is None or (si["k"] == "CXXConstructExpr" and not kids(si)) or (si["k"] == "StringLiteral" and si.get("val") in ("", '""'))):
                        continue
                    did, name = d["id"], d["name"]

                    def is_l(x):
                        x = strip(x)
                        return x is not None and x["k"] == "DeclRefExpr" and x["decl"]["id"] == did
                    assigns, uses = [], []
                    for c in g.calls():
                        if c["callee"]["via"] == "operator" and c.get("op") == "=" and "obj" in c:
                            if is_l(g.obj(c)):
                                assigns.append(c)
                            elif g.args(c) and is_l(g.args(c)[0]) and is_call(strip(g.obj(c))) and strip(g.obj(c)).get("op") == "[]":
                                uses.append(c)
                        elif c["callee"]["name"] in ("createSubList", "push_back", "emplace_back") and any(is_l(a) for a in g.args(c)):
                            uses.append(c)
                        else:
                            pt = c["callee"].get("ptypes") or []
                            for idx, a in enumerate(g.args(c)):
                                if is_l(a) and idx < len(pt) and pt[idx].endswith("&") and not pt[idx].startswith("const "):
                                    assigns.append(c)
                    if not uses:
                        continue
                    ablocks = {cfg.stmt_block(a) for a in assigns}

                    def tests_local(facts_):
                        return any(any(x["k"] == "DeclRefExpr" and x["decl"]["id"] == did for x in walk(nd)) for _, _, nd in facts_ if nd is not None)
                    for u in uses:
                        n += 1
                        ub = cfg.stmt_block(u)
                        con = "name-set-before-lookup:%s@%s" % (name, render(u)[:40])
                        if ub is None:
                            chk.unknown("D10", g.key, con, g.loc(u), "use not located in the flow graph")
                            continue
                        if any(cfg.stmt_block(a) == ub and e1.earlier_in_block(cfg, a, u) for a in assigns):
                            chk.proved("D10", g.key, con, g.loc(u), "assigned earlier in the same block")
                            continue
                        path = e1.reach_with_state(g, cfg, {ub}, avoid_blocks=ablocks - {ub}, blocking=tests_local)
                        if path is None:
                            chk.proved("D10", g.key, con, g.loc(u), "every path to this lookup (flags and small counters followed) assigns '%s' first" % name)
                        else:
                            chk.refuted("D10", g.key, con, g.loc(u),
                                        "'%s' is declared empty and reaches this parameter lookup along a path on which it was never assigned (blocks %s): createSubList(\"\") throws ParameterNotFoundException out of the update" % (name, path),
                                        witness={"path": path, "history": "an update whose parameter list does not contain the first selected variable but contains a later one"})
    chk.floor("D10", "empty-declared name locals flowing into a lookup", n, 3)


def run(chk, fb, tier):
    chk.rule("D1", "setParameters / setAllParametersValues / setParameterValue / setParametersValues / matchParametersValues / f forward to function_ and then call updateDerivatives with what was set")
    chk.rule("D2", "every variable-name local whose parameter is shifted by p[k].setValue for a probe flows into function_->setParameters(parameters.createSubList(L)) or the whole argument is restored, on every path to the normal exit")
    chk.rule("D3", "functionN_->enable...Derivatives(false) is followed by enable...Derivatives(flag) on every path to a normal exit (pointer null in all constructors of the class: exempt)")
    chk.rule("D4", "cached derivative served only under 'computing on && variable selected'; otherwise functionN_->get...Derivative(variable) under a null test; otherwise throw")
    chk.rule("D4b", "setParametersToDerivate clears index_ before refilling it with name -> position and sizes the slot arrays")
    chk.rule("D5", "ConstraintException handlers of the first/second-derivative section flip the sign of the step on every retry (bounded) or use a one-sided formula; probes sit inside a try")
    chk.rule("D6", "der1_/der2_ are indexed by the position of the variable in variables_")
    _d1(chk, fb)
    _d2(chk, fb)
    _d3(chk, fb)
    _d4(chk, fb)
    _d5_d6(chk, fb)
    from . import fdiff
    chk.rule("D7", "E7: every difference formula stored into der1_/der2_/crossDer2_, read with the points at which its values were taken (reaching definitions of "
                   "p[k].setValue / function_->setParameters / fK_ = function_->getValue()), differentiates exactly every polynomial of degree <= max(order, points-1) "
                   "(mixed derivative: total degree 2), identically in the step symbols")
    fdiff.check(chk, fb, "D7", [s + "::updateDerivatives" for s in SCHEMES], 8)
    chk.rule("D8", "the member returned by getValue() of each scheme is assigned function_->getValue() on every path of updateDerivatives to a normal exit")
    _d8(chk, fb)
    chk.rule("D9", "E7: the initial value of every probing step, as a real function of the parameter value it is scaled by, has no real zero (interval member positive)")
    _d9(chk, fb)
    chk.rule("D10", "E1 reach_with_state: a variable-name local declared empty is assigned on every feasible path before it flows into createSubList / a name vector")
    _d10(chk, fb)
    from . import copyrule
    chk.rule("DC", "copy constructor and copy assignment copy the same members; operator= empties a member container before re-populating it; copy functions never assign through a stored shared pointer")
    copyrule.check(chk, fb, "DC", lambda c: c["file"].endswith(("Bpp/Numeric/Function/NumericalDerivative.h",)), floor=1)
    chk.assume("exceptional exits are outside D2/D3 (every call may throw); only ConstraintException is part of the protocol")
