"""Which properties are claimed, at which level, by which technique (source of MANIFEST.json)."""

TB = ("Trusted: clang 14 parser / overload resolution / CFG builder, the bppx export of them, the rule module's idiom tables and oracles. "
      "Only the named structural clauses are decided; the behavioural statement as a whole is NOT proved. ")

ENGINES = [
    {"name": "bppx", "path": "tool/bppx.cc", "serves_properties": [], "kind_free_text": "libTooling extractor: typed AST + clang CFG of every function under /repo/src as JSON facts"},
    {"name": "E1", "path": "bppverif/e1.py", "serves_properties": [], "kind_free_text": "CFG queries: guard facts on branch edges, dominance by guards, must-pass-through, who-writes"},
    {"name": "E3", "path": "bppverif/orderai.py", "serves_properties": [], "kind_free_text": "abstract interpretation of comparison-only functions over all order types (exact for its clause)"},
]

NOTES = ("Static analysis only: every check re-extracts facts from /repo's working tree (clang AST+CFG) and evaluates repository-specific rules. "
         "Exit 0 = decided clauses hold (KNOWN-FINDING lines for recorded defects), 1 = VIOLATION, 2 = analysis broken (anchor vanished, floor not met, parse error).")

CLAIMED = {
    "C01": dict(
        engine="E1+E3",
        technique="static analysis: whole-program who-writes + CFG guard dominance on Parameter::value_/constraint_; abstract interpretation of IntervalConstraint over all order types",
        level=("Static rules over the resolved program decide: every store to a parameter's value/constraint in the whole library is a checked write, pair copy, guarded install or "
               "unconstrained initialisation; the constructor validates; no effect precedes a rejecting throw; the interval algebra (membership, inclusion, intersection, emptiness, limits) "
               "equals its set-theoretic definition on every order type of bounds x flags (exhaustive truth table by abstract interpretation of the syntax tree); AutoParameter stores the accepted limit; "
               "bracket tables of the description syntax agree. This covers all inputs and histories for those clauses, which a sampled test cannot."),
        note=TB + "Not decided: floating-point spacing of limit+-1e-12, numeric parsing inside readDescription, constraints mutated after installation through a shared pointer."),
}

NOT_APPLICABLE = {
    "C06": ("every clause is a floating-point identity of the JAMA QL/QR iterations (A.V = V.D within k.eps, ordering, trace/determinant); correctness lies in rotation coefficients and "
            "deflation tests that no sound static argument in reach bounds, and no structural necessary condition separable from run-time invariants exists (DESIGN.md section 6)"),
}
