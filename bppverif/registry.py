"""Which properties are claimed, at which level, by which technique (source of MANIFEST.json)."""

TB = ("Trusted: clang 14 parser / overload resolution / CFG builder, the bppx export of them, the rule module's idiom tables and oracles. "
      "Only the named structural clauses are decided; the behavioural statement as a whole is NOT proved. ")

ENGINES = [
    {"name": "bppx", "path": "tool/bppx.cc", "serves_properties": [], "kind_free_text": "libTooling extractor: typed AST + clang CFG of every function under /repo/src as JSON facts"},
    {"name": "E1", "path": "bppverif/e1.py", "serves_properties": [], "kind_free_text": "CFG queries: guard facts on branch edges, dominance by guards, must-pass-through, who-writes"},
    {"name": "E2", "path": "bppverif/e2.py", "serves_properties": ["C04", "C05", "C07"], "kind_free_text": "SymBounds: index ranges and container dimensions as polynomials over size symbols; facts from throwing guards, resize calls, callee post-conditions and size summaries; proof by non-negative-coefficient test modulo Gaussian elimination of the equalities; refutation only with a witness shape whose reachability is decided by control dependence"},
    {"name": "E3", "path": "bppverif/orderai.py", "serves_properties": [], "kind_free_text": "abstract interpretation of comparison-only functions over all order types (exact for its clause)"},
    {"name": "E6", "path": "bppverif/e6.py", "serves_properties": ["C15"], "kind_free_text": "cache-invalidation completeness: interprocedural summaries of dependency writes and invalidations over the CFG"},
    {"name": "E8", "path": "bppverif/c18.py", "serves_properties": ["C18", "C09"], "kind_free_text": "kind / polarity typing of arguments (sampler conventions, strict vs inclusive flags)"},
    {"name": "E4", "path": "bppverif/c16.py", "serves_properties": ["C16", "C12", "C03"], "kind_free_text": "typestate over the CFG: npos discipline, acquire/release pairing, fresh-object retargeting"},
    {"name": "E7", "path": "bppverif/c11.py", "serves_properties": ["C11", "C12"], "kind_free_text": "formula agreement of sibling members by computer algebra (sympy from the tooling venv; re-execs under python3-vt)"},
    {"name": "E5", "path": "bppverif/c02.py", "serves_properties": ["C02"], "kind_free_text": "sibling / table agreement: validation loop vs apply loop, copy vs share functions"},
]

NOTES = ("Static analysis only: every check re-extracts facts from /repo's working tree (clang AST+CFG) and evaluates repository-specific rules. "
         "Exit 0 = decided clauses hold (KNOWN-FINDING lines for recorded defects), 1 = VIOLATION, 2 = analysis broken (anchor vanished, floor not met, parse error). "
         "Thorough tier = quick analysis + the property's witness mutants (witness/<id>/*.patch) each applied to a scratch copy of the current tree and re-analysed: every one must be refuted with the mutated construct named, "
         "otherwise the checker is reported broken (exit 2). Nothing is executed in either tier.")

CLAIMED = {
    "C01": dict(
        engine="E1+E3",
        technique="static analysis: whole-program who-writes + CFG guard dominance on Parameter::value_/constraint_; abstract interpretation of IntervalConstraint over all order types; parallel-initialiser agreement of the half-line constructor; shared copy rule; who-writes rule on the two bound members (no value moves from one bound to the other)",
        level=("Static rules over the resolved program decide: every store to a parameter's value/constraint in the whole library is a checked write, pair copy, guarded install or "
               "unconstrained initialisation; the constructor validates; no effect precedes a rejecting throw; the interval algebra (membership, inclusion, intersection, emptiness, limits) "
               "equals its set-theoretic definition on every order type of bounds x flags (exhaustive truth table by abstract interpretation of the syntax tree); AutoParameter stores the accepted limit; "
               "bracket tables of the description syntax agree. This covers all inputs and histories for those clauses, which a sampled test cannot. The half-line constructor gives the finite end the caller's inclusion flag and leaves the infinite end open. The bounds are stored as given: a reversed pair stays the empty interval."),
        note=TB + "Not decided: floating-point spacing of limit+-1e-12, numeric parsing inside readDescription, constraints mutated after installation through a shared pointer."),
}

CLAIMED["C02"] = dict(
    engine="E1+E5",
    technique="static analysis: loop-pair (validate/apply) agreement over resolved expressions, CFG guard dominance on every insertion into ParameterList::parameters_, clone-vs-share classification, per-iteration counter lock-step; early-exit rule on validation loops; order rule for positional bulk erase; shared copy rule (members, clone vs share, reset on every path); refusing look-ups of the apply pass repeated by the validation pass under no extra filter; collision branch of include*/share* stores through setValue",
    level=("Static rules decide, for all lists and values: each bulk setter validates the TARGET's constraint on the very value it later stores, over the same range and filter, in a loop that dominates the "
           "apply loop; flag/store/position are recorded together and the position counter advances exactly once per iteration; every insertion into a list (whole program) keeps names unique; copy "
           "functions store clones and share functions the source's pointer; index-set deletion sorts a copy, walks it descending and range-checks; owners notify only after the list operation returned. A validation pass cannot be left before the last entry; positions of an index set are erased in descending order. A look-up that throws for an absent name is made by the validation pass for every entry the apply pass makes it for; on an existing name include*/share* update the value through Parameter::setValue, never by whole-object assignment or pointer replacement."),
    note=TB + "Not decided: 'exactly the named entries' as a value statement, precision>0 corner cases, atomicity when a listener throws during the apply pass, setParameter(index,param).")

CLAIMED["C20"] = dict(
    engine="E3+E1",
    technique="static analysis: abstract interpretation of Range primitives over all order types of the end points; must-pass-through (clean_ after mutation), clone/ownership pairing and erase-advance rules on the CFG; shared copy rule (members, reset on every path of operator=); argument-swap rule; order-permuting std algorithms on the owned list count as mutations that need clean_()",
    level=("For Range/RangeSet/MultiRange<int|unsigned long|double>: overlap/contains/isContiguous/isEmpty/expandWith/sliceWith/==/!=/constructor equal half-open interval arithmetic on every order type "
           "(exhaustive truth table from the syntax tree); shifts treat both ends alike; copies store clones and assignment clears first; every MultiRange mutator re-establishes the canonical form via clean_ "
           "(std::sort with rangeComp_ + removal of empties); erase loops do not skip the element that slides into an erased slot; delete/erase/clear pairing of owned pointers. operator= empties the owned list on every path except self-assignment."),
    note=TB + "Not decided: union/total length over operation histories, correctness of addRange's merge order, rangeComp_ as a strict weak order (relies on disjointness).")

CLAIMED["C03"] = dict(
    engine="E1+E4+E5",
    technique="static analysis: state-preserving-cycle search on the CFG with exception edges and callee effect summaries; assign-reset, fresh-object (clone -> retarget -> store) typestate, throw-after-mutation reachability, must-pass bookkeeping; shared copy rule incl. fix-up loop range agreement between copy constructor and operator=; index-space agreement of the (position, list) pair given to every alias listener",
    level=("Static rules decide: no loop of the bulk-alias routine can cycle without writing loop state (termination clause, for every map); operator= clears what it re-populates; cloned listeners are "
           "re-targeted to the copy's own list before being registered/attached and shared pointers come from the copy itself; refusals precede every mutation in alias/unalias; the three bookkeeping "
           "steps happen on every normal path on the right parameters; setNamespace renames listeners before the base class; the intersected constraint is installed on both parameters; an alias listener is built with a position looked up in the very list it is bound to."),
    note=TB + "Not decided: value equality through alias chains after arbitrary histories, cycles longer than two, listener firing order.")

CLAIMED["C15"] = dict(
    engine="E6+E1",
    technique="static analysis: interprocedural cache-invalidation completeness (dependency writes vs reachable topologyHasChanged_() per public entry point), override/flag-source checks, call-graph reachability from rootAt, orientation agreement between the edge table and the node table written by one function (convention read from the link helpers), who-reads and who-writes rules on the id allocators (never compared with counts; assigned only under a comparison with their current value); ordering rule unlink-before-link for members re-parenting one node; leaf test of the recursive leaf collectors (a node is a leaf exactly when it has no son)",
    level=("Static rules decide, for every history: each public entry point of the tree/DAG containers and their observers that writes a dependency of the cached validity predicate reaches the virtual "
           "invalidator afterwards; the derived invalidator really overrides the base virtual and clears the flag; the flag only becomes true from isTree()/isDA(); re-rooting cannot erase edges, notify "
           "deletions or allocate edge ids on the graph itself; the edge reversal of re-rooting records the edge with the same orientation in both tables; the id allocators are never used as element counts and never move backwards. "
           "This is the 'regardless of earlier queries' clause, which no finite test history settles."),
    note=TB + "Not decided: father/sons/path/MRCA definitions, correctness of isTree()/isDA(), writes invalidated on some paths only (reported UNKNOWN), DAG rootedness cache.")

CLAIMED["C13"] = dict(
    engine="E6+E5",
    technique="static analysis: structural inference of memo keys and lazy flags, reset/cover rules on the CFG of every fireParameterChanged sibling, lazy-flag coverage via callee effect summaries, sibling protocol and copy/assign member agreement; reference-aliasing rule at call sites of update-by-scalar helpers (callee summaries: which const-reference scalars are read inside a loop that writes the container); accessor/view expression agreement of the transition models; argument-swap rule; path rule fill -> shift-by-maximum -> sumExp on log-domain vectors (helpers followed); who-permutes rule on the positional per-segment tables (reference locals resolved); disjoint write sets of the first- and second-derivative passes and reset-before-accumulate on their members; memo-key reset by every method that re-runs the forward pass (setBreakPoints); who-writes rule on the served stationary vector (stored by a member that runs after updates)",
    level=("Static rules decide the history clause ('answers depend only on the current parameter values'): every notification that recomputes the forward pass resets the derivative memo keys and the backward "
           "lazy flags on the same paths; a method that marks a transition model up to date has computed every result served under that flag; the three likelihood classes follow one update protocol; "
           "copy constructor and operator= copy the same members. No call hands an update-by-scalar helper an element of the vector it updates; Pij(i,j) and the entry getPij() stores are the same expression. A vector of log-likelihoods is reduced by its maximum on every path before VectorTools::sumExp exponentiates it; the per-segment tables are never reordered in place. The second-derivative pass writes nothing the (memoised) first-derivative pass produced, and each pass resets what it accumulates."),
    note=TB + "Not decided: numerical equality of the three algorithms, agreement with path enumeration, derivative values, stochasticity/stationarity of built-in matrices, flat-array index ranges (E2 not applied here).")

CLAIMED["C12"] = dict(
    engine="E4+E5+E1+E7",
    technique="static analysis: acquire/release typestate on the CFG (enable-flag pairing, probe->restore with stable-fact path restriction), entry-point sibling agreement, guard dominance for delegation, table agreement between the name->slot map and slot writes; reaching-definition walk naming the point of every probe value + computer-algebra identity check of each difference formula on generic polynomials (sympy; re-execs under python3-vt); values assigned inside a try body are stale in its handlers unless taken again; must-pass store of the served value member; real-zero test of every probing step (sympy solveset); path-sensitive reachability (boolean flags and small counters followed) for name locals declared empty",
    level=("Static rules decide the transparency clauses for every input and history: all six update entry points forward then update with what was set; every variable shifted for a probe is restored from the "
           "unmodified argument on every path to the normal exit; analytic derivatives switched off for probing are switched back on at every normal exit; the cached derivative is served only for selected "
           "variables with computing on, else delegated; the selection table is rebuilt from scratch; constraint-hit handlers flip the probing side or use one-sided formulas; slots are indexed by selection position; every difference formula stored into a derivative slot, "
           "read with the points at which its values were taken, is exact for all polynomials of degree <= max(order, points-1) identically in the step sizes (mixed derivative: total degree 2). The member getValue() returns is stored on every path of an update; no probing step has a real zero as a function of the parameter value; a name local declared empty is assigned on every feasible path before it reaches createSubList."),
    note=TB + "Not decided: convergence order beyond the exactness degree, rounding, that a retry loop that gives up leaves its snapshot at 0 (modelling assumption of D7), exceptional exits.")

CLAIMED["C09"] = dict(
    engine="E6+E1+E8",
    technique="static analysis: rebuild-after-change must-pass on every notification/entry point, structural inference of parameter caches and constructor-derived state, clear-before-fill dominance, index-equals-size, throw-type typing, strict/inclusive polarity typing of booleans, lookup-loop coverage, copy/assign member agreement; shared copy rule (clone vs share of owning pointers); argument-swap rule; re-derivation must-pass from every cache reload; running (point, value) pair initialisation; accumulate-not-assign rule for weighted contributions of compound rebuilds (also spelled as map insertions whose result is discarded)",
    level=("Static rules decide, for every family and history: every accepted change (parameter, class count, median, restriction) reaches a rebuild after its last state write, compounds updating their components first; "
           "every member caching a parameter or derived from one in the constructor is refreshed before the rebuild; rebuilds clear before filling; no access at an index equal to the established size; only library "
           "exceptions; booleans handed to 'strict' parameters have strict polarity and class values used as bounds are included; value lookups compare every interior bound; copy constructor and operator= agree. copy constructor and operator= agree on cloning the domain interval. A member derived from a parameter cache is re-derived on every path on which the cache was reloaded; a running partial expectation starts as the function of the starting bound; a mixture adds up the weighted class probabilities of its components."),
    note=TB + "Not decided: probabilities summing to one, values inside their interval, discrete mean, cumulative/quantile consistency, stick-breaking weights of mixtures (numerical).")

CLAIMED["C18"] = dict(
    engine="E8+E1",
    technique="static analysis: kind typing (MEAN/RATE/SCALE/VARIANCE/STDDEV/SHAPE with 1/x, sqrt, square conversions) of arguments reaching std distribution constructors and RandomTools samplers, conventions inferred from the library's cumulative functions and @param docs; guard dominance for refusals; who-uses rule for the random engine; overload-resolution rule for picks on the with-replacement branch of getSample",
    level=("Static rules decide, independent of seed and sample: a mean argument reaches the std sampler as a mean, a rate as a rate, a variance as a variance, in RandomTools and in every distribution's randC(); "
           "emptiness and over-long requests are refused before any draw; every draw in the library is driven by RandomTools::DEFAULT_GENERATOR, which setSeed seeds, and no other randomness source exists; a pick made for sampling with replacement resolves to a pickOne that cannot remove elements."),
    note=TB + "Not decided: every distributional statement (goodness of fit), multinomial and weighted picks, contingency-table margins, p-value range; weighted picks assume size(w) == size(v); Gamma randC tests the un-shifted draw against the domain (noted).")

CLAIMED["C16"] = dict(
    engine="E4+E1",
    technique="static analysis (necessary conditions): npos typestate on std::string search results with guard dominance, unsigned 'size()-c' underflow rule, feasible state-preserving-cycle search and zero-stride idiom on every loop, interprocedural division-by-parameter rule, throw-type typing, look-ahead re-test rule on counted loops, emptiness typestate on tokenizer token lists and on local containers (path search avoiding every filling statement); map::at presence rule; unsigned-variable loop bounds (also through a const local holding size() - c); argument-swap rule",
    level=("Necessary conditions of 'never crashes or hangs', decided for every input over the 13 anchored units: search results on caller-supplied text are tested against npos before positional use; "
           "no 'size() - c' bound/index on a possibly empty container without a guard (local containers: no path from the empty declaration to the access without a filling statement or a guard); a loop counter advanced a second time "
           "inside the body is re-tested before it indexes; the first token of a tokenizer is read only after a test that one exists; none of the loops can cycle without changing state and none advances only by the size of a possibly empty caller string; "
           "integral divisions by a parameter are guarded; only library exceptions are thrown explicitly. Passing these rules does NOT prove absence of crashes (that remains the fuzzers' job). map::at(K) follows a presence test of the same key; an unsigned count converted from the caller's text is tested before 'count - 1' bounds a growing loop."),
    note=TB + "Not decided: invalid iterators inside std algorithms, signed overflow, allocation size, index ranges that need value reasoning, exceptions escaping from std members.")

CLAIMED["C14"] = dict(
    engine="E1+E5+E4",
    technique="static analysis: guard dominance for inserting reads of the node/edge tables, mirrored-call sibling rule (link vs unlink under '!directed_'), must-pass notification after erase (through private helpers), co-update of map groups, assign-reset and re-subscription order, inverse-map write agreement, refusal-before-write ordering with effect summaries that follow iterators into the tables, discarded-insert-result rule on the relation maps; strict size guard rule for at()/operator[]; sibling agreement of the sixteen neighbour-iterator constructors; emptied-before-refill rule for the observer's slot tables (resize alone keeps old slots); start()/next() sibling agreement on the skip loop of the observer iterators; allocator rule for edges recorded under a caller-chosen id",
    level=("Static rules decide for every history: the node/edge tables never gain phantom entries through an unguarded operator[] read; unlink mirrors link for undirected graphs; every deletion reaches the observer "
           "notification; an object forgotten by an observer is forgotten in every map; observer assignment clears, unsubscribes and re-subscribes; paired inverse maps are written consistently (copy constructors included); no member refuses after it has changed the tables (own throws, precondition helpers, and the mirrored test-then-erase helper for a node's relation with itself); "
           "a relation recorded with a discarded insert() result is preceded by an absence test (refuted on the pinned tree: known finding, parallel edges). An index compared with a table's size before at() is compared strictly; all spellings of the outgoing (incoming) neighbour iterators walk the same relation map. Observer assignment empties its slot tables before refilling them; start() and next() of the observer's iterators both skip graph elements without an object. An edge recorded under an id chosen outside the class moves the id counter past that id."),
    note=TB + "Not decided: agreement with a reference multigraph over histories, iterator contents vs list queries, unchecked find() results on absent ids in protected members (undefined behaviour tolerated by libstdc++).")

CLAIMED["C11"] = dict(
    engine="E7+E3+E1",
    technique="static analysis: sibling closed-form members extracted per guard valuation from the syntax tree and compared with a computer-algebra normaliser (inverse / derivative pairs, witness point required to refute); finite case analysis of init_ over the 8 bound configurations; chain-rule shape; must-pass forwarding; the wrapper's own accessors modelled in the chain-rule expression (rational forms included)",
    level=("Static comparison of sibling formulas decides, for every value in each guard region: the half-line and interval transforms invert (unit scale for the half-line formula) and their first/second derivative "
           "members are the derivatives of the back-transform; the wrappers' derivative accessors have the chain-rule shape; each of the eight bound configurations gets exactly one transform of the right kind, "
           "orientation and inward-nudged bounds; fireParameterChanged syncs every coordinate, setParameters always forwards, getValue delegates, the constructor leaves the wrapped function untouched. "
           "Borderline for this family (syntax trees compared with an algebraic equality test); no path enumeration, no solver, nothing is executed."),
    note=TB + "sympy (tooling venv) is the equality test; atan(tan(u)) = u is applied on the principal branch (assumption). Not decided: rounding near bounds (TINY nudges), numerical monotonicity, half-line continuity at non-unit scale.")

CLAIMED["C19"] = dict(
    engine="E5+E1",
    technique="static analysis: clone agreement of the parameter formulas in constructor vs setFrequencies under renaming, size-guard dominance for argument indexing, constraint attachment on every created Parameter, no-early-exit rule on the loops filling the probability vector; coverage rule for countdown loops storing into member vectors; argument-swap rule; control-dependence of every probability-derived parameter value on the coding selector method_",
    level=("Narrow structural claim: per coding the two implementations of 'probabilities -> parameters' compute the same formulas; the setter's argument is indexed only under a dimension test; every simplex "
           "parameter carries the allowNull-selected unit-interval constraint; the notification fills every probability entry and gives the last one the remaining mass. A countdown loop i > 0 stores at [i - 1] (element 0 is not skipped)."),
    note=TB + "Not decided: normalisation / inversion / injectivity as values, the binary coding's bit arithmetic, OrderedSimplex ordering, consistency of literal parameters in the dimension constructor.")

CLAIMED["C17"] = dict(
    engine="E5+E1",
    technique="static analysis: writer/reader table agreement extracted from the syntax tree (family names, argument keys, parameter names), last-write rule for recorded separators in the tokenisers, alpha-equivalence of the three wildcard-matcher clones; argument/parameter name agreement at forwarding calls; family names tested against getName() exist; component-number agreement between the reader's nested-argument names and the mixture's own prefixes; sibling agreement on forwarding versus defaulting a same-named option",
    level=("Narrow structural claim about the round-trip clauses: everything the distribution writer can emit (family names, 'key=' arguments) is understood by the reader and the reader's parameter keys exist; "
           "tokenisers record a separator only once the scan position is final and never store a continued token without its separator; the three copies of the '*' matcher are the same algorithm. Same-typed parameters (decimal separator, exponent marker) are forwarded to their own positions."),
    note=TB + "Not decided: numeric round trips, the decimal-number grammar (hand-written automaton), nested tokenising, glob semantics of the shared algorithm, variable-resolution fixed point, delimited-table round trip.")

CLAIMED["C10"] = dict(
    engine="E1+E5",
    technique="static analysis: call-graph reachability of doStep()/step() from loops and their exit conditions, dominance/ordering of the constraint-policy installation, argument provenance of bracketing/line-search calls, restore-before-return path rule, feasible state-preserving-cycle search on every loop, evaluation-point freshness typestate, evaluation accounting, abscissa/value pairing of parallel transfers (pairs grounded in evaluation events, propagated and cross-checked per straight-line region); shared copy rule on the optimiser classes (members, clone vs share, re-binding of cloned helpers); argument-swap rule; guard/action agreement of bound-selecting if-chains; refresh-before-init path rule for nested optimiser hand-overs; distinct-columns rule for two stores of one block into a two-dimensional member",
    level=("Narrow structural claim: the only loops driving an optimiser's own steps are capped by the evaluation budget; the automatic/ignore constraint policy is installed on the optimiser's own list before anything is "
           "evaluated, covers every parameter, is re-applied on copy, and bracketing/line search work on that list; a step that gives up restores the objective before reporting the old value; no loop can cycle without changing state; the objective is evaluated at the abscissa its value is then filed under; "
           "every move, shift, swap, selection or bracket update of an evaluated point keeps the value with its abscissa. Copy constructor and operator= of the optimisers copy the same members and re-bind the cloned stop conditions to the new object in both. A branch selected by a comparison with one bound vector computes with that bound; a stored list handed to a nested optimiser is refreshed from the current parameters first; a direction replaced in the direction set is saved before it is overwritten."),
    note=TB + "Not decided: descent, reported value = f(reported point) beyond the pairing of transfers, convergence on quadratics, feasibility of every evaluation, bracketing triples: these are values of runs.")

CLAIMED["C08"] = dict(
    engine="E1",
    technique="static analysis of ONE clause (error signalling): structural discovery of sentinel-returning functions and their pass-through closure, call-site discipline (returned unchanged or tested before arithmetic, with reaching definitions), constant propagation of documented out-of-domain arguments through entry guards (also used to decide whether a caller's own entry guard excludes every argument for which its callee signals); ordering rule: no ordinary early return in front of a guard that signals on another parameter",
    level=("Only the last sentence of the property is claimed: out-of-domain arguments give the documented error signal. Decided for every call site and for the witness constants of the documented invalid regions: "
           "sentinels of incompleteGamma/qChisq/qNorm are never rescaled or shifted by callers, and the entry guards of qNorm, qChisq, incompleteGamma, pGamma, incompleteBeta reject negative/over-unit probabilities, "
           "non-positive shapes and negative abscissae; the signal for one parameter does not depend on a shortcut taken for another. Range, monotonicity, identities, inverse relation and accuracy are NOT claimed (not applicable to this technique)."),
    note=TB + "All numerical clauses of C08 are outside static reach (coefficient values, series/continued-fraction switches, iteration counts); qNorm(1) returning the lower-tail sentinel is noted, not asserted.")

CLAIMED["C04"] = dict(
    engine="E2+E5+E8",
    technique="static analysis: symbolic index-bound analysis of every instantiated MatrixTools kernel (index ranges and container dimensions as polynomials over size symbols, facts from throwing guards and resize calls on every path, refutation only with a witness shape whose reachability is decided by control dependence), accessor agreement of the three storage classes, implicit-conversion scan, identity-element / accumulator-reset dominance rules; must-pass of the inner sizing in resize; computer-algebra check that a scalar shortcut is taken only where the element update is the identity; argument-swap rule; output coverage (union of the index boxes written after a resize covers the whole output, on a grid of witness shapes)",
    level=("Decides the shape clauses only: every element access of every MatrixTools kernel stays inside the dimensions that the guards and resize calls on its path establish for all shapes (incl. 0xn, 1xn, non-square, "
           "unsized outputs), non-conformable operands reach a throwing guard before the first access, the three storage classes address the same element in their const and non-const accessor and keep their counters "
           "in step with the storage, kernels have no implicit floating->integral truncation, reductions start from the right identity and products zero their output entry. The entries' values, storage-independence "
           "of the values and optimality/dual certificate of the assignment solver are NOT claimed. resize sizes the inner vectors on every path; a scalar early return is taken only where the update it skips is the identity. A kernel that resizes an output (matrix or vector of matrices) and assigns entries assigns every entry, for every shape of the witness grid on which it does not throw."),
    note=TB + "sympy (tooling venv) does the polynomial comparisons. Data-dependent indices (the assignment solver's lists) stay UNKNOWN. Known findings: MatrixTools::lap (see known_findings.json).")

CLAIMED["C05"] = dict(
    engine="E2+E1+E5+E3",
    technique="static analysis: class-invariant extraction from constructor initialisers, symbolic index bounds under that invariant, guard dominance in solve, pairing rule (pivot-vector exchange / full-row exchange / sign flip), gather direction of the permuted copy and its sizing on every path, coverage of the smallest-pivot scan, product-rule index typing of every elimination and substitution update, magnitude comparison in the pivot search, finite case analysis of the triangular extraction, wrapper plumbing of inv/det",
    level=("Structural necessary conditions of C05 on LUDecomposition and MatrixTools::inv/det: the stored shapes match their use for every square order >= 1, wrong-height right-hand sides and pivots below "
           "NumConstants::SMALL() reach a throw before any substitution, every row exchange is complete and recorded in both the pivot vector and the determinant's sign, the permuted copy applies the "
           "permutation in the right direction, the indicator is the minimum over the whole diagonal, all updates are well-typed matrix-product terms in the right triangle and order, the pivot is chosen by "
           "magnitude. The numerical clauses (backward error bound, exact integer determinants, multiplicativity) are values of runs and are NOT claimed."),
    note=TB + "The two std::vector overloads of LUDecomposition do not compile (dim1/clean) and cannot be instantiated by any caller; they are outside the analysis.")

CLAIMED["C07"] = dict(
    engine="E2+E5+E8+E4",
    technique="static analysis: symbolic index bounds of every VectorTools/NumTools template instantiation, vector operator and StatTools function with callee post-conditions (E2), argument/parameter name agreement at forwarding calls, shape rules of the max-shifted exponent sums and the pairwise log-sum (shift by the larger operand, infinite shift tested first, shift undone), rank/comparator agreement of the FDR routine, sortedness typestate for order statistics, shape of extremum searches, documented-exception agreement; seed/traversal agreement of reductions (every element enters once)",
    level=("Structural clauses: no element access without a size test that throws first (own or a callee's) for every input length incl. empty and mismatched; forwarded flags keep their position; every exponential in the "
           "log-domain reductions is shifted by the maximum of the same data, never positive in logsum, guarded against inf - inf, and un-shifted at the end; the FDR divisor is the rank in the sorted order and agrees with the "
           "comparator; median reads positions n/2-1, n/2 of a fully sorted container; min/max/whichMin/whichMax throw on empty input, start at the first element, compare in the right direction, keep the first position. "
           "The numerical identities (equivariance, bounds, moments, entropies, FDR values) are NOT claimed."),
    note=TB + "sympy (tooling venv) does the polynomial comparisons. Data-dependent indices (extract, order-based access) stay UNKNOWN.")

NOT_APPLICABLE = {
    "C06": ("every clause is a floating-point identity of the JAMA QL/QR iterations (A.V = V.D within k.eps, ordering, trace/determinant); correctness lies in rotation coefficients and "
            "deflation tests that no sound static argument in reach bounds, and no structural necessary condition separable from run-time invariants exists (DESIGN.md section 6)"),
}
